"""Run every claimed check against every seeded change (as an in-memory overlay of /repo) and tabulate who catches what.

Developer tool (not registered in MANIFEST). Writes seeded/MATRIX.json and seeded/MATRIX.md.
"""
import json
import multiprocessing as mp
import os
import pathlib
import sys

sys.path.insert(0, str(pathlib.Path(__file__).parent))
VERIF = pathlib.Path(__file__).parent
SEEDED = pathlib.Path(os.environ.get("SEEDED_DIR", str(VERIF / "seeded")))
ALL = [f"C{i:02d}" for i in range(1, 21)]


def one(args):
    sid, prop = args
    from sa.check import run_property
    from sa.dev import overlay_from_patch
    from sa.errors import AnalysisError
    try:
        ov = overlay_from_patch(str(SEEDED / sid / "patch.diff"))
    except SystemExit as e:
        return sid, prop, "noapply", [str(e)[:80]]
    try:
        import contextlib
        import io
        buf = io.StringIO()
        with contextlib.redirect_stdout(buf):
            rc, ctx = run_property(prop, "quick", 0, overlay=ov, write_evidence=False, quiet=True)
        from sa.report import load_known
        known = {f"{k['property']}/{k['rule']}/{k['key']}" for k in load_known() if k.get("status") == "known"}
        keys = sorted({f"{f.rule}@{f.key}" for f in ctx.findings if f.ident() not in known})
        return sid, prop, {0: "silent", 1: "FIRES", 2: "undecided"}[rc], keys[:6] if rc == 1 else ctx.undecided[:2]
    except AnalysisError as e:
        return sid, prop, "undecided", [str(e)[:120]]
    except Exception as e:  # noqa: BLE001
        return sid, prop, "crash", [f"{type(e).__name__}: {e}"[:160]]


def main():
    sids = sorted(os.listdir(SEEDED))
    sids = [s for s in sids if (SEEDED / s / "patch.diff").exists()]
    only = sys.argv[1:]
    if only:
        sids = [s for s in sids if any(s.startswith(o) for o in only)]
    props = [p for p in ALL if (VERIF / "sa" / "props" / f"{p.lower()}.py").exists()]
    jobs = [(s, p) for s in sids for p in props]
    with mp.Pool(min(16, os.cpu_count() or 4)) as pool:
        results = pool.map(one, jobs, chunksize=4)
    table: dict = {}
    for sid, prop, verdict, keys in results:
        table.setdefault(sid, {})[prop] = {"verdict": verdict, "keys": keys}
    (SEEDED / "MATRIX.json").write_text(json.dumps(table, indent=1))
    lines = ["| seeded change | breaks | caught by own check | caught by (all) | undecided / crash |", "|---|---|---|---|---|"]
    missed = []
    for sid in sids:
        row = table[sid]
        own = sid[:3] if sid.startswith("C") else "-"
        fires = [p for p in props if row[p]["verdict"] == "FIRES"]
        und = [f"{p}:{row[p]['verdict']}" for p in props if row[p]["verdict"] in ("undecided", "crash", "noapply")]
        own_v = row.get(own, {}).get("verdict", "-") if own != "-" else "-"
        if not fires:
            missed.append(sid)
        lines.append(f"| {sid} | {own} | {own_v} | {', '.join(fires) or '**none**'} | {', '.join(und)} |")
    lines.append("")
    lines.append(f"missed by every check: {missed}")
    (SEEDED / "MATRIX.md").write_text("\n".join(lines) + "\n")
    print("\n".join(lines))
    if not only:
        # frozen expectations for the self-test: own property for independently written changes, every catching check for fix reversals
        exp = {}
        for sid in sids:
            fires = [p for p in props if table[sid][p]["verdict"] == "FIRES"]
            if fires:
                exp[sid] = fires
        (SEEDED / "EXPECT.json").write_text(json.dumps(exp, indent=0))


if __name__ == "__main__":
    main()
