"""Run every check against every behaviour-preserving refactoring under benign/ (as an in-memory overlay of /repo) and tabulate the verdicts.

Developer tool (not registered in MANIFEST). Writes benign/MATRIX.json and benign/MATRIX.md.  A FIRES entry is a false alarm of the machinery.
"""
import json
import multiprocessing as mp
import os
import pathlib
import sys

sys.path.insert(0, str(pathlib.Path(__file__).parent))
VERIF = pathlib.Path(__file__).parent
BENIGN = pathlib.Path(os.environ.get("BENIGN_DIR", str(VERIF / "benign")))
ALL = [f"C{i:02d}" for i in range(1, 21)]


def one(args):
    import tools_matrix as tm
    tm.SEEDED = BENIGN
    return tm.one(args)


def main():
    sids = sorted(s for s in os.listdir(BENIGN) if (BENIGN / s / "patch.diff").exists())
    only = sys.argv[1:]
    if only:
        sids = [s for s in sids if any(s.startswith(o) for o in only)]
    jobs = [(s, p) for s in sids for p in ALL]
    with mp.Pool(min(16, os.cpu_count() or 4), maxtasksperchild=8) as pool:
        results = pool.map(one, jobs, chunksize=2)
    table: dict = json.loads((BENIGN / "MATRIX.json").read_text()) if only and (BENIGN / "MATRIX.json").exists() else {}
    for sid, prop, verdict, keys in results:
        table.setdefault(sid, {})[prop] = {"verdict": verdict, "keys": keys[:3]}
    (BENIGN / "MATRIX.json").write_text(json.dumps(table, indent=1, sort_keys=True))
    lines = ["| refactoring | written against | silent (exit 0) | undecided (exit 2) | FIRES (false alarm) |", "|---|---|---|---|---|"]
    fires = 0
    for sid in sorted(table):
        row = table[sid]
        und = [p for p in ALL if row.get(p, {}).get("verdict") in ("undecided", "crash", "noapply")]
        fr = [p for p in ALL if row.get(p, {}).get("verdict") == "FIRES"]
        fires += len(fr)
        lines.append(f"| {sid} | {sid[:3]} | {20 - len(und) - len(fr)} | {', '.join(und)} | {', '.join(fr) or '-'} |")
    lines.append("")
    lines.append(f"{len(table)} refactorings x 20 checks: {fires} false alarm(s); "
                 f"{sum(1 for r in table.values() for v in r.values() if v['verdict'] == 'undecided')} undecided verdict(s)")
    (BENIGN / "MATRIX.md").write_text("\n".join(lines) + "\n")
    print("\n".join(lines[-3:]))


if __name__ == "__main__":
    main()
