import numpy as np
from black_it.search_space import SearchSpace
s=SearchSpace([[0.0],[1e-3]],[1e-8],False)
g=s.param_grid[0]; print(len(g), g[-1], g[-1]>1e-3, (g>1e-3).sum())
s=SearchSpace([[0.0],[1.0]],[0.3],False); print(s.param_grid[0])
# negative precision
try:
    s=SearchSpace([[0.0],[1.0]],[-0.1],False); print("neg precision accepted, grid", s.param_grid[0], s.space_size)
except Exception as e: print(type(e).__name__)
# get_closest
from black_it.utils.base import get_closest
g=np.array([0.,1.,2.]); print(get_closest(g, np.array([-5, 0.5, 1.5, 2.5, 9, 1.0])))
