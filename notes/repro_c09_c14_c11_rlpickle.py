import numpy as np, warnings, threading, tempfile, os, sys, io, contextlib
warnings.filterwarnings("ignore")
from black_it.calibrator import Calibrator
from black_it.loss_functions.minkowski import MinkowskiLoss
from black_it.samplers.halton import HaltonSampler
from black_it.samplers.random_uniform import RandomUniformSampler
from black_it.samplers.best_batch import BestBatchSampler
from black_it.samplers.xgboost import XGBoostSampler
from black_it.schedulers.rl.rl_scheduler import RLScheduler
from black_it.schedulers.rl.agents.epsilon_greedy import MABEpsilonGreedy
from black_it.schedulers.rl.envs.mab import MABCalibrationEnv
from black_it.search_space import SearchSpace

def model(theta, N, seed):
    rng=np.random.default_rng(seed)
    return (theta[0]+rng.standard_normal((N,1)))
real=model([0.5],20,0)
def mk(**kw):
    base=dict(loss_function=MinkowskiLoss(), real_data=real, model=model, parameters_bounds=[[0.0],[1.0]], parameters_precision=[0.01], ensemble_size=1, n_jobs=1, verbose=False, random_state=0)
    base.update(kw)
    with contextlib.redirect_stdout(io.StringIO()):
        return Calibrator(**base)
def quiet(f,*a):
    with contextlib.redirect_stdout(io.StringIO()):
        return f(*a)
# 1. both none / both given
for s,sch in [(None,None),([HaltonSampler(2)], None)]:
    pass
try:
    mk(samplers=None, scheduler=None); print("C09 both None: accepted")
except Exception as e: print("C09 both None:", type(e).__name__, e)
from black_it.schedulers.round_robin import RoundRobinScheduler
try:
    c=mk(samplers=[HaltonSampler(2)], scheduler=RoundRobinScheduler([RandomUniformSampler(2)])); print("C09 both given: accepted, uses", type(c.scheduler.samplers[0]).__name__)
except Exception as e: print("C09 both given:", type(e).__name__, e)

# 2. convergence non verbose
def model0(theta,N,seed): return real.copy()
c=mk(samplers=[HaltonSampler(2)], model=model0, convergence_precision=3, verbose=False)
quiet(c.calibrate,5); print("C14 non-verbose batches run:", c.current_batch_index)
c=mk(samplers=[HaltonSampler(2)], model=model0, convergence_precision=3, verbose=True)
quiet(c.calibrate,5); print("C14 verbose batches run:", c.current_batch_index)
with tempfile.TemporaryDirectory() as d:
    c=mk(samplers=[HaltonSampler(2)], model=model0, convergence_precision=3, verbose=True, saving_folder=d)
    quiet(c.calibrate,5); print("C14 verbose+folder batches:", c.current_batch_index, "checkpoint files:", os.listdir(d))

# 3. RL scheduler + saving folder
with tempfile.TemporaryDirectory() as d:
    samplers=[HaltonSampler(2), RandomUniformSampler(2)]
    sch=RLScheduler(samplers, MABEpsilonGreedy(2,-1,0.1), MABCalibrationEnv(2))
    c=mk(scheduler=sch, saving_folder=d)
    try:
        quiet(c.calibrate,2); print("RL+folder ok")
    except BaseException as e: print("C04 RL+folder:", type(e).__name__, e)
    print("threads alive after:", [t.name for t in threading.enumerate() if t is not threading.main_thread()])
    # cleanup
    if sch._agent_thread and sch._agent_thread.is_alive():
        sch._stopped=True; sch._out_queue.put(None); sch._agent_thread.join(2)
