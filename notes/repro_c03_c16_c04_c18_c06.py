import numpy as np, warnings, threading, tempfile, os, sys, io, contextlib, sqlite3
warnings.filterwarnings("ignore")
from black_it.calibrator import Calibrator
from black_it.loss_functions.minkowski import MinkowskiLoss
from black_it.samplers.halton import HaltonSampler
from black_it.samplers.random_uniform import RandomUniformSampler
from black_it.samplers.best_batch import BestBatchSampler
from black_it.samplers.xgboost import XGBoostSampler
from black_it.search_space import SearchSpace
def quiet(f,*a,**k):
    with contextlib.redirect_stdout(io.StringIO()):
        return f(*a,**k)
# BestBatch off-grid
ss=SearchSpace([[0.0,0.1],[1.0,1.0]],[0.3,0.07],False)
print("grid0", ss.param_grid[0], "grid1 tail", ss.param_grid[1][-3:])
pts=np.array([[g0,g1] for g0 in ss.param_grid[0] for g1 in ss.param_grid[1]])
losses=np.arange(len(pts),dtype=float)[::-1].copy()
bb=BestBatchSampler(batch_size=8, random_state=1)
off=0
for seed in range(20):
    bb.random_state=seed
    out=bb.sample(ss, pts, losses)
    for r in out:
        for j in range(2):
            if r[j] not in ss.param_grid[j]:
                off+=1; ex=(j, repr(r[j]))
print("C03 bestbatch off-grid coords:", off, ex if off else None)
# XGBoost mutates losses
ss2=SearchSpace([[0.0,0.0],[1.0,1.0]],[0.01,0.01],False)
p=np.random.default_rng(0).integers(0,100,(20,2))/100
l=np.random.default_rng(1).random(20); l[3]=1e300; l[5]=np.inf
l0=l.copy()
xs=XGBoostSampler(batch_size=2, random_state=0)
xs.sample(ss2,p,l)
print("C16 xgboost changed history:", np.nonzero(l!=l0)[0], l[[3,5]])

# stale series file
def model(theta, N, seed):
    return np.full((N,1), float(theta[0])+seed*0)
real=np.zeros((5,1))
def mk(**kw):
    base=dict(loss_function=MinkowskiLoss(), real_data=real, model=model, parameters_bounds=[[0.0],[1.0]], parameters_precision=[0.01], ensemble_size=1, n_jobs=1, verbose=False, random_state=0)
    base.update(kw)
    return quiet(Calibrator, **base)
with tempfile.TemporaryDirectory() as d:
    c1=mk(samplers=[HaltonSampler(2)], saving_folder=d, random_state=0); quiet(c1.calibrate,2)
    c2=mk(samplers=[HaltonSampler(2)], saving_folder=d, random_state=7); quiet(c2.calibrate,2)
    r=quiet(Calibrator.restore_from_checkpoint, d, model)
    print("C04 stale series: params equal", np.array_equal(r.params_samp,c2.params_samp), "series equal", np.array_equal(r.series_samp,c2.series_samp))
    print("   losses equal", np.array_equal(r.losses_samp,c2.losses_samp))
    # plot labels from fresh checkpoint
    from black_it.plot.plot_results import _get_samplers_names
    try: print(_get_samplers_names(d,[0]))
    except Exception as e: print("C18 plot names:", type(e).__name__, e)

# sqlite failed save
from black_it.utils import sqlite3_checkpointing as sq
with tempfile.TemporaryDirectory() as d:
    args=[np.array([[0.],[1.]]), np.array([0.01]), real, 1, 5, 1, None, False, None, 0, {"a":1}, "m", [1,2], MinkowskiLoss(), 3, np.zeros((2,1)), np.zeros(2), np.zeros((2,1,5,1)), np.zeros(2,dtype=int), np.zeros(2,dtype=int)]
    sq.save_calibrator_state(d,*args)
    print("loaded batch idx", sq.load_calibrator_state(d)[14])
    bad=list(args); bad[10]={"a":object()}  # json.dumps fails -> before? that's before execute; use unadaptable type instead
    bad=list(args); bad[14]=object()  # sqlite cannot bind
    try: sq.save_calibrator_state(d,*bad)
    except BaseException as e: print("save failed:", type(e).__name__)
    try: print("after failed save, loaded batch idx", sq.load_calibrator_state(d)[14])
    except BaseException as e: print("C06 sqlite: previous checkpoint lost:", type(e).__name__, e)
