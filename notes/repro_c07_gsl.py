import numpy as np
from black_it.loss_functions.gsl_div import GslDivLoss
a=np.array([1,12,3]); b=np.array([2,2,3])
print(GslDivLoss.get_words(a,2), GslDivLoss.get_words(b,2))
# full loss: compare nb_values=12 with definitional (tuple words)
from collections import Counter
def ref(sim, real, nb_values, L):
    T=len(real)
    def disc(x): 
        return GslDivLoss.discretize(x, nb_values, x.min(), x.max())
    def H(words, base):
        c=np.array(list(Counter(words).values()),float); p=c/c.sum()
        return -(p*np.log(p)/np.log(base)).sum(), len(p)
    tot=0
    for s in sim:
        sx=disc(s); ox=disc(real); g=0; w=0
        for l in range(1,L+1):
            sw=[tuple(sx[i:i+l]) for i in range(T+1-l)]; ow=[tuple(ox[i:i+l]) for i in range(T+1-l)]
            hs,ns=H(sw,float(nb_values**l)); hm,nm=H(sw+ow,float(nb_values**l))
            w+=2/(L*(L+1)); g+=w*(2*hm-hs+((nm-1)-(ns-1))/(2*T))
        tot+=g
    return tot/len(sim)
rng=np.random.default_rng(0)
for nbv in (5,9,12,30):
    sim=rng.standard_normal((2,60)); real=rng.standard_normal(60)
    L=3
    v=GslDivLoss(nb_values=nbv, nb_word_lengths=L).compute_loss_1d(sim, real)
    print(nbv, v, ref(sim,real,nbv,L), "EQUAL" if np.isclose(v,ref(sim,real,nbv,L),rtol=1e-12) else "DIFFERENT")
