import numpy as np, io, pandas as pd, warnings
warnings.filterwarnings("ignore")
# CSV float roundtrip with pandas default
rng=np.random.default_rng(0)
x=np.concatenate([rng.random(200000), rng.random(200000)*1e-5, rng.standard_normal(200000)*1e8, 1/rng.random(100000)])
df=pd.DataFrame({"a":x})
s=df.to_csv()
y=pd.read_csv(io.StringIO(s))["a"].to_numpy()
bad=np.nonzero(x!=y)[0]
print("csv mismatches default:", len(bad), "of", len(x))
if len(bad): print(repr(x[bad[0]]), repr(y[bad[0]]))
y2=pd.read_csv(io.StringIO(s), float_precision="round_trip")["a"].to_numpy()
print("round_trip mismatches:", int((x!=y2).sum()))
