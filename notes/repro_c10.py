import numpy as np, warnings, threading, io, contextlib
warnings.filterwarnings("ignore")
from black_it.calibrator import Calibrator
from black_it.loss_functions.minkowski import MinkowskiLoss
from black_it.samplers.halton import HaltonSampler
from black_it.samplers.random_uniform import RandomUniformSampler
from black_it.schedulers.rl.rl_scheduler import RLScheduler
from black_it.schedulers.rl.agents.epsilon_greedy import MABEpsilonGreedy
from black_it.schedulers.rl.envs.mab import MABCalibrationEnv
def quiet(f,*a,**k):
    with contextlib.redirect_stdout(io.StringIO()):
        return f(*a,**k)
def model(theta, N, seed):
    rng=np.random.default_rng(seed); return theta[0]+rng.standard_normal((N,1))
real=model([0.5],20,0)
log=[]
class A(MABEpsilonGreedy):
    def policy(self,s):
        a=super().policy(s); log.append(("policy",a)); return a
    def learn(self,s,a,r,ns):
        log.append(("learn",a,float(r))); super().learn(s,a,r,ns)
samplers=[HaltonSampler(2), RandomUniformSampler(2)]
sch=RLScheduler(samplers, A(2,-1,0.5), MABCalibrationEnv(2))
c=quiet(Calibrator, loss_function=MinkowskiLoss(), real_data=real, model=model, parameters_bounds=[[0.0],[1.0]], parameters_precision=[0.01], ensemble_size=1, n_jobs=1, verbose=False, random_state=0, scheduler=sch)
quiet(c.calibrate,3)
print("session1 log:", log); print("methods:", c.method_samp[::2], "queues: actions", sch._in_queue.qsize(), "outcomes", sch._out_queue.qsize())
n=len(log)
quiet(c.calibrate,2)
print("session2 log:", log[n:]); print("methods:", c.method_samp[::2], "queues: actions", sch._in_queue.qsize(), "outcomes", sch._out_queue.qsize())
