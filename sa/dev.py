"""Developer helper (not registered in MANIFEST): run a check on an overlay taken from a git revision
or with textual replacements.  `python -m sa.dev C09 --rev d0e6d58 black_it/calibrator.py`"""
from __future__ import annotations

import argparse
import subprocess
import sys

from .check import run_property
from .errors import AnalysisError


def overlay_from_rev(rev: str, files: list[str]) -> dict[str, str]:
    out = {}
    if not files:
        files = subprocess.run(["git", "-C", "/repo", "ls-tree", "-r", "--name-only", rev, "black_it"], capture_output=True, text=True, check=True).stdout.split()
        files = [f for f in files if f.endswith(".py")]
    for f in files:
        out[f] = subprocess.run(["git", "-C", "/repo", "show", f"{rev}:{f}"], capture_output=True, text=True, check=True).stdout
    return out


def overlay_from_patch(patch: str) -> dict[str, str]:
    """Apply a unified diff to a scratch copy of the touched files (outside /repo and /verif) and return them."""
    import re
    import shutil
    import tempfile
    from pathlib import Path
    text = open(patch).read()
    files = sorted(set(re.findall(r"^\+\+\+ b/(\S+)", text, flags=re.M)))
    tmp = Path(tempfile.mkdtemp(prefix="sa_overlay_"))
    try:
        for f in files:
            (tmp / f).parent.mkdir(parents=True, exist_ok=True)
            if Path("/repo", f).exists():
                shutil.copy(Path("/repo", f), tmp / f)
        r = subprocess.run(["patch", "-p1", "-s", "-d", str(tmp), "-i", patch], capture_output=True, text=True)
        if r.returncode != 0:
            raise SystemExit(f"patch does not apply: {r.stdout} {r.stderr}")
        return {f: (tmp / f).read_text() for f in files if f.startswith("black_it/") and f.endswith(".py")}
    finally:
        shutil.rmtree(tmp, ignore_errors=True)


def main() -> int:
    ap = argparse.ArgumentParser()
    ap.add_argument("prop")
    ap.add_argument("files", nargs="*")
    ap.add_argument("--rev", default=None)
    ap.add_argument("--patch", default=None)
    ap.add_argument("--sub", nargs=3, action="append", metavar=("FILE", "OLD", "NEW"), default=[])
    ap.add_argument("--suball", nargs=3, action="append", metavar=("FILE", "OLD", "NEW"), default=[], help="replace every occurrence (word-bounded)")
    a = ap.parse_args()
    overlay = overlay_from_rev(a.rev, a.files) if a.rev else {}
    if a.patch:
        overlay.update(overlay_from_patch(a.patch))
    for f, old, new in a.sub:
        text = overlay.get(f) or open(f"/repo/{f}").read()
        if text.count(old) != 1:
            print(f"substitution anchor found {text.count(old)} times in {f}")
            return 3
        overlay[f] = text.replace(old, new)
    for f, old, new in a.suball:
        import re
        text = overlay.get(f) or open(f"/repo/{f}").read()
        overlay[f] = re.sub(r"(?<![A-Za-z0-9_])" + re.escape(old) + r"(?![A-Za-z0-9_])", new, text)
    try:
        rc, ctx = run_property(a.prop.upper(), "quick", 0, overlay=overlay, write_evidence=False)
    except AnalysisError as e:
        print("ANALYSIS-ERROR:", e)
        return 2
    return rc


if __name__ == "__main__":
    sys.exit(main())
