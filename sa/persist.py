"""Field plumbing of the JSON/CSV/HDF5/pickle checkpoint: create_checkpoint -> save -> files -> load -> restore.

Every stage is extracted from the source on every run; the stages are then composed and the rule
(C04-R1) demands that the composition is the identity on the persisted calibrator state.
"""
from __future__ import annotations

import ast
from dataclasses import dataclass, field

from .cfg import CFG
from .errors import AnalysisError
from .model import FuncInfo, Program, dotted, src, walk_scope
from .poly import single_assignment_env
from .util import calls_in, dep_leaves, is_self_attr, kwarg, returns_of

JP = "black_it.utils.json_pandas_checkpointing"
CAL = "black_it.calibrator:Calibrator"


@dataclass
class FileEffect:
    order: int
    file: str  # literal file name, e.g. calibration_params.json
    api: str  # json.dump | pickle.dump | to_csv | h5py.File | open | read_csv | json.load | pickle.load
    mode: str
    node: ast.AST
    payload: ast.expr | None = None
    cond: str = ""  # guarding condition text (e.g. series_filepath.exists())


@dataclass
class Storage:
    kind: str  # json | csv | pickle | h5
    key: str  # JSON key / CSV column (pattern) / file name / dataset
    expr: ast.expr | None = None
    wrapper: str = "id"
    node: ast.AST | None = None


def _str_const(e: ast.expr | None, env: dict[str, ast.expr], depth: int = 0) -> str | None:
    if e is None or depth > 5:
        return None
    if isinstance(e, ast.Constant) and isinstance(e.value, str):
        return e.value
    if isinstance(e, ast.Name) and e.id in env:
        return _str_const(env[e.id], env, depth + 1)
    if isinstance(e, ast.JoinedStr):
        out = ""
        for v in e.values:
            if isinstance(v, ast.Constant):
                out += str(v.value)
            else:
                out += "{*}"
        return out
    return None


def path_file(e: ast.expr | None, env: dict[str, ast.expr], depth: int = 0) -> str | None:
    """File name of a path expression `<dir> / "name"` (through single-assignment locals)."""
    if e is None or depth > 6:
        return None
    if isinstance(e, ast.BinOp) and isinstance(e.op, ast.Div):
        return _str_const(e.right, env) or path_file(e.right, env, depth + 1)
    if isinstance(e, ast.Name) and e.id in env:
        return path_file(env[e.id], env, depth + 1)
    if isinstance(e, ast.Call):
        fn = (dotted(e.func) or "").split(".")[-1]
        if fn in ("Path", "str", "fspath") and e.args:
            return path_file(e.args[0], env, depth + 1)
        if fn in ("join", "joinpath") and e.args:
            return _str_const(e.args[-1], env)
    return None


def _with_files(f: FuncInfo, env: dict[str, ast.expr]) -> dict[str, tuple[str, str, ast.With]]:
    """`with <path>.open(mode) as f` / `with h5py.File(path, mode=..) as f` -> {f: (file, mode, stmt)}."""
    out: dict[str, tuple[str, str, ast.With]] = {}
    for s in walk_scope(f.node):
        if not isinstance(s, ast.With):
            continue
        for item in s.items:
            c = item.context_expr
            var = item.optional_vars.id if isinstance(item.optional_vars, ast.Name) else None
            if not isinstance(c, ast.Call) or var is None:
                continue
            if isinstance(c.func, ast.Attribute) and c.func.attr == "open":
                file = path_file(c.func.value, env)
                mode = kwarg(c, "mode", 0)
                m = mode.value if isinstance(mode, ast.Constant) else "r" if mode is None else "?"
                if file:
                    out[var] = (file, m, s)
            elif (dotted(c.func) or "").endswith("h5py.File") or dotted(c.func) == "open":
                file = path_file(c.args[0] if c.args else None, env)
                mode = kwarg(c, "mode", 1)
                m = mode.value if isinstance(mode, ast.Constant) else "r" if mode is None else "?"
                if file:
                    out[var] = (file, m, s)
    return out


def _enclosing_file(node: ast.AST, var: str, env: dict[str, ast.expr]) -> tuple[str, str, ast.With] | None:
    """The file bound to `var` by the nearest enclosing `with ... as var`."""
    cur = getattr(node, "_parent", None)
    while cur is not None:
        if isinstance(cur, ast.With):
            for item in cur.items:
                if isinstance(item.optional_vars, ast.Name) and item.optional_vars.id == var and isinstance(item.context_expr, ast.Call):
                    c = item.context_expr
                    # `with contextlib.closing(<opener>) as f` / `closing(name bound once to an opener)`: the file is the opener's
                    if (dotted(c.func) or "").split(".")[-1] == "closing" and len(c.args) == 1:
                        inner = c.args[0]
                        if isinstance(inner, ast.Name) and isinstance(env.get(inner.id), ast.Call):
                            inner = env[inner.id]
                        if isinstance(inner, ast.Call):
                            c = inner
                    if isinstance(c.func, ast.Attribute) and c.func.attr == "open":
                        file = path_file(c.func.value, env)
                        mode = kwarg(c, "mode", 0)
                    else:
                        file = path_file(c.args[0] if c.args else None, env)
                        mode = kwarg(c, "mode", 1)
                    m = mode.value if isinstance(mode, ast.Constant) else "r" if mode is None else "?"
                    if file:
                        return file, m, cur
        cur = getattr(cur, "_parent", None)
    return None


def _guards(node: ast.AST, stop: ast.AST) -> str:
    conds = []
    cur = getattr(node, "_parent", None)
    child = node
    while cur is not None and cur is not stop:
        if isinstance(cur, ast.If):
            branch = "" if any(child is x for x in cur.body) else "not "
            conds.append(f"{branch}{src(cur.test)}")
        child = cur
        cur = getattr(cur, "_parent", None)
    return " and ".join(reversed(conds))


class Plumbing:
    def __init__(self, prog: Program) -> None:
        self.prog = prog
        self.cc = prog.func(f"{CAL}.create_checkpoint")
        self.save = prog.func(f"{JP}:save_calibrator_state")
        self.load = prog.func(f"{JP}:load_calibrator_state")
        self.restore = prog.func(f"{CAL}.restore_from_checkpoint")
        self.init = prog.func(f"{CAL}.__init__")
        self.problems: list[tuple[str, str, str, FuncInfo, ast.AST]] = []  # rule, key, msg, func, node

    # ------------------------------------------------------------------ stage a
    def checkpoint_args(self) -> dict[str, ast.expr]:
        env = single_assignment_env(self.cc.node)
        calls = [c for c in calls_in(self.cc.node) if any(isinstance(t, FuncInfo) and t.qualname == self.save.qualname for t in self.prog.resolve_call(self.cc, c))]
        if len(calls) != 1:
            raise AnalysisError(f"anchor vanished: single save_calibrator_state call in create_checkpoint ({len(calls)})")
        c = calls[0]
        self.cc_call = c
        params = self.save.params
        out: dict[str, ast.expr] = {}
        for i, a in enumerate(c.args):
            if isinstance(a, ast.Starred):
                raise AnalysisError("starred argument in the save call; cannot map positions")
            if i >= len(params):
                raise AnalysisError("more arguments than parameters in the save call")
            out[params[i]] = a
        for k in c.keywords:
            if k.arg is None:
                raise AnalysisError("**kwargs in the save call; cannot map names")
            out[k.arg] = k.value
        for p, e in list(out.items()):
            if isinstance(e, ast.Name) and e.id in env:
                out[p] = env[e.id]
        return out

    # ------------------------------------------------------------------ stage b
    def save_effects(self) -> list[FileEffect]:
        """Ordered file effects of save_calibrator_state, helpers of the same module inlined at their call site."""
        effects: list[FileEffect] = []
        self._effects_of(self.save, single_assignment_env(self.save.node), effects, "", 0)
        # completeness: a file handle handed to a callable the extractor does not know is a write it cannot see - the verdicts "never written" / "read but
        # not written" would then rest on an incomplete picture
        known = {id(e.node) for e in effects}
        handles = {it.optional_vars.id for w in ast.walk(self.save.node) if isinstance(w, ast.With) for it in w.items if isinstance(it.optional_vars, ast.Name)}
        for c in [x for x in ast.walk(self.save.node) if isinstance(x, ast.Call)]:
            if id(c) in known:
                continue
            passed = [a for a in [*c.args, *[k.value for k in c.keywords]] if isinstance(a, ast.Name) and a.id in handles]
            if not passed:
                continue
            q = self.prog.qualify(self.save.module, dotted(c.func) or "") or ""
            if q in ("json.dump", "pickle.dump", "print") or any(isinstance(t, FuncInfo) for t in self.prog.resolve_call(self.save, c)):
                continue
            raise AnalysisError(f"{self.save.loc(c)}: the open file `{passed[0].id}` is handed to `{src(c.func)[:40]}`, which the extractor cannot read; the file effects of save cannot be read")
        for i, e in enumerate(effects):
            e.order = i
            if e.file in (None, "?", ""):
                raise AnalysisError(f"{self.save.loc(e.node)}: cannot resolve which checkpoint file `{src(e.node)[:60]}` opens ({e.api}); the file effects of save cannot be read")
        return effects

    def _effects_of(self, f: FuncInfo, env: dict[str, ast.expr], effects: list[FileEffect], outer_cond: str, depth: int) -> None:
        for n in _preorder(f.node):
            if not isinstance(n, ast.Call):
                continue
            q = self.prog.qualify(f.module, dotted(n.func) or "")
            cond = " and ".join(x for x in (outer_cond, _guards(n, f.node)) if x)
            if q in ("json.dump", "pickle.dump") and not (len(n.args) >= 2 and isinstance(n.args[1], ast.Name) and _enclosing_file(n, n.args[1].id, env)) and f is self.save:
                raise AnalysisError(f"{f.loc(n)}: cannot resolve which file `{src(n)[:60]}` writes to; the file effects of save cannot be read")
            if q in ("json.dump", "pickle.dump") and len(n.args) >= 2 and isinstance(n.args[1], ast.Name) and _enclosing_file(n, n.args[1].id, env):
                file, mode, stmt = _enclosing_file(n, n.args[1].id, env)  # type: ignore[misc]
                effects.append(FileEffect(0, file, q, mode, n, n.args[0], cond))
            elif isinstance(n.func, ast.Attribute) and n.func.attr == "to_csv":
                file = path_file(n.args[0] if n.args else kwarg(n, "path_or_buf"), env)
                effects.append(FileEffect(0, file or "?", "to_csv", "w", n, n.func.value, cond))
            elif q == "h5py.File":
                file = path_file(n.args[0] if n.args else None, env)
                mode = kwarg(n, "mode", 1)
                effects.append(FileEffect(0, file or "?", "h5py.File", mode.value if isinstance(mode, ast.Constant) else "r", n, None, cond))
            elif isinstance(n.func, ast.Attribute) and n.func.attr in ("write", "write_text", "write_bytes") and path_file(n.func.value, env):
                effects.append(FileEffect(0, path_file(n.func.value, env) or "?", "write", "w", n, n.args[0] if n.args else None, cond))
            elif q in ("os.replace", "os.rename", "shutil.move") or (isinstance(n.func, ast.Attribute) and n.func.attr in ("replace", "rename") and path_file(n.func.value, env)):
                dst = n.args[-1] if n.args else None
                effects.append(FileEffect(0, path_file(dst, env) or "?", "rename", "w", n, None, cond))
            elif depth < 3:
                targets = [t for t in self.prog.resolve_call(f, n) if isinstance(t, FuncInfo) and t.module is f.module and t is not f and t.name != "__init__"]
                for t in targets:
                    cenv = dict(env)
                    cenv.update(single_assignment_env(t.node))
                    for i, a in enumerate(n.args):
                        if i < len(t.bound_params):
                            cenv[t.bound_params[i]] = a if not (isinstance(a, ast.Name) and a.id in env) else env[a.id]
                    for k in n.keywords:
                        if k.arg:
                            cenv[k.arg] = k.value if not (isinstance(k.value, ast.Name) and k.value.id in env) else env[k.value.id]
                    sub: list[FileEffect] = []
                    self._effects_of(t, cenv, sub, cond, depth + 1)
                    # does every path through the helper perform (one of) its writes?
                    gh = CFG(t.node)
                    wn = {x for e in sub for x in gh.live if x.ast is not None and any(y is e.node or y is getattr(e, "node_in_save", None) for y in ast.walk(x.ast))}
                    always = bool(wn) and gh.path_avoiding(gh.entry, {gh.exit}, wn) is None
                    for e in sub:
                        e.always = always and getattr(e, "always", True)  # type: ignore[attr-defined]
                        e.node_in_save = getattr(n, "node_in_save", n) if False else n  # type: ignore[attr-defined]
                        # translate the payload back into the caller's terms (callee parameter -> actual argument)
                        if isinstance(e.payload, ast.Name) and e.payload.id in t.params and e.payload.id in cenv:
                            e.payload = cenv[e.payload.id]
                    effects.extend(sub)

    def save_storage(self) -> dict[str, list[Storage]]:
        """save parameter -> where its value is stored."""
        f = self.save
        params = set(f.params)
        env = single_assignment_env(f.node)
        out: dict[str, list[Storage]] = {}
        effects = self.save_effects()

        def record(param: str, st: Storage) -> None:
            out.setdefault(param, []).append(st)

        def classify_value(v: ast.expr) -> tuple[str | None, str]:
            """(param, wrapper) for a stored value expression."""
            if isinstance(v, ast.Name) and v.id in params:
                return v.id, "id"
            if isinstance(v, ast.Call) and isinstance(v.func, ast.Attribute) and v.func.attr == "tolist" and isinstance(v.func.value, ast.Name) and v.func.value.id in params and not v.args:
                return v.func.value.id, "tolist"
            if isinstance(v, ast.Subscript) and isinstance(v.value, ast.Name) and v.value.id in params:
                return v.value.id, f"[{src(v.slice)}]"
            names = {x.id for x in ast.walk(v) if isinstance(x, ast.Name) and x.id in params}
            if len(names) == 1:
                return names.pop(), f"expr:{src(v)}"
            return None, f"expr:{src(v)}"

        for eff in effects:
            if eff.api == "json.dump":
                d = eff.payload
                if isinstance(d, ast.Name):
                    d = env.get(d.id, d)
                if not isinstance(d, ast.Dict):
                    raise AnalysisError(f"{f.loc(eff.node)}: json.dump payload is not a dict literal; cannot extract keys")
                for k, v in zip(d.keys, d.values):
                    key = _str_const(k, env)
                    p, w = classify_value(v)
                    if key is None:
                        raise AnalysisError(f"{f.loc(eff.node)}: non-literal JSON key")
                    if p is not None:
                        record(p, Storage("json", key, v, w, v))
                    elif isinstance(v, ast.Constant) or (isinstance(v, ast.Name) and v.id not in f.params and v.id not in env and v.id.isupper()) \
                            or (isinstance(v, ast.Name) and v.id.startswith("__") and v.id.endswith("__")):
                        # a constant next to the state (format / library version): metadata, carries nothing of the calibrator
                        self.metadata = getattr(self, "metadata", [])
                        self.metadata.append(("json", key, src(v)))
                    else:
                        self.problems.append(("R1.wrappers", f"save:json:{key}", f"JSON key {key} stores `{src(v)}`, not one of the save parameters", f, v))
            elif eff.api == "pickle.dump":
                p, w = classify_value(eff.payload)  # type: ignore[arg-type]
                if p is not None:
                    record(p, Storage("pickle", eff.file, eff.payload, w, eff.node))
            elif eff.api == "to_csv":
                df = eff.payload
                dname = None

                def resolve_dict(e: ast.expr | None, depth: int = 0) -> ast.Dict | None:
                    nonlocal dname
                    if e is None or depth > 4:
                        return None
                    if isinstance(e, ast.Name):
                        if isinstance(env.get(e.id), ast.Dict):
                            dname = e.id
                        return resolve_dict(env.get(e.id), depth + 1)
                    if isinstance(e, ast.Dict):
                        return e
                    if isinstance(e, ast.Call) and e.args and (dotted(e.func) or "").split(".")[-1] in ("from_dict", "DataFrame"):
                        return resolve_dict(e.args[0], depth + 1)
                    if isinstance(e, ast.Call) and kwarg(e, "data") is not None and (dotted(e.func) or "").split(".")[-1] in ("from_dict", "DataFrame"):
                        return resolve_dict(kwarg(e, "data"), depth + 1)
                    return None
                def via_binding(target: ast.expr, it: ast.expr, value: ast.expr) -> tuple[str, str] | None:
                    """`for d, col in enumerate(P.T)` / `zip(range(P.shape[1]), P.T)`: col is P.T[_I_], i.e. column _I_ of the parameter array P."""
                    from .util import IDX, loop_binding
                    try:
                        benv, counts = loop_binding(target, it)
                    except AnalysisError:
                        return None
                    if isinstance(value, ast.Name) and value.id in benv:
                        ve = benv[value.id]
                        idx_names = [nm for nm, e_ in benv.items() if src(e_) == IDX]
                        if isinstance(ve, ast.Subscript) and src(ve.slice) == IDX and isinstance(ve.value, ast.Attribute) and ve.value.attr == "T" and isinstance(ve.value.value, ast.Name) \
                                and ve.value.value.id in params and idx_names and any(src(c_).replace(" ", "") in (f"{ve.value.value.id}.shape[1]", f"len({ve.value.value.id}.T)") for c_ in counts):
                            return ve.value.value.id, idx_names[0]
                        if isinstance(ve, ast.Subscript) and isinstance(ve.value, ast.Name) and ve.value.id in params and src(ve.slice).replace(" ", "") in (f"(:,{IDX})", f":,{IDX}") and idx_names \
                                and any(src(c_).replace(" ", "") in (f"{ve.value.id}.shape[1]", f"len({ve.value.id}.T)") for c_ in counts):
                            return ve.value.id, idx_names[0]
                    return None

                def comp_column(gen: ast.comprehension, key_e: ast.expr, val_e: ast.expr, node: ast.AST) -> bool:
                    key = _str_const(key_e, env)
                    p, w = classify_value(val_e)
                    if p is not None and key is not None:
                        record(p, Storage("csv", key, val_e, f"{w} for {src(gen.target)} in {src(gen.iter)}", node))
                        return True
                    vb = via_binding(gen.target, gen.iter, val_e)
                    if vb is not None and key is not None:
                        record(vb[0], Storage("csv", key, val_e, f"[(:, {vb[1]})] for {vb[1]} in range({vb[0]}.shape[1])", node))
                        return True
                    return False
                src_dict = resolve_dict(df)
                if not isinstance(src_dict, ast.Dict):
                    raise AnalysisError(f"{f.loc(eff.node)}: cannot find the dict literal behind the results DataFrame")
                for k, v in zip(src_dict.keys, src_dict.values):
                    if k is None:
                        # `**{key(d): value(d) for d in <iter>}`: one column per d, like the loop form
                        if isinstance(v, ast.DictComp) and len(v.generators) == 1 and not v.generators[0].ifs:
                            if comp_column(v.generators[0], v.key, v.value, v):
                                continue
                        raise AnalysisError(f"{f.loc(eff.node)}: cannot read the `**` part of the results dict")
                    key = _str_const(k, env)
                    p, w = classify_value(v)
                    if p is not None and key is not None:
                        record(p, Storage("csv", key, v, w, v))
                # subscript stores into the dict: calibration_results[f"params_samp_{d}"] = params_samp[:, d]
                for s in walk_scope(f.node):
                    if isinstance(s, ast.Assign) and isinstance(s.targets[0], ast.Subscript) and isinstance(s.targets[0].value, ast.Name) and s.targets[0].value.id == dname:
                        key = _str_const(s.targets[0].slice, env)
                        p, w = classify_value(s.value)
                        loop = getattr(s, "_parent", None)
                        it = src(loop.iter) if isinstance(loop, ast.For) else ""
                        if p is None and isinstance(loop, ast.For):
                            # `for d, col in zip(range(P.shape[1]), P.T): results[f"..{d}"] = col` - the header read canonically: col is P.T[_I_], i.e. P[:, _I_]
                            from .util import IDX, loop_binding
                            try:
                                benv, counts = loop_binding(loop.target, loop.iter)
                            except AnalysisError:
                                benv, counts = {}, []
                            if isinstance(s.value, ast.Name) and s.value.id in benv:
                                ve = benv[s.value.id]
                                idx_names = [nm for nm, e_ in benv.items() if src(e_) == IDX]
                                if isinstance(ve, ast.Subscript) and src(ve.slice) == IDX and isinstance(ve.value, ast.Attribute) and ve.value.attr == "T" and isinstance(ve.value.value, ast.Name) \
                                        and ve.value.value.id in params and idx_names and any(src(c_).replace(" ", "") in (f"{ve.value.value.id}.shape[1]", f"len({ve.value.value.id}.T)") for c_ in counts):
                                    pn, d_ = ve.value.value.id, idx_names[0]
                                    key = _str_const(s.targets[0].slice, env)
                                    if key is not None:
                                        record(pn, Storage("csv", key, s.value, f"[(:, {d_})] for {d_} in range({pn}.shape[1])", s))
                                        continue
                        if p is not None and key is not None:
                            record(p, Storage("csv", key, s.value, f"{w} for {src(loop.target) if isinstance(loop, ast.For) else '?'} in {it}", s))
                        else:
                            raise AnalysisError(f"{f.loc(s)}: cannot read what `{src(s)[:70]}` stores into the results table; the column map of save cannot be read")
                # `d.update({key(d): value(d) for d in <iter>})` / `d.update({...literal...})` / `d |= {...}`
                upd: list[ast.expr] = []
                for s in walk_scope(f.node):
                    if isinstance(s, ast.Expr) and isinstance(s.value, ast.Call) and isinstance(s.value.func, ast.Attribute) and s.value.func.attr == "update" \
                            and isinstance(s.value.func.value, ast.Name) and s.value.func.value.id == dname and len(s.value.args) == 1 and not s.value.keywords:
                        upd.append(s.value.args[0])
                    elif isinstance(s, ast.AugAssign) and isinstance(s.op, ast.BitOr) and isinstance(s.target, ast.Name) and s.target.id == dname:
                        upd.append(s.value)
                for u in upd:
                    if isinstance(u, ast.Name) and isinstance(env.get(u.id), (ast.Dict, ast.DictComp)):
                        u = env[u.id]
                    if isinstance(u, ast.DictComp) and len(u.generators) == 1 and not u.generators[0].ifs:
                        if comp_column(u.generators[0], u.key, u.value, u):
                            continue
                    elif isinstance(u, (ast.GeneratorExp, ast.ListComp)) and len(u.generators) == 1 and not u.generators[0].ifs \
                            and isinstance(u.elt, ast.Tuple) and len(u.elt.elts) == 2:
                        # `d.update((key(d), value(d)) for d in <iter>)`: the pair form of the same thing
                        if comp_column(u.generators[0], u.elt.elts[0], u.elt.elts[1], u):
                            continue
                    elif isinstance(u, ast.Dict) and all(k is not None for k in u.keys):
                        good = True
                        for k, v in zip(u.keys, u.values):
                            key = _str_const(k, env)
                            p, w = classify_value(v)
                            if p is not None and key is not None:
                                record(p, Storage("csv", key, v, w, v))
                            else:
                                good = False
                        if good:
                            continue
                    raise AnalysisError(f"{f.loc(eff.node)}: cannot read what `{dname}.update(...)` adds to the results dict")
            elif eff.api == "h5py.File":
                pass
        # HDF5 payloads: create_dataset(data=param) / data[...] = slice of param
        for n in ast.walk(f.node):
            if isinstance(n, ast.Call) and isinstance(n.func, ast.Attribute) and n.func.attr == "create_dataset":
                d = kwarg(n, "data", 2)
                name = _str_const(kwarg(n, "name", 0), env)
                if d is not None:
                    p, w = classify_value(d)
                    if p is not None:
                        dt = kwarg(n, "dtype")
                        record(p, Storage("h5", f"series_samp.h5:{name}", d, w + (f" dtype={src(dt)}" if dt is not None else ""), n))
        return out

    # ------------------------------------------------------------------ stage c
    def load_sources(self) -> list[Storage]:
        """For every element of load's returned tuple: which stored item it reads."""
        f = self.load
        env = single_assignment_env(f.node)
        withs = _with_files(f, env)
        rets = returns_of(f)
        if len(rets) != 1 or not isinstance(rets[0].value, ast.Tuple):
            raise AnalysisError("load_calibrator_state does not return a single tuple literal")
        # roots: local -> (kind, file)
        roots: dict[str, tuple[str, str]] = {}
        self.load_reads: list[FileEffect] = []
        order = 0
        for s in walk_scope(f.node):
            if isinstance(s, (ast.Assign, ast.AnnAssign)) and isinstance(s.value, ast.Call):
                tgt = s.targets[0] if isinstance(s, ast.Assign) else s.target
                if not isinstance(tgt, ast.Name):
                    continue
                c = s.value
                q = self.prog.qualify(f.module, dotted(c.func) or "")
                if q in ("json.load", "pickle.load") and c.args and isinstance(c.args[0], ast.Name) and _enclosing_file(c, c.args[0].id, env):
                    file, mode, _ = _enclosing_file(c, c.args[0].id, env)  # type: ignore[misc]
                    roots[tgt.id] = ("json" if q == "json.load" else "pickle", file)
                    self.load_reads.append(FileEffect(order, file, q, mode, c))
                    order += 1
                elif q in ("pandas.read_csv",):
                    file = path_file(c.args[0] if c.args else None, env)
                    roots[tgt.id] = ("csv", file or "?")
                    self.load_reads.append(FileEffect(order, file or "?", "read_csv", "r", c))
                    order += 1
            if isinstance(s, (ast.Assign, ast.AnnAssign)) and isinstance(s.value, ast.Subscript):
                tgt = s.targets[0] if isinstance(s, ast.Assign) else s.target
                base = s.value.value
                if isinstance(tgt, ast.Name) and isinstance(base, ast.Subscript) and isinstance(base.value, ast.Name) and _enclosing_file(s, base.value.id, env):
                    file, mode, _ = _enclosing_file(s, base.value.id, env)  # type: ignore[misc]
                    roots[tgt.id] = ("h5", f"{file}:{_str_const(base.slice, env)}|{src(s.value.slice)}")
                    self.load_reads.append(FileEffect(order, file, "h5py.File", mode, s.value))
                    order += 1
        self.load_roots = roots
        # every read API call in load must have been attributed to a file; an unread one would surface as a bogus "written but never read back"
        apis = [c for c in calls_in(f.node) if self.prog.qualify(f.module, dotted(c.func) or "") in ("json.load", "pickle.load", "pandas.read_csv", "h5py.File")]
        if len(apis) != len(self.load_reads) or any(e.file in (None, "?", "") for e in self.load_reads):
            raise AnalysisError(f"{f.loc(f.node)}: {len(apis)} read call(s) in load_calibrator_state but only {len([e for e in self.load_reads if e.file not in (None, '?', '')])} could be attributed to a checkpoint file")
        out: list[Storage] = []
        for el in rets[0].value.elts:
            out.append(self._classify_load(f, el, roots, env))
        self.load_return = rets[0]
        return out

    def _classify_load(self, f: FuncInfo, e: ast.expr, roots: dict[str, tuple[str, str]], env: dict[str, ast.expr], wrap: str = "id") -> Storage:
        if isinstance(e, ast.Name):
            if e.id in roots:
                kind, file = roots[e.id]
                if kind == "pickle":
                    return Storage("pickle", file, e, wrap, e)
                if kind == "h5":
                    file_ds, _, sl = file.partition("|")
                    return Storage("h5", file_ds, e, wrap if sl in (":", "slice(None, None, None)", "()", "...") else f"{wrap}[{sl}]", e)
            if e.id in env:
                return self._classify_load(f, env[e.id], roots, env, wrap)
            return Storage("?", src(e), e, wrap, e)
        if isinstance(e, ast.Subscript) and isinstance(e.value, ast.Name) and e.value.id in roots:
            kind, file = roots[e.value.id]
            key = _str_const(e.slice, env)
            if key is not None and kind in ("json", "csv"):
                return Storage(kind, key, e, wrap, e)
        if isinstance(e, ast.Call):
            fn = dotted(e.func) or ""
            q = self.prog.qualify(f.module, fn) if fn else ""
            if q in ("numpy.asarray", "numpy.array") and len(e.args) == 1 and not [k for k in e.keywords if not ((k.arg == "dtype" and src(k.value) in ("float", "np.float64", "numpy.float64"))
                                                                                                                 or (k.arg == "copy" and src(k.value) in ("True", "None")))]:
                return self._classify_load(f, e.args[0], roots, env, wrap)
            if isinstance(e.func, ast.Attribute) and e.func.attr in ("to_numpy",) and not e.args and all(k.arg == "dtype" and src(k.value) in ("np.float64", "float", "numpy.float64") for k in e.keywords):
                sel = e.func.value
                cols = sel.slice if isinstance(sel, ast.Subscript) and isinstance(sel.value, ast.Name) and sel.value.id in roots else None
                if isinstance(cols, ast.Name) and cols.id in env:
                    cols = env[cols.id]
                if isinstance(cols, ast.ListComp) and len(cols.generators) == 1 and not cols.generators[0].ifs:
                    # frame[[name(i) for i in I]].to_numpy(): the selected columns side by side = the transpose of the columns stacked as rows
                    one = ast.Subscript(value=sel.value, slice=cols.elt, ctx=ast.Load())
                    rows = ast.Call(func=ast.Attribute(value=ast.Name(id="np", ctx=ast.Load()), attr="vstack", ctx=ast.Load()),
                                    args=[ast.ListComp(elt=one, generators=cols.generators)], keywords=[])
                    ast.fix_missing_locations(ast.copy_location(rows, e))
                    st = self._classify_load(f, rows, roots, env, wrap)
                    if st.kind == "csv":
                        st.wrapper = f"T({st.wrapper})"
                        return st
                    return Storage("?", src(e), e, f"call:{src(e)[:60]}", e)
                if e.keywords:
                    return Storage("?", src(e), e, f"call:{src(e)[:60]}", e)
                return self._classify_load(f, e.func.value, roots, env, wrap)
            if q == "numpy.column_stack" and len(e.args) == 1 and not e.keywords:
                # columns of a table are 1-D: stacking them as columns is the transpose of stacking them as rows
                as_rows = ast.copy_location(ast.Call(func=ast.Attribute(value=ast.Name(id="np", ctx=ast.Load()), attr="vstack", ctx=ast.Load()), args=list(e.args), keywords=[]), e)
                ast.fix_missing_locations(as_rows)
                st = self._classify_load(f, as_rows, roots, env, wrap)
                if st.kind == "csv":
                    st.wrapper = f"T({st.wrapper})"
                    return st
                return Storage("?", src(e), e, f"call:{src(e)[:60]}", e)
            if q == "numpy.vstack" and len(e.args) == 1:
                inner = e.args[0]
                if isinstance(inner, ast.Name) and inner.id in env:
                    inner = env[inner.id]
                if isinstance(inner, (ast.ListComp, ast.GeneratorExp)) and len(inner.generators) == 1:
                    st = self._classify_load(f, inner.elt, roots, env, wrap)
                    it = inner.generators[0].iter
                    # the trip count may sit in a once-assigned local (`n_params = len(cp['parameters_precision'])`)
                    for _ in range(3):
                        names = [x.id for x in ast.walk(it) if isinstance(x, ast.Name) and x.id in env and x.id not in roots]
                        if not names:
                            break
                        from .util import _substitute
                        it = _substitute(it, names[0], env[names[0]])
                    st.wrapper = f"vstack[{st.wrapper} for {src(inner.generators[0].target)} in {src(it)}]"
                    return st
            if q == "numpy.transpose" and len(e.args) == 1 and not e.keywords:
                st = self._classify_load(f, e.args[0], roots, env, wrap)  # np.transpose(x) without axes is x.T
                st.wrapper = f"T({st.wrapper})"
                return st
            return Storage("?", src(e), e, f"call:{src(e)[:60]}", e)
        if isinstance(e, ast.Attribute) and e.attr == "T":
            st = self._classify_load(f, e.value, roots, env, wrap)
            st.wrapper = f"T({st.wrapper})"
            return st
        if isinstance(e, ast.Call) and self.prog.qualify(f.module, dotted(e.func) or "") == "numpy.transpose" and len(e.args) == 1 and not e.keywords:
            st = self._classify_load(f, e.args[0], roots, env, wrap)  # np.transpose(x) without axes is x.T
            st.wrapper = f"T({st.wrapper})"
            return st
        return Storage("?", src(e), e, f"expr:{src(e)[:60]}", e)

    # ------------------------------------------------------------------ stage d
    def restore_sinks(self) -> list[dict]:
        """Per position of the unpacked load tuple: local name and what it is used for."""
        f = self.restore
        unpack = None
        for s in walk_scope(f.node):
            if isinstance(s, ast.Assign) and isinstance(s.targets[0], ast.Tuple) and isinstance(s.value, ast.Call) and any(
                    isinstance(t, FuncInfo) and t.qualname == self.load.qualname for t in self.prog.resolve_call(f, s.value)):
                unpack = s
        if unpack is None:
            raise AnalysisError("anchor vanished: tuple unpacking of load_calibrator_state(...) in restore_from_checkpoint")
        self.restore_unpack = unpack
        names = []
        for el in unpack.targets[0].elts:
            if not isinstance(el, ast.Name):
                raise AnalysisError("restore unpacks into a non-name target")
            names.append(el.id)
        ctor = [c for c in calls_in(f.node) if isinstance(c.func, ast.Name) and c.func.id in ("cls", "Calibrator")]
        if len(ctor) != 1:
            raise AnalysisError(f"anchor vanished: single constructor call in restore_from_checkpoint ({len(ctor)})")
        self.restore_ctor = ctor[0]
        init_params = self.init.bound_params
        uses: dict[str, list[str]] = {n: [] for n in names}
        for i, a in enumerate(ctor[0].args):
            if isinstance(a, ast.Name) and a.id in uses and i < len(init_params):
                uses[a.id].append(f"ctor:{init_params[i]}")
            elif i < len(init_params):
                for x in ast.walk(a):
                    if isinstance(x, ast.Name) and x.id in uses:
                        uses[x.id].append(f"ctor:{init_params[i]}:via:{src(a)}")
        for k in ctor[0].keywords:
            if isinstance(k.value, ast.Name) and k.value.id in uses:
                uses[k.value.id].append(f"ctor:{k.arg}")
            else:
                for x in ast.walk(k.value):
                    if isinstance(x, ast.Name) and x.id in uses:
                        uses[x.id].append(f"ctor:{k.arg}:via:{src(k.value)}")
        self.restore_stores: list[ast.stmt] = []
        def unguarded(e: ast.expr) -> ast.expr:
            # `DEFAULT if v is None else v` / `v if v is not None else DEFAULT` (a setter shared with the constructor, inlined): on the restore path it is v
            if isinstance(e, ast.IfExp) and isinstance(e.test, ast.Compare) and len(e.test.ops) == 1 and isinstance(e.test.left, ast.Name) \
                    and isinstance(e.test.comparators[0], ast.Constant) and e.test.comparators[0].value is None:
                v = e.test.left.id
                if isinstance(e.test.ops[0], ast.Is) and isinstance(e.orelse, ast.Name) and e.orelse.id == v and not any(isinstance(x, ast.Name) and x.id in uses for x in ast.walk(e.body)):
                    return e.orelse
                if isinstance(e.test.ops[0], ast.IsNot) and isinstance(e.body, ast.Name) and e.body.id == v and not any(isinstance(x, ast.Name) and x.id in uses for x in ast.walk(e.orelse)):
                    return e.body
            return e
        for s in walk_scope(f.node):
            if isinstance(s, ast.AnnAssign) and s.value is not None and isinstance(s.target, ast.Attribute):
                s.targets = [s.target]  # type: ignore[attr-defined]  # read like the plain assignment it is (the statement object itself stays: the CFG knows it)
            if isinstance(s, (ast.Assign, ast.AnnAssign)) and len(getattr(s, "targets", [])) == 1 and isinstance(s.targets[0], ast.Attribute):
                d = dotted(s.targets[0])
                sval = unguarded(s.value)
                if d and isinstance(sval, ast.Name) and sval.id in uses:
                    uses[sval.id].append(f"store:{d.split('.', 1)[1]}")
                    self.restore_stores.append(s)
                elif d:
                    for x in ast.walk(s.value):
                        if isinstance(x, ast.Name) and x.id in uses:
                            uses[x.id].append(f"store:{d.split('.', 1)[1]}:via:{src(s.value)}")
                            self.restore_stores.append(s)
            if isinstance(s, (ast.Expr, ast.If, ast.Assert)):
                for cmp in ast.walk(s):
                    if isinstance(cmp, ast.Compare) and len(cmp.ops) == 1 and isinstance(cmp.ops[0], (ast.Eq, ast.NotEq)):
                        sides = [cmp.left, cmp.comparators[0]]
                        for a, b in (sides, sides[::-1]):
                            if isinstance(a, ast.Name) and a.id in uses:
                                uses[a.id].append(f"compare:{src(b)}")
        return [{"pos": i, "local": n, "uses": uses[n]} for i, n in enumerate(names)]

    # ------------------------------------------------------------------ stage e
    def ctor_paths(self) -> dict[str, set[str]]:
        """Constructor parameter -> attribute paths of the calibrator whose value it determines."""
        prog = self.prog
        f = self.init
        out: dict[str, set[str]] = {p: set() for p in f.bound_params}
        cls = prog.find_class("Calibrator")
        for s in walk_scope(f.node):
            tgt = None
            if isinstance(s, ast.Assign) and len(s.targets) == 1:
                tgt, val = s.targets[0], s.value
            elif isinstance(s, ast.AnnAssign) and s.value is not None:
                tgt, val = s.target, s.value
            if tgt is None or not is_self_attr(tgt, f.self_name):
                continue
            attr = tgt.attr  # type: ignore[union-attr]
            if isinstance(val, ast.Name):
                # `x = Cls(a, b)` ... `self.X = x`: the object built a few lines above
                env_ = single_assignment_env(f.node)
                if isinstance(env_.get(val.id), ast.Call):
                    val = env_[val.id]
            leaves = dep_leaves(prog, f, val)
            for p in out:
                if f"param:{p}" in leaves:
                    out[p].add(attr)
            # one level into a constructed repository object: self.X = Cls(a, b) -> X.<getter>
            if isinstance(val, ast.Call):
                c = prog.class_of_name(f.module, dotted(val.func) or "")
                new_helpers = set((getattr(prog, "alignment", None) or {}).get("new_helpers", []))
                if c is None and any(isinstance(t_, FuncInfo) and t_.qualname in new_helpers for t_ in prog.resolve_call(f, val)) and any(f"param:{p}" in leaves for p in out):
                    raise AnalysisError(f"{f.loc(val)}: constructor parameters reach `self.{attr}` through the helper `{src(val.func)[:40]}`, which could not be read in place; "
                                        "which attribute paths they determine cannot be read")
                if c is not None and "__init__" in c.methods:
                    ci = c.methods["__init__"]
                    if any(isinstance(a, ast.Starred) for a in val.args) or any(k.arg is None for k in val.keywords):
                        raise AnalysisError(f"{f.loc(val)}: starred arguments in the construction of {c.name}; cannot map constructor parameters")
                    bound_ = [(ci.bound_params[i], a) for i, a in enumerate(val.args) if i < len(ci.bound_params)] + [(k.arg, k.value) for k in val.keywords if k.arg in ci.bound_params]
                    for q, a in bound_:
                        if True:
                            sub_attrs = set()
                            for s2 in walk_scope(ci.node):
                                if isinstance(s2, (ast.Assign, ast.AnnAssign)):
                                    t2 = s2.targets[0] if isinstance(s2, ast.Assign) else s2.target
                                    v2 = s2.value
                                    if v2 is not None and is_self_attr(t2, ci.self_name) and f"param:{q}" in dep_leaves(prog, ci, v2):
                                        sub_attrs.add(t2.attr)  # type: ignore[union-attr]
                            getters = {g for g, gi in c.getters.items() for r in returns_of(gi) if r.value is not None and dotted(r.value) in {f"{gi.self_name}.{x}" for x in sub_attrs}}
                            for p in out:
                                if f"param:{p}" in dep_leaves(prog, f, a):
                                    for gname in getters | sub_attrs:
                                        out[p].add(f"{attr}.{gname}")
        return out


def _preorder(node: ast.AST):
    """Source-order traversal (statement order, then expression order)."""
    for child in ast.iter_child_nodes(node):
        yield child
        yield from _preorder(child)
