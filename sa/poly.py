"""Formula normal form: rational functions with rational coefficients over uninterpreted atoms.

Expressions are brought to (numerator, denominator) polynomials; equality is decided by cross
multiplication, i.e. modulo the field axioms: re-association, temporaries, `a/b*c` vs `a*c/b` are
equal; a changed constant, a dropped factor or a swapped operand are not.  Library calls and
non-integer powers are uninterpreted atoms over *normalised* arguments, with a short synonym table.
"""
from __future__ import annotations

import ast
from fractions import Fraction
from typing import Callable

from .errors import AnalysisError
from .model import dotted

Mono = tuple  # tuple of (atom, exponent) sorted
Poly = dict  # Mono -> Fraction


def p_const(c: Fraction | int) -> Poly:
    c = Fraction(c)
    return {(): c} if c != 0 else {}


def p_atom(a: str) -> Poly:
    return {((a, 1),): Fraction(1)}


def p_add(a: Poly, b: Poly, sign: int = 1) -> Poly:
    out = dict(a)
    for m, c in b.items():
        v = out.get(m, Fraction(0)) + sign * c
        if v == 0:
            out.pop(m, None)
        else:
            out[m] = v
    return out


def _m_mul(a: Mono, b: Mono) -> Mono:
    d: dict[str, int] = {}
    for k, e in a:
        d[k] = d.get(k, 0) + e
    for k, e in b:
        d[k] = d.get(k, 0) + e
    return tuple(sorted((k, e) for k, e in d.items() if e != 0))


def p_mul(a: Poly, b: Poly) -> Poly:
    out: Poly = {}
    for m1, c1 in a.items():
        for m2, c2 in b.items():
            m = _m_mul(m1, m2)
            v = out.get(m, Fraction(0)) + c1 * c2
            if v == 0:
                out.pop(m, None)
            else:
                out[m] = v
    return out


def p_str(p: Poly) -> str:
    if not p:
        return "0"
    terms = []
    for m in sorted(p, key=lambda m: (len(m), m)):
        c = p[m]
        mono = "*".join(f"{a}^{e}" if e != 1 else a for a, e in m)
        if not mono:
            terms.append(str(c))
        elif c == 1:
            terms.append(mono)
        else:
            terms.append(f"{c}*{mono}")
    return " + ".join(terms)


class Rat:
    """num/den with polynomial num and den."""

    def __init__(self, num: Poly, den: Poly | None = None) -> None:
        self.num = num
        self.den = den if den is not None else p_const(1)
        if not self.den:
            raise AnalysisError("division by the zero polynomial while normalising a formula")
        self._norm()

    def _norm(self) -> None:
        # monomial denominators: cancel against the numerator; scale so that den's leading coeff is 1
        lead = self.den[sorted(self.den, key=lambda m: (len(m), m))[-1]]
        if lead != 1:
            self.num = {m: c / lead for m, c in self.num.items()}
            self.den = {m: c / lead for m, c in self.den.items()}
        if len(self.den) == 1:
            (dm, dc), = self.den.items()
            if dm:
                # cancel common atom powers
                common = dict(dm)
                for m in self.num:
                    md = dict(m)
                    for a in list(common):
                        common[a] = min(common[a], md.get(a, 0))
                common = {a: e for a, e in common.items() if e > 0}
                if common and self.num:
                    inv = tuple(sorted((a, -e) for a, e in common.items()))
                    self.num = {_m_mul(m, inv): c for m, c in self.num.items()}
                    self.den = {_m_mul(dm, inv): dc}

    def __add__(self, o: "Rat") -> "Rat":
        if self.den == o.den:
            return Rat(p_add(self.num, o.num), self.den)
        return Rat(p_add(p_mul(self.num, o.den), p_mul(o.num, self.den)), p_mul(self.den, o.den))

    def __sub__(self, o: "Rat") -> "Rat":
        if self.den == o.den:
            return Rat(p_add(self.num, o.num, -1), self.den)
        return Rat(p_add(p_mul(self.num, o.den), p_mul(o.num, self.den), -1), p_mul(self.den, o.den))

    def __mul__(self, o: "Rat") -> "Rat":
        return Rat(p_mul(self.num, o.num), p_mul(self.den, o.den))

    def __truediv__(self, o: "Rat") -> "Rat":
        if not o.num:
            raise AnalysisError("division by zero while normalising a formula")
        return Rat(p_mul(self.num, o.den), p_mul(self.den, o.num))

    def __neg__(self) -> "Rat":
        return Rat({m: -c for m, c in self.num.items()}, self.den)

    def equals(self, o: "Rat") -> bool:
        return p_add(p_mul(self.num, o.den), p_mul(o.num, self.den), -1) == {}

    def const(self) -> Fraction | None:
        if not self.num:
            return Fraction(0)
        if set(self.num) == {()} and set(self.den) == {()}:
            return self.num[()] / self.den[()]
        return None

    def atoms(self) -> set[str]:
        out = set()
        for p in (self.num, self.den):
            for m in p:
                for a, _ in m:
                    out.add(a)
        return out

    def __str__(self) -> str:
        if self.den == p_const(1):
            return p_str(self.num)
        return f"({p_str(self.num)})/({p_str(self.den)})"


ABS = {"abs", "numpy.abs", "numpy.fabs", "numpy.absolute"}
#: method spelling -> function spelling (receiver becomes first argument)
METHOD_SYNONYM = {"mean", "sum", "dot", "min", "max", "std", "var", "prod", "round"}
FUNC_SYNONYM = {
    "numpy.mean": "mean", "numpy.average": "average", "numpy.sum": "sum", "sum": "sum", "numpy.dot": "dot",
    "numpy.min": "min", "numpy.max": "max", "min": "min", "max": "max", "numpy.amin": "min", "numpy.amax": "max",
    "numpy.std": "std", "numpy.var": "var", "numpy.prod": "prod", "numpy.round": "round", "round": "round",
    "numpy.around": "round", "numpy.round_": "round",
    "numpy.log": "log", "math.log": "log", "numpy.exp": "exp", "math.exp": "exp", "len": "len",
    "numpy.multiply": "*", "numpy.divide": "/", "numpy.true_divide": "/", "numpy.subtract": "-", "numpy.add": "+",
    "numpy.mod": "mod", "numpy.remainder": "mod", "numpy.floor_divide": "floordiv", "numpy.matmul": "matmul",
    "numpy.negative": "neg", "float": "id", "int": "int", "numpy.float64": "id", "numpy.asarray": "id", "numpy.copy": "id", "copy.copy": "id", "copy.deepcopy": "id",
    "typing.cast": "cast", "cast": "cast", "numpy.square": "sq",
    "numpy.sqrt": "sqrt", "math.sqrt": "sqrt", "numpy.power": "pow", "pow": "pow", "math.pow": "pow",
}


#: keyword arguments that only spell a default out (by callee short name): dropping them does not change the call
SPELLED_DEFAULTS = {
    "choice": {"replace": ("True",), "p": ("None",), "axis": ("0",), "shuffle": ("True",)},
    "argmax": {"axis": ("None",), "out": ("None",), "keepdims": ("False",)}, "argmin": {"axis": ("None",), "out": ("None",), "keepdims": ("False",)},
    "integers": {"size": ("None",), "endpoint": ("False",), "dtype": ("np.int64", "numpy.int64", "int")},
    "random": {"size": ("None",), "dtype": ("np.float64", "numpy.float64", "float"), "out": ("None",)},
    "sum": {"axis": ("None",), "keepdims": ("False",)}, "mean": {"axis": ("None",), "keepdims": ("False",)},
    "min": {"axis": ("None",), "keepdims": ("False",)}, "max": {"axis": ("None",), "keepdims": ("False",)},
    "round": {"decimals": ("0",)}, "argsort": {"axis": ("-1",), "kind": ("None",)}, "sorted": {"reverse": ("False",), "key": ("None",)},
    "searchsorted": {"sorter": ("None",)}, "clip": {"out": ("None",)}, "diff": {"n": ("1",), "axis": ("-1",)},
    "concatenate": {"axis": ("0",)}, "vstack": {}, "hstack": {}, "unique": {"return_index": ("False",), "return_inverse": ("False",)},
    "fabs": {}, "abs": {}, "log": {}, "exp": {},
}

#: positional parameter order of numpy / numpy.random.Generator calls that the repository spells both positionally and by keyword
KNOWN_SIGNATURES = {
    "choice": ["a", "size", "replace", "p"], "integers": ["low", "high", "size"], "uniform": ["low", "high", "size"], "random": ["size"], "normal": ["loc", "scale", "size"],
    "round": ["a", "decimals"], "clip": ["a", "a_min", "a_max"], "repeat": ["a", "repeats", "axis"], "searchsorted": ["a", "v", "side"],
    "mean": ["a", "axis"], "sum": ["a", "axis"], "min": ["a", "axis"], "max": ["a", "axis"], "std": ["a", "axis"], "var": ["a", "axis"], "argsort": ["a", "axis"],
    "pow": ["x1", "x2"], "transpose": ["a", "axes"], "concatenate": ["arrays", "axis"], "zeros": ["shape", "dtype"], "ones": ["shape", "dtype"], "full": ["shape", "fill_value", "dtype"],
    "rfft": ["a", "n", "axis"], "diff": ["a", "n", "axis"], "argmax": ["a", "axis"], "argmin": ["a", "axis"], "arange": ["start", "stop", "step"],
}


class Normaliser:
    """Normalises scalar expressions of one function; locals are inlined through `env`."""

    #: optional hook: resolved parameter names (positional order, without self) of the repository function a call reaches; set by util.normaliser
    signature = None
    #: qualified name of a record class (NamedTuple / dataclass that only bundles values) -> its fields in order; set by util.normaliser
    records: dict[str, list[str]] = {}

    def __init__(self, qualify: Callable[[str], str], env: dict[str, ast.expr] | None = None,
                 self_name: str | None = None, inliner: "Callable[[Normaliser, ast.Call], Rat | None] | None" = None) -> None:
        self.qualify = qualify
        self.env = env or {}
        self.self_name = self_name
        self._active: set[str] = set()
        # `inliner` replaces a call to a straight-line repository helper by the helper's returned expression;
        # `opaque` collects the repository callees that appear in a form but could not be inlined
        self.inliner = inliner
        self.opaque: set[str] = set()

    # -- public -------------------------------------------------------------
    def rat(self, e: ast.expr) -> Rat:
        if isinstance(e, ast.Constant):
            v = e.value
            if isinstance(v, bool) or not isinstance(v, (int, float)):
                return Rat(p_atom(repr(v)))
            return Rat(p_const(Fraction(str(v))))
        if isinstance(e, ast.Name):
            if isinstance(self.env.get(e.id), Rat):
                return self.env[e.id]  # parameter of an inlined helper, bound to the caller's argument
            if e.id in self.env and e.id not in self._active:
                self._active.add(e.id)
                try:
                    return self.rat(self.env[e.id])
                finally:
                    self._active.discard(e.id)
            return Rat(p_atom(e.id))
        if isinstance(e, ast.UnaryOp):
            if isinstance(e.op, ast.USub):
                return -self.rat(e.operand)
            if isinstance(e.op, ast.UAdd):
                return self.rat(e.operand)
            return Rat(p_atom(f"{type(e.op).__name__}({self.rat(e.operand)})"))
        if isinstance(e, ast.BinOp):
            return self._binop(e.op, e.left, e.right)
        if isinstance(e, ast.Call):
            return self._call(e)
        if isinstance(e, ast.Attribute):
            d = dotted(e)
            if d and isinstance(self.env.get(d.split(".")[0]), Rat):
                d = None
            if d:
                if d in self.env and d not in self._active:
                    self._active.add(d)
                    try:
                        return self.rat(self.env[d])
                    finally:
                        self._active.discard(d)
                if e.attr == "T":
                    return Rat(p_atom(f"T({self.rat(e.value)})"))
                return Rat(p_atom(self.qualify(d)))
            if e.attr == "T":
                return Rat(p_atom(f"T({self.rat(e.value)})"))
            base = self.rat(e.value)
            if e.attr in getattr(base, "fields", {}):
                return base.fields[e.attr]  # type: ignore[attr-defined]
            return Rat(p_atom(f"{base}.{e.attr}"))
        if isinstance(e, ast.Subscript):
            # divmod(a, b)[1] is a % b (also behind `_, r = divmod(a, b)`), divmod(a, b)[0] is a // b
            v_ = e.value
            if isinstance(v_, ast.Name) and v_.id in self.env and v_.id not in self._active and isinstance(self.env[v_.id], ast.Call):
                v_ = self.env[v_.id]
            if isinstance(v_, ast.Call) and isinstance(v_.func, ast.Name) and v_.func.id == "divmod" and len(v_.args) == 2 and not v_.keywords \
                    and isinstance(e.slice, ast.Constant) and e.slice.value in (0, 1):
                return self.rat(ast.BinOp(left=v_.args[0], op=ast.Mod() if e.slice.value == 1 else ast.FloorDiv(), right=v_.args[1]))
            # x[j][:, i] is x[j, :, i] (j a scalar index)
            if isinstance(v_, ast.Subscript) and not isinstance(v_.slice, (ast.Slice, ast.Tuple)) and isinstance(v_.slice, (ast.Name, ast.Constant)) \
                    and isinstance(e.slice, ast.Tuple) and not isinstance(e.value, ast.Name):
                merged = ast.Subscript(value=v_.value, slice=ast.Tuple(elts=[v_.slice, *e.slice.elts], ctx=ast.Load()), ctx=ast.Load())
                return self.rat(merged)
            base = self.rat(e.value)
            elts = getattr(base, "elts", None)
            if elts is not None and isinstance(e.slice, ast.Constant) and isinstance(e.slice.value, int) and not isinstance(e.slice.value, bool) and -len(elts) <= e.slice.value < len(elts):
                return elts[e.slice.value]  # `(a, b)[0]` - also behind a local or an inlined helper that returns a tuple display
            return Rat(p_atom(f"{base}[{self._slice(e.slice)}]"))
        if isinstance(e, ast.IfExp):
            return Rat(p_atom(f"ite({self.canon(e.test)},{self.rat(e.body)},{self.rat(e.orelse)})"))
        if isinstance(e, (ast.Tuple, ast.List)):
            parts = [self.rat(x) for x in e.elts]
            r = Rat(p_atom("(" + ",".join(str(x) for x in parts) + ")"))
            if not any(isinstance(x, ast.Starred) for x in e.elts):
                r.elts = parts  # type: ignore[attr-defined]
            return r
        if isinstance(e, ast.Compare):
            return Rat(p_atom(self.canon(e)))
        return Rat(p_atom(ast.unparse(e)))

    def canon(self, e: ast.expr) -> str:
        if isinstance(e, ast.Compare) and len(e.ops) == 1:
            return f"{self.rat(e.left)} {type(e.ops[0]).__name__} {self.rat(e.comparators[0])}"
        if isinstance(e, ast.BoolOp):
            return f"{type(e.op).__name__}(" + ",".join(self.canon(v) for v in e.values) + ")"
        if isinstance(e, ast.UnaryOp) and isinstance(e.op, ast.Not):
            return f"Not({self.canon(e.operand)})"
        return str(self.rat(e))

    # -- helpers -------------------------------------------------------------
    def _slice(self, s: ast.expr) -> str:
        if isinstance(s, ast.Slice):
            parts = [str(self.rat(x)) if x is not None else "" for x in (s.lower, s.upper, s.step)]
            while len(parts) > 2 and parts[-1] == "":
                parts.pop()
            return ":".join(parts)
        if isinstance(s, ast.Tuple):
            return ",".join(self._slice(x) for x in s.elts)
        if isinstance(s, ast.Constant) and s.value is None:
            return "None"
        return str(self.rat(s))

    def _binop(self, op: ast.operator, left: ast.expr, right: ast.expr) -> Rat:
        if isinstance(op, ast.Add):
            return self.rat(left) + self.rat(right)
        if isinstance(op, ast.Sub):
            return self.rat(left) - self.rat(right)
        if isinstance(op, ast.Mult):
            return self.rat(left) * self.rat(right)
        if isinstance(op, ast.Div):
            return self.rat(left) / self.rat(right)
        if isinstance(op, ast.Pow):
            return self._pow(self.rat(left), self.rat(right))
        a, b = self.rat(left), self.rat(right)
        name = {ast.Mod: "mod", ast.FloorDiv: "floordiv", ast.MatMult: "matmul"}.get(type(op), type(op).__name__)
        return Rat(p_atom(f"{name}({a},{b})"))

    def _pow(self, base: Rat, exp: Rat) -> Rat:
        c = exp.const()
        if c is not None and c.denominator == 1 and abs(c.numerator) <= 8:
            n = int(c)
            out = Rat(p_const(1))
            for _ in range(abs(n)):
                out = out * base
            return out if n >= 0 else Rat(p_const(1)) / out
        if c is not None and c < 0:
            return Rat(p_const(1)) / self._pow(base, -exp)
        bc = base.const()
        if bc is not None and c is not None and bc >= 0:
            # exact rational power when it exists, e.g. 4 ** 0.5
            from math import isclose
            val = float(bc) ** float(c)
            fr = Fraction(val).limit_denominator(10**6)
            if isclose(float(fr) ** (1 / float(c)) if c != 0 else 1.0, float(bc), rel_tol=1e-12):
                return Rat(p_const(fr))
        return Rat(p_atom(f"pow({base},{exp})"))

    def _call(self, e: ast.Call) -> Rat:
        # `x.transpose(1, 2, 0)` / `x.transpose((1, 2, 0))` is `np.transpose(x, (1, 2, 0))`
        if isinstance(e.func, ast.Attribute) and e.func.attr == "transpose" and e.args and not e.keywords and not (dotted(e.func) or "").startswith(("np.", "numpy.")):
            axes = e.args[0] if len(e.args) == 1 and isinstance(e.args[0], (ast.Tuple, ast.List)) else ast.Tuple(elts=list(e.args), ctx=ast.Load())
            e = ast.copy_location(ast.Call(func=ast.Attribute(value=ast.Name(id="numpy", ctx=ast.Load()), attr="transpose", ctx=ast.Load()), args=[e.func.value, axes], keywords=[]), e)
            ast.fix_missing_locations(e)
        if self.inliner is not None:
            inl = self.inliner(self, e)
            if inl is not None:
                return inl
        fn = e.func
        args = list(e.args)
        kws = {k.arg: k.value for k in e.keywords if k.arg}
        name = None
        d = dotted(fn)
        if isinstance(fn, ast.Attribute) and fn.attr == "copy" and not args and not kws and not (d or "").startswith(("np.", "numpy.", "copy.")):
            return self.rat(fn.value)       # a copy has the value of what it copies
        if d is not None and isinstance(fn, ast.Attribute) and d.split(".")[0] in self.env and d.split(".")[0] not in self._active and d.count(".") == 1 \
                and fn.attr not in METHOD_SYNONYM and fn.attr not in ("reshape", "tolist", "copy", "astype"):
            # method call on an inlinable local: `rv.rvs(...)` with rv = ctor(...)  ->  `ctor(...).rvs(...)`
            name = f"{self.rat(fn.value)}.{fn.attr}"
            d = None
        if name is not None:
            pass
        elif isinstance(fn, ast.Attribute) and fn.attr in ("reshape", "tolist", "astype") and not (d or "").startswith(("np.", "numpy.")):
            name = fn.attr
            args = [fn.value, *args]
        elif d is not None:
            q = self.qualify(d)
            if q in ABS:
                name = "abs"
            elif q in FUNC_SYNONYM:
                name = FUNC_SYNONYM[q]
            elif isinstance(fn, ast.Attribute) and fn.attr in METHOD_SYNONYM and not q.startswith(("numpy.", "math.", "scipy.")):
                name = fn.attr
                args = [fn.value, *args]
            else:
                name = q
        elif isinstance(fn, ast.Attribute):
            if fn.attr in METHOD_SYNONYM or fn.attr in ("reshape", "tolist", "copy", "astype"):
                name = fn.attr
                args = [fn.value, *args]
            else:
                name = f"{self.rat(fn.value)}.{fn.attr}"
        else:
            name = ast.unparse(fn)
        # defaults spelled out: choice(x, size=1, replace=True) is choice(x, size=1); argmax(q, axis=None) is argmax(q); integers(low=0, high=n) is integers(n)
        short_ = name.rsplit(".", 1)[-1] if isinstance(name, str) else ""
        dflt = SPELLED_DEFAULTS.get(short_)
        if dflt and kws:
            kws = {k: v for k, v in kws.items() if not (k in dflt and ast.unparse(v) in dflt[k])}
        if short_ == "integers" and not args and set(kws) <= {"low", "high"} and "low" in kws:
            lo_, hi_ = kws.get("low"), kws.get("high")
            if hi_ is None or ast.unparse(hi_) == "None":
                args, kws = [lo_], {}
            elif ast.unparse(lo_) == "0":
                args, kws = [hi_], {}
        if short_ == "integers" and len(args) == 2 and "low" not in kws and "high" not in kws and ast.unparse(args[0]) == "0":
            args = [args[1]]        # integers(0, n) is integers(n)
        # the default dtype spelled out: np.ones(n, dtype=np.float64) is np.ones(n)
        if isinstance(name, str) and name in ("numpy.ones", "numpy.zeros", "numpy.empty", "numpy.full", "numpy.linspace") and "dtype" in kws \
                and ast.unparse(kws["dtype"]) in ("np.float64", "numpy.float64", "float", "'float64'", "np.double", "'f8'"):
            kws = {k: v for k, v in kws.items() if k != "dtype"}
        if isinstance(name, str) and name == "numpy.arange" and "dtype" in kws and ast.unparse(kws["dtype"]) in ("np.int64", "numpy.int64", "int", "np.int_", "'int64'", "np.intp"):
            kws = {k: v for k, v in kws.items() if k != "dtype"}      # the default for integer arguments
        # keyword spelling of positional parameters: `choice(a=x, size=1)` reads as `choice(x, 1)`, `np.round(v, decimals=p)` as `np.round(v, p)`; for repository
        # callees the parameter order comes from the resolved definition (signature hook), for well-known numpy / Generator calls from a small table
        sig = None
        if self.signature is not None:
            sig = self.signature(e)
        if sig is None:
            short = name.rsplit(".", 1)[-1] if isinstance(name, str) else ""
            sig = KNOWN_SIGNATURES.get(short)
            if sig is not None and name in FUNC_SYNONYM.values() and args and args[0] is getattr(fn, "value", None):
                pass  # method spelling: the receiver already sits in position 0
        if sig is not None and kws and not any(isinstance(a, ast.Starred) for a in args):
            recv_shift = 1 if (isinstance(fn, ast.Attribute) and args and args[0] is fn.value) else 0
            names = list(sig)[max(0, 1 - recv_shift) if False else 0:]
            if recv_shift and names and names[0] not in ("a", "x", "arr", "self"):
                names = ["<recv>", *names]
            moved = True
            while moved:
                moved = False
                nxt = len(args)
                if nxt < len(names) and names[nxt] in kws:
                    args = [*args, kws.pop(names[nxt])]
                    moved = True
        if name in self.records and not any(isinstance(a, ast.Starred) for a in args) and len(args) <= len(self.records[name]):
            # constructor of a record: remember which value sits in which field, so that `Rec(..).f` / `Rec(..)[i]` read as that value
            fields = self.records[name]
            vals = {f_: self.rat(a) for f_, a in zip(fields, args)}
            vals.update({k: self.rat(v) for k, v in kws.items() if k in fields})
            r = Rat(p_atom(f"{name}(" + ",".join(f"{k}={vals[k]}" for k in fields if k in vals) + ")"))
            r.fields = vals  # type: ignore[attr-defined]
            if len(vals) == len(fields):
                r.elts = [vals[k] for k in fields]  # type: ignore[attr-defined]
            return r
        F64 = ("np.float64", "numpy.float64", "float", "'float64'", "np.double", "'f8'")
        if name in ("id",) and len(args) == 1 and all(k == "dtype" and ast.unparse(v) in F64 for k, v in kws.items()):
            return self.rat(args[0])
        if name == "numpy.array" and "dtype" in kws and ast.unparse(kws["dtype"]) in F64:
            # the package's numeric data is float64 throughout (declared NDArray[np.float64]): spelling the dtype out does not change a value
            kws = {k: v for k, v in kws.items() if k != "dtype"}
        if name == "numpy.array" and len(args) == 1 and not isinstance(args[0], (ast.List, ast.Tuple, ast.ListComp, ast.GeneratorExp, ast.Constant)) \
                and kws and all(k == "copy" and ast.unparse(v) == "True" for k, v in kws.items()):
            return self.rat(args[0])        # a copy of an array has its value
        if name == "cast" and len(args) == 2:
            return self.rat(args[1])
        if name == "numpy.outer" and len(args) == 2 and not kws:
            # np.outer(a, b) flattens both operands: it is the product of the column a by the row b
            col = ast.Call(func=ast.Attribute(value=args[0], attr="reshape", ctx=ast.Load()), args=[ast.parse("(-1, 1)", mode="eval").body], keywords=[])
            row = ast.Call(func=ast.Attribute(value=args[1], attr="reshape", ctx=ast.Load()), args=[ast.parse("(1, -1)", mode="eval").body], keywords=[])
            return self.rat(ast.fix_missing_locations(ast.copy_location(ast.Call(func=ast.Attribute(value=col, attr="dot", ctx=ast.Load()), args=[row], keywords=[]), e)))
        if name == "*" and len(args) == 2:
            return self.rat(args[0]) * self.rat(args[1])
        if name == "/" and len(args) == 2:
            return self.rat(args[0]) / self.rat(args[1])
        if name == "-" and len(args) == 2:
            return self.rat(args[0]) - self.rat(args[1])
        if name == "+" and len(args) == 2:
            return self.rat(args[0]) + self.rat(args[1])
        if name == "neg" and len(args) == 1:
            return -self.rat(args[0])
        if name == "sq" and len(args) == 1:
            r = self.rat(args[0])
            return r * r
        if name == "sqrt" and len(args) == 1:
            return self._pow(self.rat(args[0]), Rat(p_const(Fraction(1, 2))))
        if name == "pow" and len(args) == 2:
            return self._pow(self.rat(args[0]), self.rat(args[1]))
        # positional axis argument -> keyword form for reductions
        if name in ("mean", "sum", "min", "max", "std", "var", "prod") and len(args) == 2 and "axis" not in kws:
            kws["axis"] = args[1]
            args = args[:1]
        if name == "round" and len(args) == 2 and "decimals" not in kws:
            kws["decimals"] = args[1]
            args = args[:1]
        parts = [str(self.rat(a)) for a in args]
        parts += [f"{k}={self.rat(v)}" for k, v in sorted(kws.items())]
        return Rat(p_atom(f"{name}({','.join(parts)})"))


def single_assignment_env(func: ast.FunctionDef) -> dict[str, ast.expr]:
    """Locals assigned exactly once (simple `x = e` / `x: T = e`) -> their defining expression."""
    counts: dict[str, int] = {}
    defs: dict[str, ast.expr] = {}
    for n in ast.walk(func):
        targets: list[tuple[ast.expr, ast.expr | None]] = []
        if isinstance(n, ast.Assign):
            for t in n.targets:
                if isinstance(t, (ast.Tuple, ast.List)):
                    flat = all(isinstance(el, ast.Name) for el in t.elts)
                    if flat and len(n.targets) == 1 and isinstance(n.value, (ast.Call, ast.Name, ast.Attribute, ast.Subscript)):
                        # `a, b = f(x)`: a is f(x)[0], b is f(x)[1] (one binding each)
                        for i, el in enumerate(t.elts):
                            targets.append((el, ast.copy_location(ast.Subscript(value=n.value, slice=ast.Constant(value=i), ctx=ast.Load()), n.value)))
                        continue
                    for el in ast.walk(t):
                        if isinstance(el, ast.Name):
                            counts[el.id] = counts.get(el.id, 0) + 2
                else:
                    targets.append((t, n.value))
        elif isinstance(n, ast.AnnAssign):
            targets.append((n.target, n.value))
        elif isinstance(n, ast.AugAssign):
            if isinstance(n.target, ast.Name):
                counts[n.target.id] = counts.get(n.target.id, 0) + 2
        elif isinstance(n, (ast.For, ast.comprehension)):
            for el in ast.walk(n.target):
                if isinstance(el, ast.Name):
                    counts[el.id] = counts.get(el.id, 0) + 2
        elif isinstance(n, ast.NamedExpr) and isinstance(n.target, ast.Name):
            counts[n.target.id] = counts.get(n.target.id, 0) + 2
        elif isinstance(n, (ast.With,)):
            for it in n.items:
                if it.optional_vars is not None:
                    for el in ast.walk(it.optional_vars):
                        if isinstance(el, ast.Name):
                            counts[el.id] = counts.get(el.id, 0) + 2
        for t, v in targets:
            if isinstance(t, ast.Name):
                counts[t.id] = counts.get(t.id, 0) + (1 if v is not None else 0)
                if v is not None:
                    defs[t.id] = v
    params = {a.arg for a in [*func.args.posonlyargs, *func.args.args, *func.args.kwonlyargs]}
    return {k: v for k, v in defs.items() if counts.get(k) == 1 and k not in params}
