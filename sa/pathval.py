"""Finite abstract evaluation of one loop iteration: which exit is taken, and which events happen on the way.

Used for clauses of the form "the loop is left iff <predicate over a few atoms>" and "on every path event A follows event B".
The atoms (None-ness of an attribute, truth value of an attribute, boolean result of a resolved call) are given a truth
assignment; the function's CFG is walked from its entry into ONE iteration of the anchored loop; every test whose value is
determined by the assignment, by constants or by local flags assigned from such values is followed on that side only, every
other test forks (both sides are explored and the test is remembered as a dependence of that path).  Because the walk follows
values through locals (`stop = prec is not None and conv(...)`, `if not stop: continue`), through conditional expressions and
through helpers that the front end inlined, the verdict does not depend on how the conditions are spelled.

Nothing of /repo is imported or executed: expressions are interpreted over the three-valued domain below by this module.
"""
from __future__ import annotations

import ast
from dataclasses import dataclass
from typing import Callable, Iterator

from .cfg import CFG, Node
from .errors import AnalysisError
from .model import dotted, src

# abstract values: True / False / NONE / NN (some object that is not None; truthiness unknown) / U (unknown)
NONE = "<None>"
NN = "<not-None>"


@dataclass(frozen=True)
class U:
    deps: frozenset

    def __repr__(self) -> str:
        return f"U{sorted(self.deps)}"


def unknown(*deps: str) -> U:
    return U(frozenset(deps))


@dataclass(frozen=True)
class PathResult:
    outcome: str  # break | continue | return | raise | leave | end
    events: tuple  # ordered labels of the events met inside the iteration
    forks: tuple  # texts of the tests the path had to guess
    where: tuple  # (kind, lineno) of the visited CFG nodes inside the iteration (diagnostic)


class AtomTable:
    """How atomic expressions are read.  attr_none[a] = atom whose truth means `self.a is not None`;
    attr_bool[a] = atom whose truth is the truth value of `self.a`; call_atom(call) -> (atom | None, event | None)."""

    def __init__(self, self_name: str | None, attr_none: dict[str, str], attr_bool: dict[str, str],
                 call_atom: Callable[[ast.Call], tuple[str | None, str | None]]) -> None:
        self.self_name = self_name
        self.attr_none = attr_none
        self.attr_bool = attr_bool
        self.call_atom = call_atom


Alt = tuple  # (value, events, forks)


class Evaluator:
    def __init__(self, atoms: AtomTable, assignment: dict[str, bool]) -> None:
        self.atoms = atoms
        self.asg = assignment

    # -- values -------------------------------------------------------------------------------------------------
    def truth(self, v) -> bool | None:
        if v is True or v is False:
            return v
        if v == NONE:
            return False
        if isinstance(v, (int, float, str)) and not isinstance(v, bool):
            return bool(v)
        return None

    def noneness(self, v) -> bool | None:
        """True: is None; False: is not None; None: unknown."""
        if v == NONE:
            return True
        if v == NN or v is True or v is False or (isinstance(v, (int, float, str)) and v not in (NONE, NN)):
            return False
        return None

    def deps(self, v) -> frozenset:
        return v.deps if isinstance(v, U) else frozenset()

    # -- expressions: generators of alternatives (value, events, forks) ----------------------------------------------
    def ev(self, e: ast.expr, env: dict) -> Iterator[Alt]:
        if isinstance(e, ast.Constant):
            yield (NONE if e.value is None else e.value, (), ())
            return
        if isinstance(e, ast.Name):
            yield (env.get(e.id, unknown(e.id)), (), ())
            return
        if isinstance(e, ast.Attribute):
            if isinstance(e.value, ast.Name) and e.value.id == self.atoms.self_name:
                if e.attr in self.atoms.attr_none:
                    a = self.atoms.attr_none[e.attr]
                    yield ((NN if self.asg[a] else NONE) if a in self.asg else unknown(f"self.{e.attr}"), (), ())
                    return
                if e.attr in self.atoms.attr_bool:
                    a = self.atoms.attr_bool[e.attr]
                    yield (self.asg[a] if a in self.asg else unknown(f"self.{e.attr}"), (), ())
                    return
            yield (unknown(dotted(e) or src(e)[:40]), (), ())
            return
        if isinstance(e, ast.UnaryOp) and isinstance(e.op, ast.Not):
            for v, evs, fk in self.ev(e.operand, env):
                t = self.truth(v)
                yield ((not t) if t is not None else unknown(*self.deps(v), *([] if isinstance(v, U) else [f"truthiness of {src(e.operand)[:40]}"])), evs, fk)
            return
        if isinstance(e, ast.BoolOp):
            yield from self._boolop(e.values, isinstance(e.op, ast.And), env)
            return
        if isinstance(e, ast.IfExp):
            for tv, evs, fk in self.ev(e.test, env):
                t = self.truth(tv)
                sides = [e.body] if t is True else [e.orelse] if t is False else [e.body, e.orelse]
                for side in sides:
                    fk2 = fk if t is not None else (*fk, f"{src(e.test)[:60]}")
                    for v, evs2, fk3 in self.ev(side, env):
                        yield (v, (*evs, *evs2), (*fk2, *fk3))
            return
        if isinstance(e, ast.Compare) and len(e.ops) == 1:
            op, right = e.ops[0], e.comparators[0]
            for lv, evs, fk in self.ev(e.left, env):
                for rv, evs2, fk2 in self.ev(right, env):
                    yield (self._compare(op, lv, rv, e), (*evs, *evs2), (*fk, *fk2))
            return
        if isinstance(e, ast.Call):
            fn = dotted(e.func) or ""
            if fn == "bool" and len(e.args) == 1:
                for v, evs, fk in self.ev(e.args[0], env):
                    t = self.truth(v)
                    yield (t if t is not None else unknown(*self.deps(v)), evs, fk)
                return
            if fn.split(".")[-1] == "cast" and len(e.args) == 2:
                yield from self.ev(e.args[1], env)
                return
            # events of calls nested in the arguments come first
            pre: list[Alt] = [(None, (), ())]
            for a in [*e.args, *[k.value for k in e.keywords]]:
                if any(isinstance(x, ast.Call) for x in ast.walk(a)):
                    pre = [(None, (*p[1], *evs), (*p[2], *fk)) for p in pre for _, evs, fk in self.ev(a, env)]
            atom, event = self.atoms.call_atom(e)
            for _, evs, fk in pre:
                evs2 = (*evs, event) if event else evs
                if atom is not None:
                    yield (self.asg[atom] if atom in self.asg else unknown(f"{fn}()"), evs2, fk)
                else:
                    yield (unknown(f"{fn or src(e.func)[:30]}()"), evs2, fk)
            return
        if isinstance(e, ast.NamedExpr) and isinstance(e.target, ast.Name):
            for v, evs, fk in self.ev(e.value, env):
                env[e.target.id] = v
                yield (v, evs, fk)
            return
        # anything else: unknown, but calls inside still produce their events
        alts: list[Alt] = [(None, (), ())]
        for sub in ast.iter_child_nodes(e):
            if isinstance(sub, ast.expr) and any(isinstance(x, ast.Call) for x in ast.walk(sub)):
                alts = [(None, (*p[1], *evs), (*p[2], *fk)) for p in alts for _, evs, fk in self.ev(sub, env)]
        for _, evs, fk in alts:
            yield (unknown(src(e)[:40]), evs, fk)

    def _boolop(self, values: list[ast.expr], is_and: bool, env: dict) -> Iterator[Alt]:
        head, rest = values[0], values[1:]
        for v, evs, fk in self.ev(head, env):
            if not rest:
                yield (v, evs, fk)
                continue
            t = self.truth(v)
            if t is not None and t != is_and:
                yield (v, evs, fk)  # short circuit
                continue
            if t is not None:
                for v2, evs2, fk2 in self._boolop(rest, is_and, env):
                    yield (v2, (*evs, *evs2), (*fk, *fk2))
                continue
            # unknown operand: either it decides the result (short circuit) or the rest is evaluated
            label = f"{src(head)[:60]}"
            yield (unknown(*self.deps(v), label), evs, (*fk, label))
            for v2, evs2, fk2 in self._boolop(rest, is_and, env):
                yield (v2, (*evs, *evs2), (*fk, label, *fk2))

    def _compare(self, op: ast.cmpop, lv, rv, e: ast.Compare):
        if isinstance(op, (ast.Is, ast.IsNot, ast.Eq, ast.NotEq)) and (lv == NONE or rv == NONE):
            other = rv if lv == NONE else lv
            n = self.noneness(other)
            if n is None:
                return unknown(*self.deps(other), f"None-ness of {src(e.left)[:40]}")
            return n if isinstance(op, (ast.Is, ast.Eq)) else not n
        if isinstance(op, (ast.Is, ast.IsNot, ast.Eq, ast.NotEq)) and all(x is True or x is False for x in (lv, rv)):
            return (lv == rv) if isinstance(op, (ast.Is, ast.Eq)) else (lv != rv)
        if all(isinstance(x, (int, float)) and not isinstance(x, bool) for x in (lv, rv)):
            import operator as _o
            table = {ast.Eq: _o.eq, ast.NotEq: _o.ne, ast.Lt: _o.lt, ast.LtE: _o.le, ast.Gt: _o.gt, ast.GtE: _o.ge}
            if type(op) in table:
                return table[type(op)](lv, rv)
        return unknown(*self.deps(lv), *self.deps(rv), src(e)[:50])


def iteration_paths(g: CFG, head: Node, loop_nodes: set[Node], atoms: AtomTable, assignment: dict[str, bool],
                    write_event: Callable[[ast.stmt], list[str]] | None = None, max_paths: int = 4000) -> list[PathResult]:
    """All abstract paths entry -> into the loop at `head` -> end of that one iteration (next visit of `head`, or leaving the loop)."""
    evaluator = Evaluator(atoms, assignment)
    out: list[PathResult] = []
    seen_states: set = set()

    def freeze(env: dict) -> tuple:
        return tuple(sorted((k, repr(v)) for k, v in env.items()))

    def go(n: Node, env: dict, inside: bool, events: tuple, forks: tuple, where: tuple, inner: frozenset) -> None:
        if len(out) > max_paths:
            raise AnalysisError(f"more than {max_paths} abstract paths through one iteration of the loop at line {head.lineno}")
        if n is head:
            if inside:
                out.append(PathResult("continue", events, forks, where))
                return
            nxt = [t for t, lab in n.succ if lab == "loop"]
            for t in nxt:
                go(t, dict(env), True, events, forks, where, inner)
            return
        if inside and n not in loop_nodes:
            out.append(PathResult("leave", events, forks, where))
            return
        if n is g.exit or n is g.raise_exit:
            if inside:
                out.append(PathResult("end", events, forks, where))
            return
        key = (n.idx, inside, freeze(env), events, inner)
        if key in seen_states:
            return
        seen_states.add(key)
        w2 = (*where, (n.kind, n.lineno)) if inside else where
        a = n.ast
        if n.kind == "test" and a is not None:
            for v, evs, fk in evaluator.ev(a, env):  # type: ignore[arg-type]
                t = evaluator.truth(v)
                ev2 = (*events, *evs) if inside else events
                for tgt, lab in n.succ:
                    if lab == "exc":
                        continue
                    if t is True and lab != "true":
                        continue
                    if t is False and lab != "false":
                        continue
                    fk2 = (*forks, *fk) if t is not None else (*forks, *fk, f"{src(a)[:70]}")
                    go(tgt, dict(env), inside, ev2, fk2 if inside else forks, w2, inner)
            return
        if n.kind == "for" and a is not None:
            # an inner loop: its body is walked once, then it is left
            first = n.idx not in inner
            for tgt, lab in n.succ:
                if lab == "exc":
                    continue
                if lab == "loop" and not first:
                    continue
                env2 = dict(env)
                tg = getattr(n.stmt, "target", None)
                for x in ast.walk(tg) if tg is not None else []:
                    if isinstance(x, ast.Name):
                        env2[x.id] = unknown(x.id)
                go(tgt, env2, inside, events, forks, w2, inner | {n.idx})
            return
        env2 = env
        ev2 = events
        alts: list[tuple[dict, tuple, tuple]] = [(env, events, forks)]
        if n.kind in ("stmt", "return", "raise", "with") and a is not None:
            alts = []
            value_expr = None
            targets: list[ast.expr] = []
            if isinstance(a, ast.Assign):
                value_expr, targets = a.value, a.targets
            elif isinstance(a, ast.AnnAssign) and a.value is not None:
                value_expr, targets = a.value, [a.target]
            elif isinstance(a, ast.AugAssign):
                value_expr, targets = a.value, [a.target]
            elif isinstance(a, ast.Expr):
                value_expr = a.value
            elif isinstance(a, ast.Return) and a.value is not None:
                value_expr = a.value
            elif isinstance(a, ast.expr):
                value_expr = a
            results: list[Alt] = list(evaluator.ev(value_expr, env)) if value_expr is not None else [(None, (), ())]
            for v, evs, fk in results:
                env2 = dict(env)
                for t in targets:
                    if isinstance(t, ast.Name):
                        env2[t.id] = v if not isinstance(a, ast.AugAssign) else unknown(t.id)
                    else:
                        for x in ast.walk(t):
                            if isinstance(x, ast.Name) and isinstance(x.ctx, ast.Store):
                                env2[x.id] = unknown(x.id)
                wev = tuple(write_event(a)) if (write_event is not None and isinstance(a, ast.stmt)) else ()
                ev2 = (*events, *evs, *wev) if inside else events
                alts.append((env2, ev2, (*forks, *fk) if inside else forks))
        for env3, ev3, fk3 in alts:
            if n.kind in ("break", "return", "raise") and inside:
                leaves = [t for t, lab in n.succ if lab != "exc" and (t not in loop_nodes or t is g.exit or t is g.raise_exit)]
                if leaves or n.kind in ("return", "raise"):
                    out.append(PathResult(n.kind, ev3, fk3, w2))
                    continue
            for tgt, lab in n.succ:
                if lab == "exc":
                    continue
                go(tgt, env3, inside, ev3, fk3, w2, inner)

    go(g.entry, {}, False, (), (), (), frozenset())
    return out
