"""Self-test of the rules: firing and silent variants applied as overlays of the *current* /repo tree.

Sources of variants: sa/variants.py (textual edits) and seeded/*/patch.diff with the expectations frozen in
seeded/EXPECT.json (which checks caught which independently written change when the matrix was last run).
A variant that no longer applies to the tree is skipped.  On the pristine tree (digest recorded in
seeded/REFERENCE.json) a misbehaving variant makes the thorough check exit 2.
"""
from __future__ import annotations

import contextlib
import hashlib
import io
import json
import multiprocessing as mp
import os
import random
from pathlib import Path
from typing import Any

from .errors import AnalysisError
from .loader import load_sources

VERIF = Path(__file__).resolve().parent.parent


def tree_digest() -> str:
    src = load_sources()
    h = hashlib.sha256()
    for k in sorted(src):
        h.update(k.encode())
        h.update(src[k].encode())
    return h.hexdigest()[:16]


def _variants_for(prop: str) -> list[dict]:
    from .variants import V
    out = [dict(v, source="variants.py") for v in V if v["prop"] == prop]
    exp_file = VERIF / "seeded" / "EXPECT.json"
    if exp_file.exists():
        exp = json.loads(exp_file.read_text())
        for sid, props in sorted(exp.items()):
            # an independently written change is *required* to fire only in the check of the property it was written
            # against (its id prefix); what other checks say about it is informational (seeded/MATRIX.md)
            own = sid[:3] if sid[:1] == "C" and sid[1:3].isdigit() else None
            if own is not None and own != prop:
                continue
            if prop in props and (VERIF / "seeded" / sid / "patch.diff").exists():
                out.append({"prop": prop, "kind": "fire", "name": f"seeded change {sid}", "patch": str(VERIF / "seeded" / sid / "patch.diff"), "expect": "", "source": "seeded"})
    # behaviour-preserving refactorings written by independent agents (benign/): the check must not fire on any of them, and must stay silent (exit 0)
    # wherever it was silent when benign/MATRIX.json was last generated ("undecided" is tolerated only where it was recorded)
    bm = VERIF / "benign" / "MATRIX.json"
    if bm.exists():
        table = json.loads(bm.read_text())
        for sid, row in sorted(table.items()):
            verdict = row.get(prop, {}).get("verdict")
            if verdict in ("silent", "undecided") and (VERIF / "benign" / sid / "patch.diff").exists():
                out.append({"prop": prop, "kind": "silent", "name": f"benign refactoring {sid}", "patch": str(VERIF / "benign" / sid / "patch.diff"), "expect": "",
                            "allow_undecided": verdict == "undecided", "source": "benign"})
    return out


def _overlay(v: dict) -> dict[str, str] | None:
    if "auto" in v:
        return _overlay_auto(v)
    if "patch" in v:
        from .dev import overlay_from_patch
        try:
            return overlay_from_patch(v["patch"])
        except SystemExit:
            return None
    text = (Path(os.environ.get("VERIF_REPO", "/repo")) / v["file"]).read_text()
    rename = "rename" in v["name"]
    if rename:
        import re
        pat = re.compile(r"\b" + re.escape(v["old"]) + r"\b")
        n = len(pat.findall(text))
        if n == 0:
            return None
        new_text = pat.sub(v["new"], text)
    else:
        n = text.count(v["old"])
        if n != 1:
            return None
        new_text = text.replace(v["old"], v["new"])
    try:
        compile(new_text, v["file"], "exec")
    except SyntaxError:
        return None
    return {v["file"]: new_text}


def _run_one(v: dict) -> dict[str, Any]:
    from .check import run_property
    ov = _overlay(v)
    if ov is None:
        return {"name": v["name"], "kind": v["kind"], "verdict": "skipped (anchor not in the current tree)"}
    try:
        buf = io.StringIO()
        with contextlib.redirect_stdout(buf):
            rc, ctx = run_property(v["prop"], "quick", 0, overlay=ov, write_evidence=False, quiet=True)
        from .report import load_known
        known = {f"{k['property']}/{k['rule']}/{k['key']}" for k in load_known() if k.get("status") == "known"}
        rules = sorted({f.rule for f in ctx.findings if f.ident() not in known})
    except AnalysisError as exc:
        rc, rules = 2, [f"analysis-error: {str(exc)[:80]}"]
    except Exception as exc:  # noqa: BLE001
        rc, rules = 3, [f"crash: {type(exc).__name__}: {str(exc)[:80]}"]
    if v["kind"] == "fire":
        ok = rc == 1 and (not v.get("expect") or any(r.startswith(v["expect"]) for r in rules))
    else:
        ok = rc == 0 or (rc == 2 and v.get("allow_undecided", False))
    return {"name": v["name"], "kind": v["kind"], "verdict": "ok" if ok else "MISBEHAVES", "rc": rc, "rules": rules[:4]}


def run_for(prop: str, jobs: int = 16, sample: int | None = None, seed: int = 0, auto: bool = False) -> dict[str, Any] | None:
    vs = _variants_for(prop)
    if auto == "private":
        vs = [v for v in auto_rename_variants(prop) if v["source"] == "auto-private-rename"]
    elif auto:
        vs = vs + auto_rename_variants(prop)
    if not vs:
        return None
    if sample == 0:
        return None
    if sample is not None and len(vs) > sample:
        rnd = random.Random(seed)
        vs = rnd.sample(vs, sample)
    if jobs > 1 and len(vs) > 2:
        with mp.Pool(min(jobs, len(vs))) as pool:
            results = pool.map(_run_one, vs)
    else:
        results = [_run_one(v) for v in vs]
    ref = VERIF / "seeded" / "REFERENCE.json"
    pristine = ref.exists() and json.loads(ref.read_text()).get("tree_digest") == tree_digest()
    return {
        "variants": len(results),
        "firing_ok": sum(1 for r in results if r["kind"] == "fire" and r["verdict"] == "ok"),
        "silent_ok": sum(1 for r in results if r["kind"] == "silent" and r["verdict"] == "ok"),
        "skipped": sum(1 for r in results if r["verdict"].startswith("skipped")),
        "misbehaving": [r for r in results if r["verdict"] == "MISBEHAVES"],
        "pristine": pristine,
        "details": results,
    }


def merge_into_evidence(prop: str, st: dict[str, Any]) -> None:
    f = VERIF / "evidence" / f"{prop}.json"
    if not f.exists():
        return
    ev = json.loads(f.read_text())
    ev["coverage"]["selftest"] = st
    f.write_text(json.dumps(ev, indent=1, default=str))


def main() -> int:
    import sys
    auto = "private" if "--private" in sys.argv else "--auto" in sys.argv
    props = [a for a in sys.argv[1:] if not a.startswith("--")] or [f"C{i:02d}" for i in range(1, 21)]
    bad = 0
    for p in props:
        st = run_for(p, auto=auto)
        if st is None:
            continue
        print(f"{p}: {st['variants']} variants, firing ok {st['firing_ok']}, silent ok {st['silent_ok']}, skipped {st['skipped']}, misbehaving {len(st['misbehaving'])}")
        for m in st["misbehaving"]:
            print(f"    {m['kind']:6s} {m['name']}: rc={m.get('rc')} rules={m.get('rules')}")
            bad += 1
        for r in st["details"]:
            if r["verdict"].startswith("skipped"):
                print(f"    skipped {r['name']}")
    return 1 if bad else 0



# ---------------------------------------------------------------------------------------------- systematic silent variants
def auto_rename_variants(prop: str) -> list[dict]:
    """One silent variant per local variable of every function the check analysed: rename it (AST-level)."""
    import ast as _ast

    f = VERIF / "evidence" / f"{prop}.json"
    if not f.exists():
        return []
    funcs = json.loads(f.read_text())["coverage"].get("functions_analysed", [])
    from .model import load_program
    prog = load_program()
    out = []
    for q in funcs:
        if q not in prog.funcs:
            continue
        fi = prog.funcs[q]
        params = {a.arg for a in [*fi.node.args.posonlyargs, *fi.node.args.args, *fi.node.args.kwonlyargs]}
        if fi.node.args.vararg:
            params.add(fi.node.args.vararg.arg)
        if fi.node.args.kwarg:
            params.add(fi.node.args.kwarg.arg)
        locals_ = []
        for n in _ast.walk(fi.node):
            if isinstance(n, _ast.Name) and isinstance(n.ctx, _ast.Store) and n.id not in params and n.id not in locals_ and not n.id.startswith("_"):
                locals_.append(n.id)
        for name in locals_:
            out.append({"prop": prop, "kind": "silent", "name": f"auto: local `{name}` of {q.split(':')[1]} renamed", "auto": (q, name), "source": "auto-rename"})
        for tr in ("annassign", "augexpand", "logline"):
            out.append({"prop": prop, "kind": "silent", "name": f"auto: {tr} in {q.split(':')[1]}", "auto": (q, f"#{tr}"), "source": "auto-transform"})
    # package-wide rename of every private attribute / private method the analysed functions mention
    priv: list[str] = []
    for q in funcs:
        if q not in prog.funcs:
            continue
        for n in _ast.walk(prog.funcs[q].node):
            if isinstance(n, _ast.Attribute) and n.attr.startswith("_") and not n.attr.startswith("__") and n.attr not in priv:
                priv.append(n.attr)
    for name in priv:
        out.append({"prop": prop, "kind": "silent", "name": f"auto: private name `{name}` renamed package-wide", "auto": ("*", f"@{name}"), "source": "auto-private-rename"})
    return out


def _overlay_private_rename(name: str) -> dict[str, str] | None:
    """Rename a private attribute / method consistently in every module of the package (attribute accesses, method definitions, class-level names)."""
    import ast as _ast

    from .model import load_program
    prog = load_program()
    new = f"{name}_rn"
    out: dict[str, str] = {}
    for mod in prog.modules.values():
        if name not in mod.source:
            continue
        if f'"{name}"' in mod.source or f"'{name}'" in mod.source:
            return None  # accessed through a string (getattr / __slots__): a textual rename is not obviously behaviour-preserving
        tree = _ast.parse(mod.source)
        hit = False
        for n in _ast.walk(tree):
            if isinstance(n, _ast.Attribute) and n.attr == name:
                n.attr, hit = new, True
            elif isinstance(n, (_ast.FunctionDef, _ast.AsyncFunctionDef)) and n.name == name:
                n.name, hit = new, True
            elif isinstance(n, _ast.Name) and n.id == name:
                n.id, hit = new, True
            elif isinstance(n, _ast.keyword) and n.arg == name:
                n.arg, hit = new, True
            elif isinstance(n, _ast.arg) and n.arg == name:
                n.arg, hit = new, True
            elif isinstance(n, _ast.alias) and (n.name == name or n.asname == name):
                return None
        if hit:
            out[mod.relpath] = _ast.unparse(tree)
    return out or None


def _overlay_auto(v: dict) -> dict[str, str] | None:
    import ast as _ast

    from .model import load_program
    q, name = v["auto"]
    if name.startswith("@"):
        return _overlay_private_rename(name[1:])
    prog = load_program()
    if q not in prog.funcs:
        return None
    fi = prog.funcs[q]
    new = f"{name}_rn"
    tree = _ast.parse(fi.module.source)
    if name.startswith("#"):
        return _overlay_transform(fi, tree, name[1:])
    target = None
    for n in _ast.walk(tree):
        if isinstance(n, (_ast.FunctionDef, _ast.AsyncFunctionDef)) and n.name == fi.node.name and n.lineno == fi.node.lineno:
            target = n
    if target is None:
        return None
    # do not rename if an inner function declares the name nonlocal / the new name already exists
    if any(isinstance(x, _ast.Name) and x.id == new for x in _ast.walk(target)):
        return None
    for n in _ast.walk(target):
        if isinstance(n, _ast.Name) and n.id == name:
            n.id = new
        elif isinstance(n, _ast.arg) and n.arg == name and n is not target:
            pass
        elif isinstance(n, _ast.keyword) and False:
            pass
    return {fi.module.relpath: _ast.unparse(tree)}


def _overlay_transform(fi, tree, kind: str) -> dict[str, str] | None:
    """Behaviour-preserving rewrites of one function: annotated assignments, expanded augmented assignments, an extra log line."""
    import ast as _ast
    target = None
    for n in _ast.walk(tree):
        if isinstance(n, (_ast.FunctionDef, _ast.AsyncFunctionDef)) and n.name == fi.node.name and n.lineno == fi.node.lineno:
            target = n
    if target is None:
        return None
    changed = False

    class T(_ast.NodeTransformer):
        def visit_FunctionDef(self, node):  # noqa: N802
            if node is not target:
                return node
            self.generic_visit(node)
            return node

        def visit_Assign(self, node):  # noqa: N802
            nonlocal changed
            if kind == "annassign" and len(node.targets) == 1 and isinstance(node.targets[0], _ast.Name):
                changed = True
                return _ast.AnnAssign(target=node.targets[0], annotation=_ast.Name(id="object", ctx=_ast.Load()), value=node.value, simple=1)
            return node

        def visit_AugAssign(self, node):  # noqa: N802
            nonlocal changed
            if kind == "augexpand" and isinstance(node.target, (_ast.Name, _ast.Attribute)):
                changed = True
                load = _ast.parse(_ast.unparse(node.target), mode="eval").body
                return _ast.Assign(targets=[node.target], value=_ast.BinOp(left=load, op=node.op, right=node.value), lineno=node.lineno)
            return node

    T().visit(target)
    if kind == "logline":
        body = target.body
        pos = 1 if body and isinstance(body[0], _ast.Expr) and isinstance(body[0].value, _ast.Constant) else 0
        # not inside generators that are context managers before the first statement? a print is harmless anywhere
        body.insert(pos, _ast.parse("print('trace')").body[0])
        changed = True
    if not changed:
        return None
    _ast.fix_missing_locations(tree)
    return {fi.module.relpath: _ast.unparse(tree)}


if __name__ == "__main__":
    raise SystemExit(main())
