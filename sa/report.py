"""Obligations, findings, known-findings matching, evidence and exit codes."""
from __future__ import annotations

import ast
import hashlib
import json
import os
import time
from dataclasses import dataclass, field
from pathlib import Path
from typing import Any

from .errors import AnalysisError
from .model import FuncInfo, Program

VERIF = Path(__file__).resolve().parent.parent
EVIDENCE_DIR = VERIF / "evidence"
KNOWN_FILE = VERIF / "known_findings.json"


@dataclass
class Finding:
    prop: str
    rule: str
    key: str  # construct key: never a line number
    message: str
    where: str  # file:line (diagnostic only)
    path: list[str] = field(default_factory=list)

    def ident(self) -> str:
        return f"{self.prop}/{self.rule}/{self.key}"


#: rules that compare the *value computed* by a function with a published formula (normal forms).  When the function now calls something its reference version
#: never mentioned (np.where, np.clip, a new helper, ...), a mismatch there is as likely a restatement the normal form does not open as a defect: the finding is
#: withheld (undecided).  Structural rules (ordering, aliasing, plumbing, protocol) are not affected.
FORMULA_RULES = ("R3.fourier", "R3.msm", "R3.likelihood", "R3.gsl", "R3.minkowski", "R3.term", "R3.range", "R4.rseq-points", "R1.halton-result", "R2.pipeline", "R3.shift", "R2.update",
                 "R1.reward", "R4.system", "R3.formula", "R3.moments", "R2.wrapper", "R3.confine", "R6.pairing", "R6.identity", "R3.shock-count")


#: new callees that do not make a mismatch doubtful: functions that change a value in a way no restatement needs (tolerances, extrema, rounding, sorting, reductions).
#: A formula that now goes through one of these and no longer matches is reported.
VALUE_CHANGING = {"isclose", "allclose", "min", "max", "minimum", "maximum", "amin", "amax", "nanmin", "nanmax", "nanmean", "nansum", "floor", "ceil", "trunc", "rint", "fix", "abs", "fabs",
                  "absolute", "sqrt", "log", "log2", "log10", "exp", "sort", "sorted", "argsort", "unique", "median", "nan_to_num", "finfo", "sum", "mean", "std", "var", "any", "all", "round",
                  "around", "sign", "cumsum", "cumprod", "prod"}


class Context:
    """Collects obligations for one property on one program."""

    def __init__(self, prop: str, prog: Program, tier: str = "quick", seed: int = 0) -> None:
        self.prop = prop
        self.prog = prog
        self.tier = tier
        self.seed = seed
        self.obligations: list[dict[str, Any]] = []
        self.findings: list[Finding] = []
        self.samples: list[Any] = []
        self.notes: dict[str, Any] = {}
        self.assumptions: list[str] = []
        self.functions: set[str] = set()
        self.callsites = 0
        self.tables: dict[str, Any] = {}
        self.undecided: list[str] = []
        al = getattr(prog, "alignment", None)
        if al and (al.get("renamed_back") or al.get("inlined") or al.get("locals") or al.get("substituted")):
            self.notes["alignment"] = al

    # -- bookkeeping -----------------------------------------------------------
    def analysed(self, f: FuncInfo) -> FuncInfo:
        self.functions.add(f.qualname)
        return f

    def func(self, qualname: str) -> FuncInfo:
        return self.analysed(self.prog.func(qualname))

    def assume(self, text: str) -> None:
        if text not in self.assumptions:
            self.assumptions.append(text)

    def sample(self, obj: Any) -> None:
        if len(self.samples) < 12:
            self.samples.append(obj)

    def where(self, f: FuncInfo | None, node: ast.AST | None = None) -> str:
        if f is None:
            return "-"
        return f.loc(node)

    def ok(self, rule: str, key: str, what: str) -> None:
        self.obligations.append({"rule": rule, "key": key, "what": what, "verdict": "holds"})

    def fail(self, rule: str, key: str, message: str, f: FuncInfo | None = None,
             node: ast.AST | None = None, path: list[str] | None = None) -> None:
        import os
        if "`?`" in message:
            # the rule could not find the construct it reports on (the `?` stands for what it looked for): that is a reading failure, not a finding
            raise AnalysisError(f"rule {rule} could not read the construct at {key}: {message[:160]}")
        if os.environ.get("SA_NEW_CALLEE_GATE", "1") != "0" and f is not None and rule.startswith(FORMULA_RULES):
            nc = [x for x in (getattr(self.prog, "alignment", None) or {}).get("new_callees", {}).get(f.qualname, []) if x not in VALUE_CHANGING]
            if nc:
                raise AnalysisError(f"{f.qualname.split(':')[1]} now calls {nc[:4]}, which its reference version does not; what rule {rule} found there may be a reading failure")
        limit = int(os.environ.get("SA_RESTATED_LIMIT", "0") or 0)
        if limit and f is not None:
            d = (getattr(self.prog, "alignment", None) or {}).get("restated", {}).get(f.qualname, 0)
            if d > limit:
                raise AnalysisError(f"{f.qualname.split(':')[1]} differs from the reference tree in {d} statements; what rule {rule} found there (`{message[:90]}`) may be a "
                                    "reading failure of the restated code and is not reported as a violation")
        self.obligations.append({"rule": rule, "key": key, "what": message, "verdict": "violated"})
        self.findings.append(Finding(self.prop, rule, key, message, self.where(f, node), path or []))

    def check(self, cond: bool, rule: str, key: str, what: str, message: str | None = None,
              f: FuncInfo | None = None, node: ast.AST | None = None, path: list[str] | None = None) -> bool:
        if cond:
            self.ok(rule, key, what)
        else:
            self.fail(rule, key, message or f"NOT: {what}", f, node, path)
        return cond

    def rule(self, fn, *args, **kw) -> None:
        """Run one rule group; an AnalysisError makes that group *undecided* without losing the others."""
        try:
            for a in args:
                why = getattr(a, "unreadable", None)
                if why:
                    raise AnalysisError(why)
            fn(self, *args, **kw)
        except AnalysisError as exc:
            self.undecided.append(f"{self.prop}/{getattr(fn, '__name__', 'rule')}: {exc}")
        except (IndexError, KeyError, AttributeError, TypeError) as exc:
            # a rule tripping over a shape it was not written for is an analysis failure of that rule group, not a verdict
            import traceback
            tb = traceback.extract_tb(exc.__traceback__)[-1]
            self.undecided.append(f"{self.prop}/{getattr(fn, '__name__', 'rule')}: internal error {type(exc).__name__}: {exc} at {tb.filename.split('/')[-1]}:{tb.lineno}")

    def rule_any(self, *fns) -> None:
        """Alternative deciders of the same clause, most semantic first: the first one that decides (finishes without an AnalysisError) gives the verdict;
        what an undecided alternative had recorded so far is dropped.  The clause is undecided only if every alternative is."""
        errs = []
        for fn in fns:
            mark = (len(self.obligations), len(self.findings))
            try:
                fn(self)
            except AnalysisError as exc:
                del self.obligations[mark[0]:]
                del self.findings[mark[1]:]
                errs.append(f"{self.prop}/{getattr(fn, '__name__', 'rule')}: {exc}")
                continue
            if errs:
                self.notes.setdefault("alternative_rule_undecided", []).extend(errs)
            return
        self.undecided.extend(errs)

    def floor(self, rule: str, what: str, count: int, minimum: int) -> None:
        """Vacuity guard: the instance count confirmed by reading must still be found."""
        if count < minimum:
            raise AnalysisError(f"{self.prop}/{rule}: only {count} instance(s) of '{what}' found, at least {minimum} were confirmed by reading - rule would pass vacuously")
        self.notes.setdefault("instance_floors", {})[f"{rule}:{what}"] = {"found": count, "floor": minimum}


def load_known() -> list[dict[str, Any]]:
    if not KNOWN_FILE.exists():
        return []
    return json.loads(KNOWN_FILE.read_text())


def conclude(ctx: Context, started: float, level_text: str, technique: str,
             write_evidence: bool = True, quiet: bool = False) -> int:
    """Match findings against the known-findings file, print the interface lines, write evidence."""
    known = [k for k in load_known() if k.get("property") == ctx.prop and k.get("status") == "known"]
    known_by_id = {f"{k['property']}/{k['rule']}/{k['key']}": k for k in known}
    unlisted: list[Finding] = []
    matched: list[dict[str, Any]] = []
    seen: set[str] = set()
    for fd in ctx.findings:
        if fd.ident() in seen:
            continue
        seen.add(fd.ident())
        if fd.ident() in known_by_id:
            k = known_by_id[fd.ident()]
            matched.append({"key": fd.ident(), "what": k["what"]})
            if not quiet:
                print(f"KNOWN-FINDING: property={ctx.prop} {k['what']} [{fd.rule} @ {fd.key}]")
        else:
            unlisted.append(fd)
    replay_dir = EVIDENCE_DIR / "replay" / ctx.prop
    replays = []
    if unlisted and write_evidence:
        replay_dir.mkdir(parents=True, exist_ok=True)
        for old in replay_dir.glob("*.json"):
            old.unlink()
    for i, fd in enumerate(unlisted):
        rp = replay_dir / f"{i}.json"
        if write_evidence:
            rp.write_text(json.dumps({
                "property": fd.prop, "rule": fd.rule, "key": fd.key, "message": fd.message,
                "where": fd.where, "path": fd.path,
            }, indent=1))
        replays.append(str(rp))
        if not quiet:
            print(f"FINDING {fd.prop}/{fd.rule} at {fd.where} [{fd.key}]: {fd.message}")
            for step in fd.path[:12]:
                print(f"    via {step}")
            print(f"VIOLATION property={ctx.prop} replay={rp}")
    n_obl = len(ctx.obligations)
    n_ok = sum(1 for o in ctx.obligations if o["verdict"] == "holds")
    wall = time.time() - started
    if write_evidence:
        EVIDENCE_DIR.mkdir(exist_ok=True)
        rules = sorted({o["rule"] for o in ctx.obligations})
        digest = hashlib.sha256("".join(m.digest for m in ctx.prog.modules.values()).encode()).hexdigest()[:16]
        ev = {
            "property_id": ctx.prop,
            "tier": ctx.tier,
            "seed": ctx.seed,
            "level": "other",
            "coverage": {
                "explanation": level_text,
                "technique": technique,
                "obligations": n_obl,
                "discharged": n_ok,
                "evaluations": n_obl,
                "distinct_nontrivial": len({(o["rule"], o["key"]) for o in ctx.obligations}),
                "rule": "one evaluation = one rule instance (rule, construct key) decided on the parsed source of /repo; distinct = distinct (rule, key) pairs",
                "rules": rules,
                "files_parsed": len(ctx.prog.modules),
                "tree_digest": digest,
                "functions_analysed": sorted(ctx.functions),
                "samples": (ctx.samples or ctx.obligations[:8]),
                "obligation_list": ctx.obligations,
                "tables": ctx.tables,
                "known_findings_matched": matched,
                "unlisted_findings": [fd.ident() for fd in unlisted],
                "undecided": ctx.undecided,
                **ctx.notes,
            },
            "assumptions": ctx.assumptions,
            "wall_s": round(wall, 3),
            "violations": len(unlisted),
        }
        (EVIDENCE_DIR / f"{ctx.prop}.json").write_text(json.dumps(ev, indent=1, default=str))
    if not quiet:
        for u in ctx.undecided:
            print(f"ANALYSIS-ERROR: {u}")
        print(f"{ctx.prop}: {n_ok}/{n_obl} obligations discharged, {len(matched)} known finding(s), "
              f"{len(unlisted)} unlisted violation(s), {len(ctx.functions)} functions analysed, {wall:.2f}s")
    if unlisted:
        return 1
    return 2 if ctx.undecided else 0
