"""Front end that keeps the rules' anchors bound across behaviour-preserving refactorings.

The rules were confirmed by reading one tree (the *reference* tree; its inventory of modules, classes, functions,
parameters and instance attributes is frozen in `sa/inventory.json`, regenerated with `python -m sa.align --freeze`).
Before the program model is built from /repo's *current* sources, two canonicalisations are applied to the parsed trees:

1. **name alignment** - a private function/method or private instance attribute of the inventory that is missing, while
   exactly one new private name of the same kind appeared in the same module/class (same parameter list for functions;
   same position among the attributes a class stores for attributes), is a rename: the new name is renamed back,
   package-wide, so that the rules keep reading the construct they were written for.  Public names are never aligned.
2. **helper inlining** - a function that is not in the inventory (after alignment) is a helper introduced by the change;
   when its body has no early return it is inlined at its statement-level call sites (parameters substituted or bound to
   fresh locals, its locals renamed apart), and when it is a straight-line expression helper also inside expressions.
   The rules then see the code as it was before the helper was extracted; whatever the helper does is analysed in place.

Nothing here decides a property: a wrong alignment can only make an anchor vanish or a rule fail - it cannot hide a
violating construct, because every statement of the current tree is still present in the canonical tree.
What was aligned / inlined is reported in the evidence (`notes.alignment`).
"""
from __future__ import annotations

import ast
import copy
import json
from pathlib import Path

from .loader import Module

INVENTORY = Path(__file__).parent / "inventory.json"
FuncNode = (ast.FunctionDef, ast.AsyncFunctionDef)


def _private(name: str) -> bool:
    return name.startswith("_") and not (name.startswith("__") and name.endswith("__"))


# ---------------------------------------------------------------------------------------------------- inventory
def _params(fn: ast.FunctionDef) -> list[str]:
    a = fn.args
    return [x.arg for x in [*a.posonlyargs, *a.args, *a.kwonlyargs]]


def _class_attrs(cls: ast.ClassDef) -> list[str]:
    """Instance attributes stored through the first parameter of the methods, in order of first store (constructor first)."""
    out: list[str] = []
    methods = [m for m in cls.body if isinstance(m, FuncNode)]
    methods.sort(key=lambda m: (m.name != "__init__", m.lineno))
    for m in methods:
        ps = _params(m)
        if not ps:
            continue
        me = ps[0]
        for n in ast.walk(m):
            if isinstance(n, ast.Attribute) and isinstance(n.ctx, ast.Store) and isinstance(n.value, ast.Name) and n.value.id == me and n.attr not in out:
                out.append(n.attr)
    return out


def _stored_locals(fn: ast.FunctionDef) -> list[str]:
    """Names bound in the function's own scope (not in nested functions / comprehensions), in order of first binding."""
    out: list[str] = []
    params = set(_params(fn))

    def walk(node: ast.AST) -> None:
        for child in ast.iter_child_nodes(node):
            if isinstance(child, (*FuncNode, ast.ClassDef, ast.Lambda, ast.ListComp, ast.SetComp, ast.DictComp, ast.GeneratorExp)):
                continue
            if isinstance(child, ast.Name) and isinstance(child.ctx, ast.Store) and child.id not in out and child.id not in params:
                out.append(child.id)
            walk(child)
    walk(fn)
    return out


def _stmt_sigs(fn: ast.AST) -> list[str]:
    """One line per statement of a function as written (docstrings apart): simple statements in full, compound statements by their header.  Used to measure how much
    of a function differs from the reference tree (see report.Context: findings in heavily restated functions are not reported as violations)."""
    out: list[str] = []
    for st in ast.walk(fn):
        if not isinstance(st, (ast.stmt, ast.ExceptHandler)) or st is fn:
            continue
        if isinstance(st, ast.Expr) and isinstance(st.value, ast.Constant) and isinstance(st.value.value, str):
            continue
        if isinstance(st, ast.For):
            out.append(f"for {ast.unparse(st.target)} in {ast.unparse(st.iter)}")
        elif isinstance(st, ast.While):
            out.append(f"while {ast.unparse(st.test)}")
        elif isinstance(st, ast.If):
            out.append(f"if {ast.unparse(st.test)}")
        elif isinstance(st, ast.With):
            out.append("with " + ", ".join(ast.unparse(i) for i in st.items))
        elif isinstance(st, ast.Try):
            out.append("try")
        elif isinstance(st, ast.ExceptHandler):
            out.append(f"except {ast.unparse(st.type) if st.type is not None else ''}")
        elif isinstance(st, (ast.FunctionDef, ast.AsyncFunctionDef, ast.ClassDef)):
            out.append(f"def {st.name}")
        elif isinstance(st, ast.Match):
            out.append(f"match {ast.unparse(st.subject)}")
        else:
            out.append(ast.unparse(st))
    return sorted(out)


def restated_statements(mods: dict[str, Module], inv: dict) -> dict[str, int]:
    """`module:qualname` -> number of statements by which the function (as written, before any canonicalisation) differs from the reference tree, the statements
    of new helpers it names counted in.  Functions that do not exist in the reference are not listed."""
    from collections import Counter
    out: dict[str, int] = {}
    for mod in mods.values():
        old = inv["modules"].get(mod.name)
        if old is None or "stmts" not in old:
            continue
        funcs = {q: fn for q, _, fn in _functions_of(mod)}
        new_helpers = {q: fn for q, fn in funcs.items() if q not in old["stmts"]}
        for q, fn in funcs.items():
            ref = old["stmts"].get(q)
            if ref is None:
                continue
            a, b = Counter(ref), Counter(_stmt_sigs(fn))
            d = sum(((a - b) + (b - a)).values())
            names = {n.attr for n in ast.walk(fn) if isinstance(n, ast.Attribute)} | {n.id for n in ast.walk(fn) if isinstance(n, ast.Name)}
            for hq, hfn in new_helpers.items():
                if hq.split(".")[-1] in names and hfn is not fn:
                    d += len(_stmt_sigs(hfn))
            if d:
                out[f"{mod.name}:{q}"] = d
    return out


def new_callees(mods: dict[str, Module], inv: dict) -> dict[str, list[str]]:
    """`module:qualname` -> names the function (after canonicalisation) calls that its reference version did not mention at all."""
    out: dict[str, list[str]] = {}
    for mod in mods.values():
        old = inv["modules"].get(mod.name)
        if old is None:
            continue
        for q, _, fn in _functions_of(mod):
            ref = old["tokens"].get(q)
            if ref is None:
                continue
            ref = set(ref)
            names = set()
            for c in ast.walk(fn):
                if isinstance(c, ast.Call):
                    nm = c.func.attr if isinstance(c.func, ast.Attribute) else c.func.id if isinstance(c.func, ast.Name) else None
                    if nm and nm not in ref and "." + nm not in ref and nm not in ("cast", "tuple", "list", "len", "range", "enumerate", "zip", "isinstance", "int", "float", "str", "bool"):
                        names.add(nm)
            if names:
                out[f"{mod.name}:{q}"] = sorted(names)
    return out


def _tokens(fn: ast.AST) -> list[str]:
    """Identifier / literal vocabulary of a function body: what it talks about, regardless of its own name and layout."""
    out = set()
    for n in ast.walk(fn):
        if isinstance(n, ast.Name):
            out.add(n.id)
        elif isinstance(n, ast.Attribute):
            out.add("." + n.attr)
        elif isinstance(n, ast.Constant) and isinstance(n.value, (str, int, float)) and not isinstance(n.value, bool) and len(str(n.value)) <= 40:
            out.add(repr(n.value))
        elif isinstance(n, ast.keyword) and n.arg:
            out.add(n.arg + "=")
    return sorted(out)


def _attr_profiles(cls: ast.ClassDef) -> dict[str, list[str]]:
    """attribute -> where and how the class uses it (method name + load/store + the call made on it, if any)."""
    prof: dict[str, set[str]] = {}
    for m in cls.body:
        if not isinstance(m, FuncNode):
            continue
        ps = _params(m)
        me = ps[0] if ps else None
        for n in ast.walk(m):
            if isinstance(n, ast.Attribute) and isinstance(n.value, ast.Name) and n.value.id == me:
                prof.setdefault(n.attr, set()).add(f"{m.name}:{'S' if isinstance(n.ctx, ast.Store) else 'L'}")
            if isinstance(n, ast.Attribute) and isinstance(n.value, ast.Attribute) and isinstance(n.value.value, ast.Name) and n.value.value.id == me:
                prof.setdefault(n.value.attr, set()).add(f"{m.name}:.{n.attr}")
            if isinstance(n, ast.Assign) and len(n.targets) == 1 and isinstance(n.targets[0], ast.Attribute) and isinstance(n.targets[0].value, ast.Name) and n.targets[0].value.id == me:
                prof.setdefault(n.targets[0].attr, set()).add(f"{m.name}:=" + " ".join(ast.unparse(n.value).split())[:60])
    return {k: sorted(v) for k, v in prof.items()}


def _jaccard(a, b) -> float:
    a, b = set(a), set(b)
    return len(a & b) / len(a | b) if a | b else 0.0


def _mutual_best(removed: list[str], added: list[str], old_sig: dict, new_sig: dict, floor: float = 0.45) -> dict[str, str]:
    """new -> old for the pairs that are each other's most similar candidate (similarity of what they mention), above a floor and with a margin."""
    out: dict[str, str] = {}
    if not removed or not added:
        return out
    sim = {(r, a): _jaccard(old_sig.get(r, []), new_sig.get(a, [])) for r in removed for a in added}
    for a in added:
        ranked = sorted(removed, key=lambda r: -sim[(r, a)])
        best = ranked[0]
        if sim[(best, a)] < floor:
            continue
        if len(ranked) > 1 and sim[(ranked[1], a)] > sim[(best, a)] - 0.05:
            continue
        back = sorted(added, key=lambda x: -sim[(best, x)])
        if back[0] != a or (len(back) > 1 and sim[(best, back[1])] > sim[(best, a)] - 0.05):
            continue
        out[a] = best
    return out


def _first_defs(fn: ast.FunctionDef) -> dict[str, str]:
    """local -> text of the right-hand side of its first plain assignment (used to recognise a renamed local by what it holds)."""
    out: dict[str, str] = {}
    for n in ast.walk(fn):
        if isinstance(n, ast.Assign) and len(n.targets) == 1 and isinstance(n.targets[0], ast.Name) and n.targets[0].id not in out:
            out[n.targets[0].id] = " ".join(ast.unparse(n.value).split())
    return out


def _functions_of(mod: Module):
    for node in mod.tree.body:
        if isinstance(node, FuncNode):
            yield node.name, None, node
        elif isinstance(node, ast.ClassDef):
            for x in node.body:
                if isinstance(x, FuncNode):
                    suffix = ".setter" if any("setter" in ast.unparse(d) for d in x.decorator_list) else ""
                    yield f"{node.name}.{x.name}{suffix}", node, x


def inventory_of(mods: dict[str, Module]) -> dict:
    inv: dict = {"modules": {}}
    for name, mod in sorted(mods.items()):
        m: dict = {"functions": {}, "classes": {}, "locals": {q: _stored_locals(fn) for q, _, fn in _functions_of(mod)},
                   "local_defs": {q: _first_defs(fn) for q, _, fn in _functions_of(mod)},
                   "tokens": {q: _tokens(fn) for q, _, fn in _functions_of(mod)},
                   "stmts": {q: _stmt_sigs(fn) for q, _, fn in _functions_of(mod)},
                   "constants": [t.id for node in mod.tree.body if isinstance(node, ast.Assign) for t in node.targets if isinstance(t, ast.Name)]}
        for node in mod.tree.body:
            if isinstance(node, FuncNode):
                m["functions"][node.name] = _params(node)
            elif isinstance(node, ast.ClassDef):
                m["classes"][node.name] = {
                    "methods": {x.name: _params(x) for x in node.body if isinstance(x, FuncNode) and not any("setter" in ast.unparse(d) for d in x.decorator_list)},
                    "attrs": _class_attrs(node),
                    "attr_profiles": _attr_profiles(node),
                }
        inv["modules"][name] = m
    return inv


def load_inventory() -> dict | None:
    if not INVENTORY.exists():
        return None
    return json.loads(INVENTORY.read_text())


# ---------------------------------------------------------------------------------------------------- name alignment
def _pair(removed: list[str], added: list[str], sig_old: dict[str, list[str]] | None = None, sig_new: dict[str, list[str]] | None = None) -> dict[str, str]:
    """new name -> old name for the private names that were renamed."""
    removed = [r for r in removed if _private(r)]
    added = [a for a in added if _private(a)]
    out: dict[str, str] = {}
    if not removed or not added:
        return out
    if sig_old is not None and sig_new is not None:
        # functions: the same parameter list; several with one parameter list are paired in definition order
        sigs = []
        for a in added:
            if sig_new[a] not in sigs:
                sigs.append(sig_new[a])
        for sg in sigs:
            rs = [r for r in removed if sig_old[r] == sg]
            as_ = [a for a in added if sig_new[a] == sg]
            if len(rs) == len(as_):
                out.update(dict(zip(as_, rs)))
        rest_r = [r for r in removed if r not in out.values()]
        rest_a = [a for a in added if a not in out]
        if len(rest_r) == 1 and len(rest_a) == 1 and len(sig_old[rest_r[0]]) == len(sig_new[rest_a[0]]):
            out[rest_a[0]] = rest_r[0]
        return out
    if len(removed) == len(added):
        # attributes: k-th removed <-> k-th added (both lists are in order of first store)
        return dict(zip(added, removed))
    return out


def compute_renames(mods: dict[str, Module], inv: dict) -> dict[str, str]:
    cur = inventory_of(mods)
    ren: dict[str, str] = {}
    conflicts: set[str] = set()

    def add(mapping: dict[str, str]) -> None:
        for new, old in mapping.items():
            if new in ren and ren[new] != old:
                conflicts.add(new)
            ren[new] = old

    def priv(xs) -> list[str]:
        return [x for x in xs if _private(x)]

    # pass 1: functions and methods, by what their bodies mention (their own names are masked out)
    for mname, old_m in inv["modules"].items():
        new_m = cur["modules"].get(mname)
        if new_m is None:
            continue
        of, nf = old_m["functions"], new_m["functions"]
        rem, add_ = priv([x for x in of if x not in nf]), priv([x for x in nf if x not in of])
        add(_mutual_best(rem, add_, {r: old_m["tokens"].get(r, []) for r in rem}, {a: new_m["tokens"].get(a, []) for a in add_}))
        for cname, old_c in old_m["classes"].items():
            new_c = new_m["classes"].get(cname)
            if new_c is None:
                continue
            om, nm = old_c["methods"], new_c["methods"]
            rem, add_ = priv([x for x in om if x not in nm]), priv([x for x in nm if x not in om])
            # vocabulary without the renamed names themselves (a renamed helper calls its renamed sibling)
            mask = {"." + x for x in [*rem, *add_]} | set(rem) | set(add_)
            osig = {r: [t for t in old_m["tokens"].get(f"{cname}.{r}", []) if t not in mask] for r in rem}
            nsig = {a: [t for t in new_m["tokens"].get(f"{cname}.{a}", []) if t not in mask] for a in add_}
            add(_mutual_best(rem, add_, osig, nsig))
    # pass 2: attributes, by where and how the class uses them (method names already mapped back)
    back = dict(ren)
    for mname, old_m in inv["modules"].items():
        new_m = cur["modules"].get(mname)
        if new_m is None:
            continue
        for cname, old_c in old_m["classes"].items():
            new_c = new_m["classes"].get(cname)
            if new_c is None:
                continue
            oa, na = old_c["attrs"], new_c["attrs"]
            rem, add_ = priv([x for x in oa if x not in na]), priv([x for x in na if x not in oa])
            if not rem or not add_:
                continue
            mask = set(rem) | set(add_)

            def norm(profile: list[str], names: dict[str, str]) -> list[str]:
                out = []
                for item in profile:
                    meth, _, rest = item.partition(":")
                    for x in mask:
                        rest = rest.replace(x, "_")
                    out.append(f"{names.get(meth, meth)}:{rest}")
                return out
            osig = {r: norm(old_c.get("attr_profiles", {}).get(r, []), {}) for r in rem}
            nsig = {a: norm(new_c.get("attr_profiles", {}).get(a, []), back) for a in add_}
            mb = _mutual_best(rem, add_, osig, nsig, floor=0.34)
            # completion: once the confident pairs are taken out, a single removed and a single added attribute left over are each other's rename
            left_r, left_a = [r for r in rem if r not in mb.values()], [a for a in add_ if a not in mb]
            if len(left_r) == 1 and len(left_a) == 1 and _jaccard(osig[left_r[0]], nsig[left_a[0]]) >= 0.1:
                mb[left_a[0]] = left_r[0]
            add(mb)
    for c in conflicts:
        ren.pop(c, None)
    # a rename back must not collide with a name that still exists next to the new one
    all_new_names: dict[str, set[str]] = {}
    for mname, m in cur["modules"].items():
        for cname, c in m["classes"].items():
            all_new_names[f"{mname}.{cname}"] = set(c["methods"]) | set(c["attrs"])
        all_new_names[mname] = set(m["functions"])
    for new, old in list(ren.items()):
        if any(new in names and old in names for names in all_new_names.values()):
            ren.pop(new)
    return ren


def apply_renames(mods: dict[str, Module], ren: dict[str, str]) -> None:
    if not ren:
        return
    for mod in mods.values():
        if not any(k in mod.source for k in ren):
            continue
        for n in ast.walk(mod.tree):
            if isinstance(n, ast.Attribute) and n.attr in ren:
                n.attr = ren[n.attr]
            elif isinstance(n, FuncNode) and n.name in ren:
                n.name = ren[n.name]
            elif isinstance(n, ast.Name) and n.id in ren:
                n.id = ren[n.id]
            elif isinstance(n, ast.alias):
                if n.name in ren:
                    n.name = ren[n.name]
                if n.asname in ren:
                    n.asname = ren[n.asname]
            elif isinstance(n, ast.keyword) and n.arg in ren and False:
                pass


# ---------------------------------------------------------------------------------------------------- helper inlining
def _contains_return(stmts: list[ast.stmt]) -> bool:
    return any(isinstance(n, ast.Return) for st in stmts for n in ast.walk(st))


def _single_exit(block: list[ast.stmt], rv: str, depth: int = 0):
    """(block without `return`, always_returns): every `return e` becomes `rv = e` and what followed a returning branch moves into the other branch.
    None when a return sits inside a loop / try / with (no structured rewrite)."""
    if depth > 12:
        return None
    out: list[ast.stmt] = []
    for i, st in enumerate(block):
        if isinstance(st, ast.Return):
            out.append(ast.copy_location(ast.Assign(targets=[ast.Name(id=rv, ctx=ast.Store())], value=st.value or ast.Constant(value=None)), st))
            return out, True
        if isinstance(st, ast.If) and _contains_return([st]):
            rest = block[i + 1:]
            a = _single_exit([*[_clone(x) for x in st.body], *[_clone(x) for x in rest]] if _contains_return(st.body) else [*st.body, *[_clone(x) for x in rest]], rv, depth + 1)
            b = _single_exit([*[_clone(x) for x in st.orelse], *[_clone(x) for x in rest]], rv, depth + 1)
            if a is None or b is None:
                return None
            new = ast.copy_location(ast.If(test=st.test, body=a[0] or [ast.Pass()], orelse=b[0]), st)
            out.append(new)
            return out, a[1] and b[1]
        if isinstance(st, ast.With) and _contains_return([st]):
            # `with cm: ...; return e` - leaving the block by return or by falling off its end runs the same exit: allowed when the block always returns
            inner = _single_exit(st.body, rv, depth + 1)
            if inner is None or not inner[1]:
                return None
            new_with = ast.copy_location(ast.With(items=st.items, body=inner[0]), st)
            out.append(new_with)
            return out, True
        if isinstance(st, (ast.For, ast.While, ast.Try, ast.With, ast.Match)) and _contains_return([st]):
            return None
        out.append(st)
    return out, False


class _Helper:
    def __init__(self, mod: Module, cls: ast.ClassDef | None, node: ast.FunctionDef) -> None:
        self.mod, self.cls, self.node = mod, cls, node
        decos = [ast.unparse(d) for d in node.decorator_list]
        self.static = "staticmethod" in decos
        self.tail_ok = False
        self.raw_body: list[ast.stmt] = []
        self.ok = all(d in ("staticmethod",) for d in decos) and not node.args.vararg and not node.args.kwarg and not isinstance(node, ast.AsyncFunctionDef)
        body = [s for s in node.body if not (isinstance(s, ast.Expr) and isinstance(s.value, ast.Constant))]
        if len(body) == 1 and isinstance(body[0], ast.For) and not body[0].orelse and len(body[0].body) == 1 and isinstance(body[0].body[0], ast.Expr) \
                and isinstance(body[0].body[0].value, ast.Yield) and body[0].body[0].value.value is not None and not decos:
            # a generator helper `for x in xs: yield e` is the generator expression `(e for x in xs)` wherever it is called
            lp_ = body[0]
            gen_ = ast.GeneratorExp(elt=lp_.body[0].value.value, generators=[ast.comprehension(target=lp_.target, iter=lp_.iter, ifs=[], is_async=0)])
            body = [ast.copy_location(ast.Return(value=gen_), lp_)]
            ast.fix_missing_locations(body[0])
        self.body = body
        inner = [n for s in body for n in ast.walk(s)]
        if any(isinstance(n, (ast.Yield, ast.YieldFrom, ast.Await, ast.Global, ast.Nonlocal, *FuncNode, ast.ClassDef)) for n in inner):
            self.ok = False
        rets = [n for n in inner if isinstance(n, ast.Return)]
        self.ret: ast.expr | None = None
        if rets:
            if len(rets) != 1 or not body or rets[0] is not body[-1]:
                # guard clauses / if-else trees of returns: rewritten to a single exit through a result variable
                rv = f"{node.name.strip('_')}__result"
                conv = _single_exit(body, rv) if self.ok else None
                if conv is None:
                    # returns the single-exit form cannot express (inside loops / try): the helper can still replace a `return helper(...)` of its caller
                    # wholesale - its returns become the caller's
                    self.tail_ok = self.ok
                    self.raw_body = body
                    self.ok = False
                else:
                    new_body, always = conv
                    pre = [] if always else [ast.Assign(targets=[ast.Name(id=rv, ctx=ast.Store())], value=ast.Constant(value=None))]
                    body = [*pre, *new_body, ast.Return(value=ast.Name(id=rv, ctx=ast.Load()))]
                    for st in body:
                        ast.copy_location(st, node)
                        ast.fix_missing_locations(st)
                    self.body = body
                    self.ret = body[-1].value
            else:
                self.ret = rets[0].value or ast.Constant(value=None)
        pos = [a.arg for a in [*node.args.posonlyargs, *node.args.args]]
        self.self_name = pos[0] if cls is not None and not self.static and pos else None
        self.pos = pos[1:] if self.self_name else pos
        self.kwonly = [a.arg for a in node.args.kwonlyargs]
        d = node.args.defaults
        self.defaults: dict[str, ast.expr] = dict(zip(pos[len(pos) - len(d):], d)) if d else {}
        self.defaults.update({a: v for a, v in zip(self.kwonly, node.args.kw_defaults) if v is not None})
        # straight-line expression helper: single assignments to fresh locals + the final return
        self.expr_helper = self.ok and self.ret is not None and all(
            isinstance(s, ast.Assign) and len(s.targets) == 1 and isinstance(s.targets[0], ast.Name) for s in body[:-1])
        if self.expr_helper:
            names = [s.targets[0].id for s in body[:-1]]  # type: ignore[union-attr]
            if len(set(names)) != len(names) or set(names) & set(pos) | set(names) & set(self.kwonly):
                self.expr_helper = False

    def locals(self) -> set[str]:
        out = set()
        for s in self.body:
            for n in ast.walk(s):
                if isinstance(n, ast.Name) and isinstance(n.ctx, ast.Store):
                    out.add(n.id)
        return out


PURE_WRAPPERS = {"delayed", "joblib.delayed"}     # wrapper factories: the wrapper they return is as good as a fresh one wherever it is used


def _simple(e: ast.expr) -> bool:
    if isinstance(e, (ast.Name, ast.Constant)):
        return True
    if isinstance(e, ast.Attribute):
        return _simple(e.value)
    if isinstance(e, ast.Call) and not e.keywords and len(e.args) == 1 and _simple(e.args[0]) and isinstance(e.func, (ast.Name, ast.Attribute)) \
            and (ast.unparse(e.func) in PURE_WRAPPERS):
        return True
    return False


def _clone(node):
    """Structural copy of an AST (fields and positions only: the `_parent` back links must not be followed)."""
    if isinstance(node, list):
        return [_clone(x) for x in node]
    if not isinstance(node, ast.AST):
        return node
    new = type(node)()
    for f in node._fields:
        if hasattr(node, f):
            setattr(new, f, _clone(getattr(node, f)))
    for a in ("lineno", "col_offset", "end_lineno", "end_col_offset"):
        if hasattr(node, a):
            setattr(new, a, getattr(node, a))
    return new


class _Subst(ast.NodeTransformer):
    def __init__(self, mapping: dict[str, ast.expr]) -> None:
        self.mapping = mapping

    def visit_Name(self, node: ast.Name):  # noqa: N802
        if node.id in self.mapping:
            new = _clone(self.mapping[node.id])
            if isinstance(node.ctx, ast.Store):
                if isinstance(new, ast.Name):
                    return ast.copy_location(ast.Name(id=new.id, ctx=ast.Store()), node)
                return node
            return ast.copy_location(new, node)
        return node


def _uses(body: list[ast.stmt], name: str) -> tuple[int, bool]:
    """(number of loads, stored?) of `name` in the helper body; loads inside loops/comprehensions count double."""
    loads, stored = 0, False
    for s in body:
        for n in ast.walk(s):
            if isinstance(n, ast.Name) and n.id == name:
                if isinstance(n.ctx, ast.Store):
                    stored = True
                else:
                    loads += 1
        for lp in ast.walk(s):
            if isinstance(lp, (ast.For, ast.While, ast.ListComp, ast.GeneratorExp, ast.SetComp, ast.DictComp, ast.Lambda)):
                loads += sum(1 for n in ast.walk(lp) if isinstance(n, ast.Name) and n.id == name and isinstance(n.ctx, ast.Load))
    return loads, stored


def _bind(h: _Helper, call: ast.Call) -> dict[str, ast.expr] | None:
    if any(isinstance(a, ast.Starred) for a in call.args) or any(k.arg is None for k in call.keywords) or len(call.args) > len(h.pos):
        return None
    b: dict[str, ast.expr] = dict(zip(h.pos, call.args))
    for k in call.keywords:
        if k.arg in b or (k.arg not in h.pos and k.arg not in h.kwonly):
            return None
        b[k.arg] = k.value  # type: ignore[index]
    for p in [*h.pos, *h.kwonly]:
        if p not in b:
            if p not in h.defaults:
                return None
            b[p] = h.defaults[p]
    return b


def _bring_names_along(target: Module, source: Module, nodes: list[ast.AST]) -> None:
    """Code inlined from `source` into `target` keeps referring to `source`'s module-level names: every such name that `target` does not bind itself is
    imported into `target` the way `source` sees it (so that call resolution in the canonical tree finds the same callee)."""
    if target is source:
        return
    def top_names(mod: Module) -> dict[str, ast.stmt]:
        out: dict[str, ast.stmt] = {}
        for st in mod.tree.body:
            if isinstance(st, (ast.Import, ast.ImportFrom)):
                for a in st.names:
                    out[(a.asname or a.name).split(".")[0]] = st
            elif isinstance(st, (*FuncNode, ast.ClassDef)):
                out[st.name] = st
            elif isinstance(st, (ast.Assign, ast.AnnAssign)):
                for t in (st.targets if isinstance(st, ast.Assign) else [st.target]):
                    if isinstance(t, ast.Name):
                        out[t.id] = st
            elif isinstance(st, ast.If):  # `if TYPE_CHECKING:` imports
                for s2 in st.body:
                    if isinstance(s2, (ast.Import, ast.ImportFrom)):
                        for a in s2.names:
                            out.setdefault((a.asname or a.name).split(".")[0], s2)
        return out
    have, src_names = top_names(target), top_names(source)
    used = {n.id for x in nodes for n in ast.walk(x) if isinstance(n, ast.Name) and isinstance(n.ctx, ast.Load)}
    for nm in sorted(used):
        if nm in have or nm not in src_names:
            continue
        st = src_names[nm]
        if isinstance(st, ast.ImportFrom):
            al = next(a for a in st.names if (a.asname or a.name) == nm)
            new = ast.ImportFrom(module=st.module, names=[ast.alias(name=al.name, asname=al.asname)], level=st.level)
            if st.level:  # relative import: make it absolute from the source module's package
                pkg = source.name.rsplit(".", st.level)[0]
                new = ast.ImportFrom(module=f"{pkg}.{st.module}" if st.module else pkg, names=new.names, level=0)
        elif isinstance(st, ast.Import):
            al = next(a for a in st.names if (a.asname or a.name).split(".")[0] == nm)
            new = ast.Import(names=[ast.alias(name=al.name, asname=al.asname)])
        else:
            new = ast.ImportFrom(module=source.name, names=[ast.alias(name=nm, asname=None)], level=0)
        ast.fix_missing_locations(new)
        # after the module docstring / __future__ imports
        pos = 0
        for i, b in enumerate(target.tree.body):
            if (isinstance(b, ast.Expr) and isinstance(b.value, ast.Constant)) or (isinstance(b, ast.ImportFrom) and b.module == "__future__"):
                pos = i + 1
        target.tree.body.insert(pos, new)
        have[nm] = new


def _first_evaluated_call(e: ast.expr) -> ast.Call | None:
    """The call of `e` that completes first in evaluation order, provided nothing observable (another call, a subscript
    load, an attribute load of a non-name) completes before it and it is evaluated unconditionally; None otherwise."""
    found: list[ast.Call | None] = []

    def walk(n: ast.AST, conditional: bool) -> bool:
        """Visit in evaluation order; True = stop."""
        if isinstance(n, (ast.Lambda, ast.GeneratorExp, ast.ListComp, ast.SetComp, ast.DictComp, ast.Await, ast.Yield, ast.YieldFrom, ast.NamedExpr, ast.Starred)):
            found.append(None)
            return True
        if isinstance(n, ast.BoolOp):
            if walk(n.values[0], conditional):
                return True
            return any(walk(v, True) for v in n.values[1:])
        if isinstance(n, ast.IfExp):
            if walk(n.test, conditional):
                return True
            return walk(n.body, True) or walk(n.orelse, True)
        if isinstance(n, ast.Compare) and len(n.ops) > 1:
            found.append(None)
            return True
        for c in ast.iter_child_nodes(n):
            if isinstance(c, (ast.expr_context, ast.operator, ast.unaryop, ast.cmpop, ast.boolop)):
                continue
            if walk(c, conditional):
                return True
        if isinstance(n, ast.Call):
            found.append(None if conditional else n)
            return True
        if isinstance(n, ast.Subscript) or (isinstance(n, ast.Attribute) and not isinstance(n.value, ast.Name)):
            found.append(None)
            return True
        return False

    walk(e, False)
    return found[0] if found else None


def _replace_node(root: ast.AST, old: ast.AST, new: ast.AST) -> None:
    for n in ast.walk(root):
        for fld, val in ast.iter_fields(n):
            if val is old:
                setattr(n, fld, new)
                return
            if isinstance(val, list):
                for i, x in enumerate(val):
                    if x is old:
                        val[i] = new
                        return


class Inliner:
    def __init__(self, mods: dict[str, Module], inv: dict) -> None:
        self.mods = mods
        self.inv = inv
        self.helpers: dict[tuple[str, str | None, str], _Helper] = {}
        self.log: list[str] = []
        self._uid = 0
        self.bases: dict[str, list[str]] = {}
        defs: dict[str, int] = {}
        for mod in mods.values():
            for node in ast.walk(mod.tree):
                if isinstance(node, FuncNode):
                    defs[node.name] = defs.get(node.name, 0) + 1
        for mod in mods.values():
            old = inv["modules"].get(mod.name)
            for node in mod.tree.body:
                if isinstance(node, FuncNode) and (old is None or node.name not in old["functions"]):
                    self.helpers[(mod.name, None, node.name)] = _Helper(mod, None, node)
                elif isinstance(node, ast.ClassDef):
                    self.bases[node.name] = [ast.unparse(b).split(".")[-1].split("[")[0] for b in node.bases]
                    oc = old["classes"].get(node.name) if old is not None else None
                    if oc is None:
                        continue
                    for x in node.body:
                        if isinstance(x, FuncNode) and x.name not in oc["methods"] and _private(x.name) and not (x.name.startswith("__")) \
                                and all(ast.unparse(d) == "staticmethod" for d in x.decorator_list):
                            self.helpers[(mod.name, node.name, x.name)] = _Helper(mod, node, x)
        # a helper name defined more than once in the package (overrides, homonyms) is not inlined
        self.helpers = {k: h for k, h in self.helpers.items() if (h.ok or h.tail_ok) and defs.get(k[2], 0) == 1}

    def _ancestors(self, cname: str) -> set[str]:
        out, work = set(), [cname]
        while work:
            c = work.pop()
            if c in out:
                continue
            out.add(c)
            work.extend(self.bases.get(c, []))
        return out

    def _target(self, mod: Module, cls: ast.ClassDef | None, fn: ast.FunctionDef, call: ast.Call) -> _Helper | None:
        f = call.func
        if isinstance(f, ast.Name):
            h = self.helpers.get((mod.name, None, f.id))
            if h is not None:
                return h
            # imported from another module of the package
            for (m, c, n), hh in self.helpers.items():
                if c is None and n == f.id and any(isinstance(x, ast.ImportFrom) and any(a.name == n and (a.asname or n) == f.id for a in x.names) for x in ast.walk(mod.tree)):
                    return hh
            return None
        if isinstance(f, ast.Attribute) and isinstance(f.value, ast.Name) and cls is not None:
            ps = _params(fn)
            me = ps[0] if ps else None
            for (m, c, n), hh in self.helpers.items():
                if c is not None and n == f.attr:
                    recv_ok = (f.value.id == me and c in self._ancestors(cls.name)) or (hh.static and f.value.id in (c, me))
                    if not recv_ok and c in self._ancestors(cls.name) and f.value.id != me:
                        # the receiver is a local bound once to a fresh instance of the enclosing class: `obj = cls(...)` in a classmethod / `obj = Cls(...)`
                        binds = [n for n in ast.walk(fn) if isinstance(n, ast.Assign) and any(isinstance(t, ast.Name) and t.id == f.value.id for t in n.targets)]
                        stores = sum(1 for n in ast.walk(fn) if isinstance(n, ast.Name) and n.id == f.value.id and isinstance(n.ctx, ast.Store))
                        if len(binds) == 1 and stores == 1 and isinstance(binds[0].value, ast.Call) and isinstance(binds[0].value.func, ast.Name) \
                                and binds[0].value.func.id in ((me,) if any(ast.unparse(d) == "classmethod" for d in fn.decorator_list) else ()) + (cls.name,):
                            recv_ok = True
                    if recv_ok:
                        return hh
        return None

    def run(self) -> None:
        if not self.helpers:
            return
        for _ in range(3):
            changed = False
            for mod in self.mods.values():
                for cls, fn in self._functions(mod):
                    if any(h.node is fn for h in self.helpers.values()) and False:
                        continue
                    if self._inline_in(mod, cls, fn):
                        changed = True
            if not changed:
                break
        self._drop_unreferenced_helpers()
        for mod in self.mods.values():
            ast.fix_missing_locations(mod.tree)
            for node in ast.walk(mod.tree):
                for child in ast.iter_child_nodes(node):
                    child._parent = node  # type: ignore[attr-defined]
            mod.tree._parent = None  # type: ignore[attr-defined]

    def _drop_unreferenced_helpers(self) -> None:
        """A new private helper whose every call was inlined is no longer part of the program the rules read."""
        for (mname, cname, name), h in list(self.helpers.items()):
            if not _private(name):
                continue
            refs = 0
            for mod in self.mods.values():
                for n in ast.walk(mod.tree):
                    if (isinstance(n, ast.Attribute) and n.attr == name) or (isinstance(n, ast.Name) and n.id == name) or (isinstance(n, ast.alias) and n.name == name):
                        if not any(x is n for x in ast.walk(h.node)):
                            refs += 1
            if refs == 0:
                owner = h.cls.body if h.cls is not None else h.mod.tree.body
                if h.node in owner and len(owner) > 1:
                    owner.remove(h.node)
                    self.log.append(f"{h.mod.relpath}: dropped fully inlined helper {name}()")

    def _functions(self, mod: Module):
        for node in mod.tree.body:
            if isinstance(node, FuncNode):
                yield None, node
            elif isinstance(node, ast.ClassDef):
                for x in node.body:
                    if isinstance(x, FuncNode):
                        yield node, x

    def _inline_in(self, mod: Module, cls: ast.ClassDef | None, fn: ast.FunctionDef) -> bool:
        changed = False
        self._cur_mod = mod
        caller_names = {n.id for n in ast.walk(fn) if isinstance(n, ast.Name)} | set(_params(fn))

        def rewrite_block(stmts: list[ast.stmt]) -> list[ast.stmt]:
            nonlocal changed
            out: list[ast.stmt] = []
            for s in stmts:
                # nested blocks first
                for fld in ("body", "orelse", "finalbody"):
                    if hasattr(s, fld) and isinstance(getattr(s, fld), list) and getattr(s, fld) and isinstance(getattr(s, fld)[0], ast.stmt) and not isinstance(s, (*FuncNode, ast.ClassDef)):
                        setattr(s, fld, rewrite_block(getattr(s, fld)))
                if isinstance(s, ast.Try):
                    for hd in s.handlers:
                        hd.body = rewrite_block(hd.body)
                if isinstance(s, ast.Match):
                    for c in s.cases:
                        c.body = rewrite_block(c.body)
                if isinstance(s, ast.If):
                    tcall = s.test.operand if isinstance(s.test, ast.UnaryOp) and isinstance(s.test.op, ast.Not) else s.test
                    th = self._target(mod, cls, fn, tcall) if isinstance(tcall, ast.Call) else None
                    if th is not None and th.ok and th.node is not fn and th.ret is not None:
                        self._uid += 1
                        tmp = f"{th.node.name.strip('_')}__value{self._uid}"
                        pre_stmt = ast.copy_location(ast.Assign(targets=[ast.Name(id=tmp, ctx=ast.Store())], value=tcall), s)
                        ast.fix_missing_locations(pre_stmt)
                        rep = self._expand_stmt(th, pre_stmt, tcall, fn, caller_names)
                        if rep is not None:
                            ref = ast.copy_location(ast.Name(id=tmp, ctx=ast.Load()), tcall)
                            if tcall is s.test:
                                s.test = ref
                            else:
                                s.test.operand = ref  # type: ignore[union-attr]
                            out.extend(rep)
                            changed = True
                            self.log.append(f"{mod.relpath}:{s.lineno} {fn.name}: inlined new helper {th.node.name}() out of an if-test")
                call = self._stmt_call(s)
                h = self._target(mod, cls, fn, call) if call is not None else None
                if h is None and isinstance(s, (ast.Expr, ast.Assign, ast.AnnAssign, ast.AugAssign, ast.Return)) and getattr(s, "value", None) is not None:
                    # a statement helper called inside the statement's expression, evaluated before anything else that could observe or be
                    # observed by it: `return table[_indices(table, values)]` reads as `t = _indices(table, values); return table[t]`
                    first = _first_evaluated_call(s.value)
                    nh = self._target(mod, cls, fn, first) if first is not None and first is not s.value else None
                    if nh is not None and nh.ok and nh.node is not fn and nh.ret is not None and not nh.expr_helper \
                            and not (isinstance(s, ast.AugAssign) and not isinstance(s.target, ast.Name)) \
                            and not (isinstance(s, ast.Assign) and not all(isinstance(t, ast.Name) for t in s.targets)):
                        self._uid += 1
                        tmp = f"{nh.node.name.strip('_')}__value{self._uid}"
                        pre_stmt = ast.copy_location(ast.Assign(targets=[ast.Name(id=tmp, ctx=ast.Store())], value=first), s)
                        ast.fix_missing_locations(pre_stmt)
                        rep = self._expand_stmt(nh, pre_stmt, first, fn, caller_names)
                        if rep is not None:
                            _replace_node(s, first, ast.copy_location(ast.Name(id=tmp, ctx=ast.Load()), first))
                            out.extend(rep)
                            changed = True
                            self.log.append(f"{mod.relpath}:{s.lineno} {fn.name}: inlined new helper {nh.node.name}() out of an expression")
                if h is not None and not h.ok:
                    rep = self._expand_tail(h, s, call, fn, caller_names) if isinstance(s, ast.Return) and h.node is not fn else None  # type: ignore[arg-type]
                    if rep is not None:
                        out.extend(rep)
                        changed = True
                        self.log.append(f"{mod.relpath}:{s.lineno} {fn.name}: `return {h.node.name}(...)` replaced by the helper's body (its returns are the caller's)")
                        continue
                    h = None
                if h is not None and h.node is not fn:
                    rep = self._expand_stmt(h, s, call, fn, caller_names)  # type: ignore[arg-type]
                    if rep is not None:
                        out.extend(rep)
                        changed = True
                        self.log.append(f"{mod.relpath}:{s.lineno} {fn.name}: inlined new helper {h.node.name}()")
                        continue
                # expression helpers nested inside the statement
                if self._inline_exprs(mod, cls, fn, s):
                    changed = True
                out.append(s)
            return out

        fn.body = rewrite_block(fn.body)
        return changed

    @staticmethod
    def _stmt_call(s: ast.stmt) -> ast.Call | None:
        v = None
        if isinstance(s, ast.Expr):
            v = s.value
        elif isinstance(s, (ast.Assign, ast.AnnAssign, ast.AugAssign, ast.Return)):
            v = s.value
        return v if isinstance(v, ast.Call) else None

    def _expand_stmt(self, h: _Helper, s: ast.stmt, call: ast.Call, fn: ast.FunctionDef, caller_names: set[str]) -> list[ast.stmt] | None:
        b = _bind(h, call)
        if b is None:
            return None
        self._uid += 1
        uid = self._uid
        mapping: dict[str, ast.expr] = {}
        pre: list[ast.stmt] = []
        if h.self_name is not None:
            recv = call.func.value  # type: ignore[union-attr]
            mapping[h.self_name] = recv
        for p, arg in b.items():
            loads, stored = _uses(h.body, p)
            if not stored and (_simple(arg) or loads <= 1):
                mapping[p] = arg
            else:
                fresh = f"{p}__{h.node.name.strip('_')}{uid}"
                pre.append(ast.copy_location(ast.Assign(targets=[ast.Name(id=fresh, ctx=ast.Store())], value=_clone(arg)), s))
                mapping[p] = ast.Name(id=fresh, ctx=ast.Load())
        # `t = helper(...)` with the helper ending in `return r` (a local): the local becomes the caller's target, no alias is left behind
        direct_target: str | None = None
        if isinstance(s, ast.Assign) and len(s.targets) == 1 and isinstance(s.targets[0], ast.Name) and isinstance(h.ret, ast.Name) and h.ret.id in h.locals() \
                and h.ret.id not in b and not any(isinstance(n, ast.Name) and n.id == s.targets[0].id for a in b.values() for n in ast.walk(a)) \
                and (s.targets[0].id == h.ret.id or s.targets[0].id not in h.locals()):
            direct_target = s.targets[0].id
            mapping[h.ret.id] = ast.Name(id=direct_target, ctx=ast.Load())
        for loc in h.locals():
            if loc in mapping:
                continue
            if loc in caller_names:
                mapping[loc] = ast.Name(id=f"{loc}__{h.node.name.strip('_')}{uid}", ctx=ast.Load())
        body = [_clone(x) for x in h.body]
        sub = _Subst(mapping)
        body = [sub.visit(x) for x in body]
        for x in body:
            for n in ast.walk(x):
                if hasattr(n, "lineno"):
                    n.lineno = s.lineno  # findings point at the call site
                    n.end_lineno = getattr(s, "end_lineno", s.lineno)
        tail: list[ast.stmt] = []
        if h.ret is not None:
            ret_stmt = body.pop()
            value = ret_stmt.value if isinstance(ret_stmt, ast.Return) and ret_stmt.value is not None else ast.Constant(value=None)
        else:
            value = ast.Constant(value=None)
        if direct_target is not None:
            pass
        elif isinstance(s, ast.Expr):
            if h.ret is not None and not isinstance(value, (ast.Name, ast.Constant)):
                tail.append(ast.copy_location(ast.Expr(value=value), s))
        else:
            new = copy.copy(s)
            new.value = value  # type: ignore[attr-defined]
            tail.append(new)
        caller_names.update(n.id for x in [*pre, *body] for n in ast.walk(x) if isinstance(n, ast.Name))
        _bring_names_along(self._cur_mod, h.mod, [*body, *tail])
        return [*pre, *body, *tail]

    def _expand_tail(self, h: _Helper, s: ast.Return, call: ast.Call, fn: ast.FunctionDef, caller_names: set[str]) -> list[ast.stmt] | None:
        b = _bind(h, call)
        if b is None or not h.raw_body:
            return None
        self._uid += 1
        uid = self._uid
        mapping: dict[str, ast.expr] = {}
        pre: list[ast.stmt] = []
        if h.self_name is not None:
            mapping[h.self_name] = call.func.value  # type: ignore[union-attr]
        for p, arg in b.items():
            loads, stored = _uses(h.raw_body, p)
            if not stored and (_simple(arg) or loads <= 1) and not any(isinstance(x, (ast.For, ast.While)) for st in h.raw_body for x in ast.walk(st) if not _simple(arg)):
                mapping[p] = arg
            else:
                fresh = f"{p}__{h.node.name.strip('_')}{uid}"
                pre.append(ast.copy_location(ast.Assign(targets=[ast.Name(id=fresh, ctx=ast.Store())], value=_clone(arg)), s))
                mapping[p] = ast.Name(id=fresh, ctx=ast.Load())
        locs = {n.id for st in h.raw_body for n in ast.walk(st) if isinstance(n, ast.Name) and isinstance(n.ctx, ast.Store)}
        for loc in locs:
            if loc not in mapping and loc in caller_names:
                mapping[loc] = ast.Name(id=f"{loc}__{h.node.name.strip('_')}{uid}", ctx=ast.Load())
        sub = _Subst(mapping)
        body = [sub.visit(_clone(x)) for x in h.raw_body]
        for x in body:
            for n in ast.walk(x):
                if hasattr(n, "lineno"):
                    n.lineno = s.lineno
                    n.end_lineno = getattr(s, "end_lineno", s.lineno)
        if not isinstance(body[-1], (ast.Return, ast.Raise)):
            body.append(ast.copy_location(ast.Return(value=ast.Constant(value=None)), s))
        for x in [*pre, *body]:
            ast.fix_missing_locations(x)
        caller_names.update(n.id for x in [*pre, *body] for n in ast.walk(x) if isinstance(n, ast.Name))
        _bring_names_along(self._cur_mod, h.mod, body)
        return [*pre, *body]

    def _inline_exprs(self, mod: Module, cls: ast.ClassDef | None, fn: ast.FunctionDef, s: ast.stmt) -> bool:
        outer = self
        hit = False

        class T(ast.NodeTransformer):
            def visit_FunctionDef(self, node):  # noqa: N802
                return node

            def visit_Lambda(self, node):  # noqa: N802
                return node

            def visit_Call(self, node: ast.Call):  # noqa: N802
                nonlocal hit
                self.generic_visit(node)
                h = outer._target(mod, cls, fn, node)
                if h is None or not h.expr_helper or h.node is fn:
                    return node
                b = _bind(h, node)
                if b is None:
                    return node
                mapping: dict[str, ast.expr] = {}
                if h.self_name is not None:
                    mapping[h.self_name] = node.func.value  # type: ignore[union-attr]
                for p, arg in b.items():
                    loads, stored = _uses(h.body, p)
                    if stored or not (_simple(arg) or loads <= 1):
                        return node
                    mapping[p] = arg
                expr = _clone(h.ret)
                for st in reversed(h.body[:-1]):
                    expr = _Subst({st.targets[0].id: st.value}).visit(expr)  # type: ignore[union-attr]
                expr = _Subst(mapping).visit(expr)
                for n in ast.walk(expr):
                    if hasattr(n, "lineno"):
                        n.lineno, n.end_lineno = node.lineno, getattr(node, "end_lineno", node.lineno)
                        n.col_offset, n.end_col_offset = node.col_offset, getattr(node, "end_col_offset", node.col_offset)
                hit = True
                _bring_names_along(mod, h.mod, [expr])
                outer.log.append(f"{mod.relpath}:{node.lineno} {fn.name}: inlined new expression helper {h.node.name}()")
                return ast.copy_location(expr, node)

        # only the statement's own expressions (nested blocks were handled by the caller)
        for fld, val in ast.iter_fields(s):
            if isinstance(val, ast.expr):
                setattr(s, fld, T().visit(val))
            elif isinstance(val, list) and val and isinstance(val[0], ast.expr):
                setattr(s, fld, [T().visit(v) for v in val])
            elif isinstance(val, list) and val and isinstance(val[0], ast.withitem):
                for it in val:
                    it.context_expr = T().visit(it.context_expr)
        return hit


# ---------------------------------------------------------------------------------------------------- locals
def _pair_runs(old: list[str], new: list[str]) -> dict[str, str]:
    """new local -> old local: both lists are in order of first binding; names common to both are anchors, and between two
    anchors a run of removed names is paired with a run of added names of the same length, in order."""
    import difflib
    out: dict[str, str] = {}
    sm = difflib.SequenceMatcher(a=old, b=new, autojunk=False)
    for tag, i1, i2, j1, j2 in sm.get_opcodes():
        if tag == "replace" and (i2 - i1) == (j2 - j1):
            for o, n in zip(old[i1:i2], new[j1:j2]):
                if o not in new and n not in old:
                    out[n] = o
    return out


def align_locals(mods: dict[str, Module], inv: dict, log: list[str]) -> None:
    for mod in mods.values():
        old_m = inv["modules"].get(mod.name)
        if old_m is None or "locals" not in old_m:
            continue
        for q, _, fn in _functions_of(mod):
            old = old_m["locals"].get(q)
            if old is None:
                continue
            new = _stored_locals(fn)
            if old == new:
                continue
            ren = _pair_runs(old, new)
            # a new local that holds exactly what a vanished local held is that local under another name
            old_defs = old_m.get("local_defs", {}).get(q, {})
            new_defs = _first_defs(fn)
            for o in old:
                if o in new or o in ren.values() or o not in old_defs:
                    continue
                cands = [n_ for n_ in new if n_ not in old and n_ not in ren and new_defs.get(n_) == old_defs[o]]
                if len(cands) == 1:
                    ren[cands[0]] = o
            taken = {n.id for n in ast.walk(fn) if isinstance(n, ast.Name)} | set(_params(fn))
            ren = {n: o for n, o in ren.items() if o not in taken}
            if not ren:
                continue
            for n in ast.walk(fn):
                if isinstance(n, ast.Name) and n.id in ren:
                    n.id = ren[n.id]
            log.append(f"{mod.relpath} {q}: locals renamed back {ren}")


PURE_FUNCS = {"delayed", "len", "type", "str", "int", "float", "bool", "tuple", "range", "abs", "min", "max", "sum", "isinstance", "repr", "round", "sorted", "zip", "enumerate", "list", "dict", "set", "cast"}
PURE_METHODS = {"copy", "reshape", "astype", "sum", "mean", "min", "max", "argmin", "argmax", "argsort", "tolist", "item", "transpose", "flatten", "squeeze", "get", "keys", "values", "items",
                "index", "count", "startswith", "endswith", "format", "join", "strip", "split", "all", "any", "std", "var", "dot", "round", "clip", "nonzero", "view", "with_suffix", "exists", "to_numpy"}
IMPURE_NUMPY = {"put", "copyto", "place", "putmask", "fill", "shuffle", "seed", "save", "savetxt", "load"}


def _pure(e: ast.AST) -> bool:
    for n in ast.walk(e):
        if isinstance(n, (ast.Yield, ast.YieldFrom, ast.Await, ast.NamedExpr)):
            return False
        if isinstance(n, ast.Call):
            if any(k.arg == "out" for k in n.keywords):
                return False
            f = n.func
            if isinstance(f, ast.Name):
                if f.id not in PURE_FUNCS:
                    return False
            elif isinstance(f, ast.Attribute):
                root = f
                while isinstance(root, ast.Attribute):
                    root = root.value
                if isinstance(root, ast.Name) and root.id in ("np", "numpy", "math", "Path", "os"):
                    d = ast.unparse(f)
                    if ".random" in d or f.attr in IMPURE_NUMPY or root.id == "os" and not d.startswith("os.path."):
                        return False
                elif f.attr not in PURE_METHODS:
                    return False
                elif f.attr == "get" and (not n.args or any(k.arg in ("timeout", "block") for k in n.keywords)):
                    return False  # Queue.get() consumes a message; only the mapping form d.get(key[, default]) is a pure read
            else:
                return False
    return True


def _may_raise(e: ast.AST) -> bool:
    for n in ast.walk(e):
        if isinstance(n, ast.Subscript) and isinstance(n.ctx, ast.Load):
            return True
        if isinstance(n, ast.BinOp) and isinstance(n.op, (ast.Div, ast.FloorDiv, ast.Mod)):
            return True
        if isinstance(n, ast.Call) and not (isinstance(n.func, ast.Name) and n.func.id in ("isinstance", "type", "id", "repr", "callable", "hasattr", "cast")):
            return True
    return False


def _reads(e: ast.AST) -> tuple[set[str], set[str]]:
    names = {n.id for n in ast.walk(e) if isinstance(n, ast.Name) and isinstance(n.ctx, ast.Load)}
    attrs = {n.attr for n in ast.walk(e) if isinstance(n, ast.Attribute)}
    return names, attrs


class _Forward:
    """Forward substitution of locals that the reference tree does not have (`x = e` with `e` pure and not invalidated before the uses,
    or impure but consumed once by the very next statement): undoes 'introduce a local variable'."""

    def __init__(self, mods: dict[str, Module], inv: dict, log: list[str]) -> None:
        self.mods, self.inv, self.log = mods, inv, log
        # attributes written by each method name of the package (one level), to see through `self.m()` calls
        self.method_stores: dict[str, set[str]] = {}
        for mod in mods.values():
            for node in ast.walk(mod.tree):
                if isinstance(node, FuncNode):
                    st = {n.attr for n in ast.walk(node) if isinstance(n, ast.Attribute) and isinstance(n.ctx, ast.Store)}
                    self.method_stores.setdefault(node.name, set()).update(st)

    def run(self) -> None:
        for mod in self.mods.values():
            old_m = self.inv["modules"].get(mod.name)
            if old_m is None or "locals" not in old_m:
                continue
            for q, _, fn in _functions_of(mod):
                old = old_m["locals"].get(q)
                if old is None:
                    continue
                self._split_unpack(fn, old)
                self._thread_flags(mod, q, fn, old)
                for _ in range(60):
                    new = [x for x in _stored_locals(fn) if x not in old and not x.startswith("received__")]     # (queue reads hoisted on purpose stay statements)
                    if not new or not any([self._try(mod, q, fn, x) for x in new]):
                        break

    def _blocks(self, node: ast.AST):
        for fld in ("body", "orelse", "finalbody"):
            b = getattr(node, fld, None)
            if isinstance(b, list) and b and isinstance(b[0], ast.stmt):
                yield b
        if isinstance(node, ast.Try):
            for h in node.handlers:
                yield h.body
        if isinstance(node, ast.Match):
            for c in node.cases:
                yield c.body

    def _thread_flags(self, mod: Module, q: str, fn: ast.FunctionDef, old: list[str]) -> None:
        """`<if-tree whose every leaf ends in flag = True/False>; if flag: B else: O` with `flag` a new local used nowhere else:
        B / O move to the leaves (the flag only carried the control decision out of an inlined helper)."""
        def leaves_ok(block: list[ast.stmt], name: str) -> bool:
            if not block:
                return False
            last = block[-1]
            if isinstance(last, ast.Assign) and len(last.targets) == 1 and isinstance(last.targets[0], ast.Name) and last.targets[0].id == name:
                return isinstance(last.value, ast.Constant) and (isinstance(last.value.value, bool) or last.value.value is None) \
                    and not any(isinstance(n, ast.Name) and n.id == name for st in block[:-1] for n in ast.walk(st))
            if isinstance(last, ast.If) and last.orelse:
                return leaves_ok(last.body, name) and leaves_ok(last.orelse, name) and not any(isinstance(n, ast.Name) and n.id == name for st in block[:-1] for n in ast.walk(st)) \
                    and not any(isinstance(n, ast.Name) and n.id == name for n in ast.walk(last.test))
            return False

        def thread(block: list[ast.stmt], name: str, on_true: list[ast.stmt], on_false: list[ast.stmt]) -> None:
            last = block[-1]
            if isinstance(last, ast.Assign):
                repl = on_true if last.value.value else on_false  # type: ignore[attr-defined]
                block[-1:] = [_clone(x) for x in repl] or [ast.copy_location(ast.Pass(), last)]
            else:
                thread(last.body, name, on_true, on_false)  # type: ignore[union-attr]
                thread(last.orelse, name, on_true, on_false)  # type: ignore[union-attr]

        work: list[ast.AST] = [fn]
        while work:
            node = work.pop()
            for b in self._blocks(node):
                i = 0
                while i + 1 < len(b):
                    nxt = b[i + 1]
                    if isinstance(nxt, ast.If):
                        t = nxt.test
                        neg = isinstance(t, ast.UnaryOp) and isinstance(t.op, ast.Not)
                        nm = t.operand if neg else t
                        if isinstance(nm, ast.Name) and nm.id not in old and nm.id not in _params(fn) and isinstance(b[i], ast.If):
                            name = nm.id
                            uses = sum(1 for n in ast.walk(fn) if isinstance(n, ast.Name) and n.id == name and isinstance(n.ctx, ast.Load))
                            if uses == 1 and leaves_ok([b[i]], name):
                                on_true, on_false = (nxt.orelse, nxt.body) if neg else (nxt.body, nxt.orelse)
                                thread([b[i]], name, on_true, on_false)
                                del b[i + 1]
                                self.log.append(f"{mod.relpath}:{b[i].lineno} {q}: control flag `{name}` threaded into the branches that set it")
                                continue
                    i += 1
                for st in b:
                    if not isinstance(st, (*FuncNode, ast.ClassDef)):
                        work.append(st)

    def _split_unpack(self, fn: ast.FunctionDef, old: list[str]) -> None:
        """`a, b = e` on new locals with `e` a plain reference (or a tuple display) becomes `a = e[0]; b = e[1]`, so that each part can be substituted."""
        work: list[ast.AST] = [fn]
        while work:
            node = work.pop()
            for b in self._blocks(node):
                i = 0
                while i < len(b):
                    st = b[i]
                    if isinstance(st, ast.Assign) and len(st.targets) == 1 and isinstance(st.targets[0], (ast.Tuple, ast.List)) \
                            and all(isinstance(t, ast.Name) and t.id not in old for t in st.targets[0].elts):
                        tg = st.targets[0].elts
                        v = st.value
                        parts = None
                        if isinstance(v, (ast.Tuple, ast.List)) and len(v.elts) == len(tg) and not any(
                                isinstance(x, ast.Name) and x.id in {t.id for t in tg} for e_ in v.elts for x in ast.walk(e_)) and all(_pure(e_) for e_ in v.elts):
                            parts = list(v.elts)
                        elif _simple(v):
                            parts = [ast.Subscript(value=_clone(v), slice=ast.Constant(value=k), ctx=ast.Load()) for k in range(len(tg))]
                        if parts is not None:
                            new_stmts = [ast.copy_location(ast.Assign(targets=[ast.Name(id=t.id, ctx=ast.Store())], value=p_), st) for t, p_ in zip(tg, parts)]
                            for ns in new_stmts:
                                ast.fix_missing_locations(ns)
                            b[i:i + 1] = new_stmts
                            i += len(new_stmts)
                            continue
                    if not isinstance(st, (*FuncNode, ast.ClassDef)):
                        work.append(st)
                    i += 1

    def _find_def(self, fn: ast.FunctionDef, name: str):
        """(block, index) of the single `name = e` statement, or None."""
        hits = []
        stores = 0
        for n in ast.walk(fn):
            if isinstance(n, ast.Name) and n.id == name and isinstance(n.ctx, (ast.Store, ast.Del)):
                stores += 1
        if stores != 1:
            return None
        work = [fn]
        while work:
            node = work.pop()
            for b in self._blocks(node):
                for i, st in enumerate(b):
                    if isinstance(st, ast.Assign) and len(st.targets) == 1 and isinstance(st.targets[0], ast.Name) and st.targets[0].id == name:
                        hits.append((b, i))
                    if not isinstance(st, (*FuncNode, ast.ClassDef)):
                        work.append(st)
        return hits[0] if len(hits) == 1 else None

    def _kills(self, st: ast.stmt, names: set[str], attrs: set[str], skip_targets_of: ast.stmt | None = None) -> bool:
        for n in ast.walk(st):
            if isinstance(n, ast.Name) and isinstance(n.ctx, (ast.Store, ast.Del)) and n.id in names:
                return True
            if isinstance(n, ast.Attribute) and isinstance(n.ctx, (ast.Store, ast.Del)) and n.attr in attrs:
                return True
            if isinstance(n, ast.Subscript) and isinstance(n.ctx, (ast.Store, ast.Del)):
                root = n.value
                while isinstance(root, (ast.Subscript, ast.Attribute)):
                    if isinstance(root, ast.Attribute) and root.attr in attrs:
                        return True
                    root = root.value
                if isinstance(root, ast.Name) and root.id in names:
                    return True
            if isinstance(n, ast.AugAssign):
                t = n.target
                if isinstance(t, ast.Name) and t.id in names:
                    return True
            if isinstance(n, ast.Call) and isinstance(n.func, ast.Attribute):
                if attrs & self.method_stores.get(n.func.attr, set()):
                    return True
                # in-place method on a read name
                if n.func.attr in ("append", "extend", "sort", "fill", "update", "pop", "clear", "insert", "remove", "resize", "put") and isinstance(n.func.value, ast.Name) and n.func.value.id in names:
                    return True
        return False

    @staticmethod
    def _mutated(stmts: list[ast.stmt], name: str) -> bool:
        """The object held by `name` may be modified in place (then every use must see the same object: no duplication)."""
        for st in stmts:
            for n in ast.walk(st):
                if isinstance(n, (ast.Subscript, ast.Attribute)) and isinstance(n.ctx, (ast.Store, ast.Del)):
                    root = n.value
                    while isinstance(root, (ast.Subscript, ast.Attribute)):
                        root = root.value
                    if isinstance(root, ast.Name) and root.id == name:
                        return True
                if isinstance(n, ast.Call):
                    if isinstance(n.func, ast.Attribute) and isinstance(n.func.value, ast.Name) and n.func.value.id == name and n.func.attr not in PURE_METHODS:
                        return True
                    if not _pure(n) and any(isinstance(a, ast.Name) and a.id == name for a in [*n.args, *[k.value for k in n.keywords]]):
                        return True
        return False

    def _try(self, mod: Module, q: str, fn: ast.FunctionDef, name: str) -> bool:
        found = self._find_def(fn, name)
        if found is None:
            return False
        block, i = found
        d = block[i]
        e = d.value  # type: ignore[attr-defined]
        loads = [n for n in ast.walk(fn) if isinstance(n, ast.Name) and n.id == name and isinstance(n.ctx, ast.Load)]
        if not loads:
            return False
        # every use must lie in a later sibling of the definition (the definition dominates it)
        later = block[i + 1:]
        where: dict[int, int] = {}
        for k, st in enumerate(later):
            for n in ast.walk(st):
                where[id(n)] = k
        if any(id(n) not in where for n in loads):
            return False
        # uses inside nested functions / lambdas would capture the variable: leave those alone
        for st in later:
            for n in ast.walk(st):
                if isinstance(n, (*FuncNode, ast.Lambda)) and any(isinstance(x, ast.Name) and x.id == name for x in ast.walk(n)):
                    return False
        last = max(where[id(n)] for n in loads)
        if len(loads) > 1 and not _simple(e) and self._mutated(later, name):
            return False
        names, attrs = _reads(e)
        names.discard(name)
        if _pure(e) or isinstance(e, ast.GeneratorExp) and len(loads) == 1 and _pure(ast.Tuple(elts=[g.iter for g in e.generators][:1], ctx=ast.Load())):
            if isinstance(e, ast.GeneratorExp) and len(loads) != 1:
                return False
            # an expression that can fail (an element read, a division, a call) is evaluated where it stands: moving it past a statement that can leave the
            # function changes which error a bad input meets first (`n = len(x[0])` before `if len(x) != 2: raise ...`)
            if _may_raise(e) and any(isinstance(x, (ast.Raise, ast.Return)) for st in later[:last] for x in ast.walk(st)):
                return False
            for k, st in enumerate(later[: last + 1]):
                direct_use = k == last and not isinstance(st, (ast.For, ast.While))
                if self._kills(st, names, attrs):
                    # a statement that stores a read location *after* evaluating the use (its own target) is fine when it is the last user and not a loop
                    if direct_use and isinstance(st, (ast.Assign, ast.AugAssign, ast.AnnAssign)) and not self._kills(ast.Expr(value=st.value), names, attrs) \
                            and not any(isinstance(x, ast.Name) and x.id == name for t in (st.targets if isinstance(st, ast.Assign) else [st.target]) for x in ast.walk(t)):
                        continue
                    return False
        else:
            # impure: one use, in the very next statement, evaluated before any other impure call of that statement
            if len(loads) != 1 or last != 0:
                return False
            use_stmt = later[0]
            if isinstance(use_stmt, (ast.For, ast.While, ast.If, ast.With, ast.Try)):
                return False
            u = loads[0]
            enclosing = set()
            for n in ast.walk(use_stmt):
                if isinstance(n, ast.Call) and any(x is u for x in ast.walk(n)):
                    enclosing.add(id(n))
            for n in ast.walk(use_stmt):
                if isinstance(n, ast.Call) and id(n) not in enclosing and not _pure(n):
                    return False
            if any(isinstance(n, (ast.ListComp, ast.GeneratorExp, ast.SetComp, ast.DictComp, ast.Lambda)) and any(x is u for x in ast.walk(n)) for n in ast.walk(use_stmt)):
                return False
        sub = _Subst({name: e})
        for k in range(last + 1):
            later[k] = sub.visit(later[k])
        block[i + 1:i + 1 + last + 1] = later[: last + 1]
        del block[i]
        if not block:
            block.append(ast.copy_location(ast.Pass(), d))
        self.log.append(f"{mod.relpath}:{d.lineno} {q}: new local `{name}` substituted into its {len(loads)} use(s)")
        return True


# ---------------------------------------------------------------------------------------------------- small structural canonical forms
class _FoldInt(ast.NodeTransformer):
    """`3 + 1` -> `4` for integer literals (indices spelled relative to an unrolled loop variable)."""

    def visit_BinOp(self, node: ast.BinOp):  # noqa: N802
        self.generic_visit(node)
        l, r = node.left, node.right
        if isinstance(l, ast.Constant) and isinstance(r, ast.Constant) and type(l.value) is int and type(r.value) is int and isinstance(node.op, (ast.Add, ast.Sub, ast.Mult)):
            v = l.value + r.value if isinstance(node.op, ast.Add) else l.value - r.value if isinstance(node.op, ast.Sub) else l.value * r.value
            return ast.copy_location(ast.Constant(value=v), node)
        return node


def _fold_int_arith(node):
    return ast.fix_missing_locations(_FoldInt().visit(node))


def _unroll_literal_loops(mods: dict[str, Module], log: list[str]) -> None:
    """`for a, b in ((x1, y1), (x2, y2)): body` (a literal display of at most 8 items, no break/continue/else) is read as the unrolled statement sequence."""
    for mod in mods.values():
        for q, _, fn in _functions_of(mod):
            work: list[ast.AST] = [fn]
            while work:
                node = work.pop()
                for fld in ("body", "orelse", "finalbody"):
                    b = getattr(node, fld, None)
                    if not (isinstance(b, list) and b and isinstance(b[0], ast.stmt)):
                        continue
                    i = 0
                    while i < len(b):
                        st = b[i]
                        # `{k1: v1, ...}.items()` of a literal dict is the display of its (key, value) pairs
                        if isinstance(st, ast.For) and isinstance(st.iter, ast.Call) and isinstance(st.iter.func, ast.Attribute) and st.iter.func.attr in ("items", "values", "keys") \
                                and not st.iter.args and not st.iter.keywords and isinstance(st.iter.func.value, ast.Dict) and st.iter.func.value.keys \
                                and all(k is not None for k in st.iter.func.value.keys) and len(st.iter.func.value.keys) <= 24:
                            d_ = st.iter.func.value
                            kind_ = st.iter.func.attr
                            elts_ = [ast.Tuple(elts=[k, v], ctx=ast.Load()) if kind_ == "items" else (k if kind_ == "keys" else v) for k, v in zip(d_.keys, d_.values)]
                            st.iter = ast.copy_location(ast.Tuple(elts=elts_, ctx=ast.Load()), st.iter)
                        # `range(a, b[, c])` over integer literals with at most 24 values is the display of those values
                        if isinstance(st, ast.For) and isinstance(st.iter, ast.Call) and isinstance(st.iter.func, ast.Name) and st.iter.func.id == "range" and not st.iter.keywords \
                                and 1 <= len(st.iter.args) <= 3 and all(isinstance(a, ast.Constant) and isinstance(a.value, int) and not isinstance(a.value, bool) for a in st.iter.args):
                            vals_ = list(range(*[a.value for a in st.iter.args])) if not (len(st.iter.args) == 3 and st.iter.args[2].value == 0) else []
                            if 1 <= len(vals_) <= 24:
                                st.iter = ast.copy_location(ast.Tuple(elts=[ast.Constant(value=v_) for v_ in vals_], ctx=ast.Load()), st.iter)
                        # `zip(<display>, <display>)` / `enumerate(<display>)` of literal displays of equal length are the display of their item tuples
                        if isinstance(st, ast.For) and isinstance(st.iter, ast.Call) and isinstance(st.iter.func, ast.Name) and not st.iter.keywords:
                            fnm, za = st.iter.func.id, st.iter.args
                            if fnm == "zip" and len(za) >= 2 and all(isinstance(a, (ast.Tuple, ast.List)) and not any(isinstance(x, ast.Starred) for x in a.elts) for a in za) \
                                    and len({len(a.elts) for a in za}) == 1 and 1 <= len(za[0].elts) <= 24:
                                st.iter = ast.copy_location(ast.Tuple(elts=[ast.Tuple(elts=[a.elts[k] for a in za], ctx=ast.Load()) for k in range(len(za[0].elts))], ctx=ast.Load()), st.iter)
                            elif fnm == "enumerate" and len(za) == 1 and isinstance(za[0], (ast.Tuple, ast.List)) and 1 <= len(za[0].elts) <= 24 and not any(isinstance(x, ast.Starred) for x in za[0].elts):
                                st.iter = ast.copy_location(ast.Tuple(elts=[ast.Tuple(elts=[ast.Constant(value=k), x], ctx=ast.Load()) for k, x in enumerate(za[0].elts)], ctx=ast.Load()), st.iter)
                        if isinstance(st, ast.For) and isinstance(st.iter, (ast.Tuple, ast.List)) and 1 <= len(st.iter.elts) <= 24 and not st.orelse \
                                and not any(isinstance(n, (ast.Break, ast.Continue)) for n in ast.walk(st)):
                            tg = st.target
                            names = [tg] if isinstance(tg, ast.Name) else list(tg.elts) if isinstance(tg, (ast.Tuple, ast.List)) and all(isinstance(x, ast.Name) for x in tg.elts) else None
                            items = st.iter.elts
                            ok = names is not None and all(
                                (isinstance(tg, ast.Name) and _simple(it)) or (not isinstance(tg, ast.Name) and isinstance(it, (ast.Tuple, ast.List)) and len(it.elts) == len(names)
                                                                                 and all(_simple(x) for x in it.elts)) for it in items)
                            # the loop variables must not be assigned in the body nor used after the loop
                            if ok:
                                nm = {x.id for x in names}
                                stored = any(isinstance(n, ast.Name) and n.id in nm and isinstance(n.ctx, ast.Store) for s2 in st.body for n in ast.walk(s2))
                                after = any(isinstance(n, ast.Name) and n.id in nm for s2 in b[i + 1:] for n in ast.walk(s2))
                                ok = not stored and not after
                            if ok:
                                new: list[ast.stmt] = []
                                for it in items:
                                    mapping = {names[0].id: it} if isinstance(tg, ast.Name) else {x.id: v for x, v in zip(names, it.elts)}
                                    sub = _Subst(mapping)
                                    new.extend(_fold_int_arith(sub.visit(_clone(s2))) for s2 in st.body)
                                b[i:i + 1] = new
                                log.append(f"{mod.relpath}:{st.lineno} {q}: loop over a literal display of {len(items)} item(s) unrolled")
                                i += len(new)
                                continue
                        i += 1
                    for st in b:
                        if not isinstance(st, (*FuncNode, ast.ClassDef)):
                            work.append(st)
                if isinstance(node, ast.Try):
                    work.extend(node.handlers)


def _unroll_literal_comprehensions(mods: dict[str, Module], log: list[str]) -> None:
    """`*(f(k) for k in ("a", "b"))` inside a display / call, and `[f(k) for k in ("a", "b")]`, over a literal display of at most 24 simple items,
    are read as the spelled-out elements (a reader of positional tuples then sees one element per position)."""
    class T(ast.NodeTransformer):
        def __init__(self) -> None:
            self.n = 0

        def _items(self, comp) -> list[ast.expr] | None:
            if not isinstance(comp, (ast.GeneratorExp, ast.ListComp)) or len(comp.generators) != 1:
                return None
            gen = comp.generators[0]
            if gen.ifs or gen.is_async or not isinstance(gen.iter, (ast.Tuple, ast.List)) or not 1 <= len(gen.iter.elts) <= 24:
                return None
            tg = gen.target
            names = [tg] if isinstance(tg, ast.Name) else list(tg.elts) if isinstance(tg, (ast.Tuple, ast.List)) and all(isinstance(x, ast.Name) for x in tg.elts) else None
            if names is None:
                return None
            out = []
            for it in gen.iter.elts:
                if isinstance(tg, ast.Name):
                    if not _simple(it):
                        return None
                    mapping = {tg.id: it}
                else:
                    if not (isinstance(it, (ast.Tuple, ast.List)) and len(it.elts) == len(names) and all(_simple(x) for x in it.elts)):
                        return None
                    mapping = {x.id: v for x, v in zip(names, it.elts)}
                out.append(_Subst(mapping).visit(_clone(comp.elt)))
            return out

        def _splice(self, elts: list[ast.expr]) -> list[ast.expr]:
            out: list[ast.expr] = []
            for e in elts:
                inner = e.value if isinstance(e, ast.Starred) else None
                if inner is not None and isinstance(inner, ast.Call) and (isinstance(inner.func, ast.Name) and inner.func.id in ("tuple", "list")) and len(inner.args) == 1 and not inner.keywords:
                    inner = inner.args[0]
                items = self._items(inner) if inner is not None else None
                if items is not None:
                    out.extend(items)
                    self.n += 1
                else:
                    out.append(e)
            return out

        def visit_Tuple(self, node: ast.Tuple):  # noqa: N802
            self.generic_visit(node)
            node.elts = self._splice(node.elts)
            return node

        visit_List = visit_Tuple  # noqa: N815

        def visit_Call(self, node: ast.Call):  # noqa: N802
            self.generic_visit(node)
            node.args = self._splice(node.args)
            return node

        def visit_ListComp(self, node: ast.ListComp):  # noqa: N802
            self.generic_visit(node)
            items = self._items(node)
            if items is not None:
                self.n += 1
                return ast.copy_location(ast.List(elts=items, ctx=ast.Load()), node)
            return node

    for mod in mods.values():
        t = T()
        t.visit(mod.tree)
        if t.n:
            log.append(f"{mod.relpath}: {t.n} comprehension(s) over a literal display spelled out")


def _split_parallel_assign(mods: dict[str, Module], log: list[str]) -> None:
    """`a, b = (x, y)` (same length, no starred, no target read by a later right-hand side) is read as `a = x; b = y`."""
    for mod in mods.values():
        n_split = 0
        for q, _, fn in _functions_of(mod):
            work: list[ast.AST] = [fn]
            while work:
                node = work.pop()
                blocks = [getattr(node, fld) for fld in ("body", "orelse", "finalbody") if isinstance(getattr(node, fld, None), list)]
                if isinstance(node, ast.Try):
                    blocks += [h.body for h in node.handlers]
                for b in blocks:
                    i = 0
                    while i < len(b):
                        st = b[i]
                        if isinstance(st, ast.Assign) and len(st.targets) == 1 and isinstance(st.targets[0], (ast.Tuple, ast.List)) and isinstance(st.value, (ast.Tuple, ast.List)) \
                                and len(st.targets[0].elts) == len(st.value.elts) >= 2 and not any(isinstance(x, ast.Starred) for x in [*st.targets[0].elts, *st.value.elts]):
                            tg, vs = st.targets[0].elts, st.value.elts
                            roots = []
                            for t in tg:
                                r = t
                                while isinstance(r, (ast.Attribute, ast.Subscript)):
                                    r = r.value
                                roots.append((ast.unparse(t), r.id if isinstance(r, ast.Name) and not isinstance(t, ast.Name) else None))
                            # with plain local targets the order `x; y; a=; b=` and `x; a=; y; b=` cannot be told apart (y does not read a, checked below)
                            safe = all(_pure(v) for v in vs) or all(isinstance(t, ast.Name) for t in tg)
                            for k, (ttxt, _) in enumerate(roots):
                                for v in vs[k + 1:]:
                                    if any(ast.unparse(x) == ttxt for x in ast.walk(v) if isinstance(x, (ast.Name, ast.Attribute, ast.Subscript))):
                                        safe = False
                            if safe:
                                b[i:i + 1] = [ast.fix_missing_locations(ast.copy_location(ast.Assign(targets=[t], value=v), st)) for t, v in zip(tg, vs)]
                                n_split += 1
                                i += len(tg)
                                continue
                        if isinstance(st, ast.stmt) and not isinstance(st, (*FuncNode, ast.ClassDef)):
                            work.append(st)
                        i += 1
        if n_split:
            log.append(f"{mod.relpath}: {n_split} parallel assignment(s) of a tuple display read as a sequence of assignments")


def _strip_bool_in_tests(mods: dict[str, Module], log: list[str]) -> None:
    """`if bool(e):`, `while bool(e)`, `a if bool(e) else b`, `not bool(e)`, `bool(e) and ..` test the truth value of `e` itself."""
    def strip(e: ast.expr) -> ast.expr:
        while isinstance(e, ast.Call) and isinstance(e.func, ast.Name) and e.func.id == "bool" and len(e.args) == 1 and not e.keywords and not isinstance(e.args[0], ast.Starred):
            e = e.args[0]
        if isinstance(e, ast.UnaryOp) and isinstance(e.op, ast.Not):
            e.operand = strip(e.operand)
        elif isinstance(e, ast.BoolOp):
            e.values = [strip(v) for v in e.values]
        return e

    n = 0
    for mod in mods.values():
        for node in ast.walk(mod.tree):
            if isinstance(node, (ast.If, ast.While, ast.IfExp, ast.Assert)):
                before = ast.dump(node.test)
                node.test = strip(node.test)
                n += before != ast.dump(node.test)
    if n:
        log.append(f"{n} test(s): bool(e) read as e")


def _inline_local_closures(mods: dict[str, Module], log: list[str]) -> None:
    """A local closure that is a single expression (`def labels(v): return [v] * n`, or `labels = lambda v: [v] * n`) and is only ever *called*
    in the enclosing function is read at its call sites as that expression (arguments substituted); closures passed around as values stay."""
    for mod in mods.values():
        for q, _, fn in _functions_of(mod):
            for _round in range(4):
                done = False
                for holder in [n for n in ast.walk(fn) if isinstance(getattr(n, "body", None), list)]:
                    for st in list(holder.body):
                        name = params = expr = None
                        if isinstance(st, ast.FunctionDef) and st is not fn and not st.decorator_list and not st.args.vararg and not st.args.kwarg and not st.args.kwonlyargs:
                            body = [b for b in st.body if not (isinstance(b, ast.Expr) and isinstance(b.value, ast.Constant))]
                            # a parameterless local generator `def g(): for x in xs: yield e` is the generator expression `(e for x in xs)`
                            if len(body) == 1 and isinstance(body[0], ast.For) and not body[0].orelse and len(body[0].body) == 1 and isinstance(body[0].body[0], ast.Expr) \
                                    and isinstance(body[0].body[0].value, ast.Yield) and body[0].body[0].value.value is not None and not st.args.args and not st.args.posonlyargs:
                                lp_ = body[0]
                                name, params = st.name, []
                                expr = ast.GeneratorExp(elt=lp_.body[0].value.value, generators=[ast.comprehension(target=lp_.target, iter=lp_.iter, ifs=[], is_async=0)])
                                defaults = {}
                                body = []
                            if len(body) == 1 and isinstance(body[0], ast.If):
                                # an if/else tree of returns (the loader reads `return a if c else b` that way) is one conditional expression
                                from .util import returned_value
                                rv_ = returned_value(body)
                                if rv_ is not None:
                                    body = [ast.copy_location(ast.Return(value=rv_), body[0])]
                            if len(body) == 1 and isinstance(body[0], ast.Return) and body[0].value is not None:
                                name, params, expr = st.name, [a.arg for a in [*st.args.posonlyargs, *st.args.args]], body[0].value
                                defaults = dict(zip(params[len(params) - len(st.args.defaults):], st.args.defaults)) if st.args.defaults else {}
                        elif isinstance(st, ast.Assign) and len(st.targets) == 1 and isinstance(st.targets[0], ast.Name) and isinstance(st.value, ast.Lambda) \
                                and not st.value.args.vararg and not st.value.args.kwarg and not st.value.args.kwonlyargs:
                            lam = st.value
                            name, params, expr = st.targets[0].id, [a.arg for a in [*lam.args.posonlyargs, *lam.args.args]], lam.body
                            defaults = dict(zip(params[len(params) - len(lam.args.defaults):], lam.args.defaults)) if lam.args.defaults else {}
                        if name is None or any(isinstance(x, (ast.Yield, ast.YieldFrom, ast.Await, ast.NamedExpr, ast.Lambda)) for x in ast.walk(expr)):
                            continue
                        # every other occurrence of the name must be the callee of a call, after the definition; the name is bound once
                        occ = [x for x in ast.walk(fn) if isinstance(x, ast.Name) and x.id == name]
                        stores = [x for x in occ if isinstance(x.ctx, ast.Store)]
                        defs = [x for x in ast.walk(fn) if isinstance(x, ast.FunctionDef) and x.name == name and x is not fn]
                        if len(stores) + len(defs) != 1:
                            continue
                        calls = [c for c in ast.walk(fn) if isinstance(c, ast.Call) and isinstance(c.func, ast.Name) and c.func.id == name]
                        loads = [x for x in occ if isinstance(x.ctx, ast.Load)]
                        if not calls or len(loads) != len(calls) or any(any(x is c for x in ast.walk(st)) for c in calls):
                            continue
                        # the free variables of the closure must not be re-bound between definition and calls: keep to closures whose free names are bound once in fn
                        free = {x.id for x in ast.walk(expr) if isinstance(x, ast.Name) and x.id not in params}
                        rebound = {x.id for x in ast.walk(fn) if isinstance(x, ast.Name) and isinstance(x.ctx, ast.Store) and x.id in free}
                        multi = {nm for nm in rebound if sum(1 for x in ast.walk(fn) if isinstance(x, ast.Name) and isinstance(x.ctx, ast.Store) and x.id == nm) > 1}
                        if multi:
                            continue
                        ok = True
                        plans = []
                        for c in calls:
                            if any(isinstance(a, ast.Starred) for a in c.args) or any(k.arg is None for k in c.keywords) or len(c.args) > len(params):
                                ok = False
                                break
                            b = dict(zip(params, c.args))
                            for k in c.keywords:
                                if k.arg in b or k.arg not in params:
                                    ok = False
                                b[k.arg] = k.value  # type: ignore[index]
                            for p_ in params:
                                if p_ not in b:
                                    if p_ in defaults:
                                        b[p_] = defaults[p_]
                                    else:
                                        ok = False
                            if not ok:
                                break
                            for p_, a in b.items():
                                uses = sum(1 for x in ast.walk(expr) if isinstance(x, ast.Name) and x.id == p_)
                                if not (_simple(a) or uses <= 1 or _pure(a)):
                                    ok = False
                            plans.append((c, b))
                        if not ok:
                            continue

                        class Repl(ast.NodeTransformer):
                            def visit_Call(self, node: ast.Call):  # noqa: N802
                                self.generic_visit(node)
                                for c, b in plans:
                                    if node is c:
                                        return ast.copy_location(_Subst(b).visit(_clone(expr)), node)
                                return node
                        holder.body.remove(st)
                        if not holder.body:
                            holder.body.append(ast.Pass())
                        Repl().visit(fn)
                        ast.fix_missing_locations(fn)
                        log.append(f"{mod.relpath} {q}: local closure {name}() read at its {len(calls)} call site(s)")
                        done = True
                        break
                    if done:
                        break
                if not done:
                    break


def _inline_procedure_closures(mods: dict[str, Module], log: list[str]) -> None:
    """A local closure that is a *procedure* (statements, no value returned) and is only ever called as a statement of the enclosing function
    (`def adopt(): self._best = x` ... `adopt()`) is read as its body at each call statement. Closures bind late, so the body sees the
    enclosing names as they are at the call; the closure's own locals are renamed apart."""
    uid = 0
    for mod in mods.values():
        for q, _, fn in _functions_of(mod):
            for _round in range(4):
                done = False
                for holder in [n for n in ast.walk(fn) if isinstance(getattr(n, "body", None), list)]:
                    for st in list(holder.body):
                        if not (isinstance(st, ast.FunctionDef) and st is not fn and not st.decorator_list and not st.args.vararg and not st.args.kwarg
                                and not st.args.kwonlyargs and not st.args.defaults):
                            continue
                        body = [b for b in st.body if not (isinstance(b, ast.Expr) and isinstance(b.value, ast.Constant))]
                        if body and isinstance(body[-1], ast.Return) and body[-1].value is None:
                            body = body[:-1]
                        if not body or any(isinstance(x, (ast.Return, ast.Yield, ast.YieldFrom, ast.Await, ast.Nonlocal, ast.Global, ast.FunctionDef, ast.Lambda, ast.ClassDef))
                                           for b in body for x in ast.walk(b)):
                            continue
                        name = st.name
                        params = [a.arg for a in [*st.args.posonlyargs, *st.args.args]]
                        occ = [x for x in ast.walk(fn) if isinstance(x, ast.Name) and x.id == name]
                        defs = [x for x in ast.walk(fn) if isinstance(x, ast.FunctionDef) and x.name == name and x is not fn]
                        if len(defs) != 1 or any(isinstance(x.ctx, ast.Store) for x in occ) or any(any(x is o for x in ast.walk(st)) for o in occ):
                            continue
                        # every occurrence is the callee of an expression statement of fn itself (not of another nested scope)
                        sites: list[tuple[list, ast.Expr]] = []

                        def scan(stmts: list[ast.stmt]) -> None:
                            for s_ in stmts:
                                if isinstance(s_, (ast.FunctionDef, ast.AsyncFunctionDef, ast.ClassDef)):
                                    continue
                                if isinstance(s_, ast.Expr) and isinstance(s_.value, ast.Call) and isinstance(s_.value.func, ast.Name) and s_.value.func.id == name:
                                    sites.append((stmts, s_))
                                for fld in ("body", "orelse", "finalbody"):
                                    v = getattr(s_, fld, None)
                                    if isinstance(v, list) and v and isinstance(v[0], ast.stmt):
                                        scan(v)
                                for hd in getattr(s_, "handlers", []) or []:
                                    scan(hd.body)
                                for cs in getattr(s_, "cases", []) or []:
                                    scan(cs.body)

                        scan(fn.body)
                        if not sites or len(sites) != len(occ):
                            continue
                        if any(sum(1 for x in ast.walk(e.value) if isinstance(x, ast.Name) and x.id == name) != 1 for _, e in sites):
                            continue
                        ok = True
                        plans = []
                        for stmts, e in sites:
                            c = e.value
                            if any(isinstance(a, ast.Starred) for a in c.args) or any(k.arg is None or k.arg not in params for k in c.keywords) or len(c.args) > len(params):
                                ok = False
                                break
                            b = dict(zip(params, c.args))
                            for k in c.keywords:
                                if k.arg in b:
                                    ok = False
                                b[k.arg] = k.value  # type: ignore[index]
                            if set(b) != set(params):
                                ok = False
                            plans.append((stmts, e, b))
                        if not ok:
                            continue
                        own = {x.id for b_ in body for x in ast.walk(b_) if isinstance(x, ast.Name) and isinstance(x.ctx, ast.Store)} - set(params)
                        for stmts, e, b in plans:
                            uid += 1
                            mapping: dict[str, ast.expr] = {}
                            pre: list[ast.stmt] = []
                            for p_, a in b.items():
                                _, stored = _uses(body, p_)
                                if not stored and _simple(a):
                                    mapping[p_] = a
                                else:
                                    fresh = f"{p_}__{name.strip('_')}{uid}"
                                    pre.append(ast.copy_location(ast.Assign(targets=[ast.Name(id=fresh, ctx=ast.Store())], value=a), e))
                                    mapping[p_] = ast.Name(id=fresh, ctx=ast.Load())
                            for loc_ in own:
                                mapping[loc_] = ast.Name(id=f"{loc_}__{name.strip('_')}{uid}", ctx=ast.Load())
                            new_body = [_Subst(mapping).visit(_clone(x)) for x in body]
                            for x in new_body:
                                for n_ in ast.walk(x):
                                    if hasattr(n_, "lineno"):
                                        n_.lineno = e.lineno
                                        n_.end_lineno = getattr(e, "end_lineno", e.lineno)
                            i = next(k for k, y in enumerate(stmts) if y is e)
                            stmts[i:i + 1] = [*pre, *new_body]
                        holder.body.remove(st)
                        if not holder.body:
                            holder.body.append(ast.Pass())
                        ast.fix_missing_locations(fn)
                        log.append(f"{mod.relpath} {q}: local procedure {name}() read in place at its {len(plans)} call statement(s)")
                        done = True
                        break
                    if done:
                        break
                if not done:
                    break


def _inline_new_properties(mods: dict[str, Module], inv: dict, log: list[str]) -> None:
    """A property the reference tree does not have, whose getter is one expression over `self` (`return self.current_batch_index == 0`) and which has no
    setter, is read as that expression wherever a method of the class (or of a subclass in the same module) reads it on its own `self`."""
    for mod in mods.values():
        old = inv["modules"].get(mod.name)
        classes = [n for n in mod.tree.body if isinstance(n, ast.ClassDef)]
        for cls in classes:
            oc = old["classes"].get(cls.name) if old is not None else None
            known = set(oc["methods"]) | set(oc.get("attrs", [])) if oc is not None else set()
            props: dict[str, tuple[str, ast.expr, ast.FunctionDef]] = {}
            for x in cls.body:
                if isinstance(x, ast.FunctionDef) and x.name not in known and [ast.unparse(d) for d in x.decorator_list] == ["property"] and len(x.args.args) == 1:
                    body = [b for b in x.body if not (isinstance(b, ast.Expr) and isinstance(b.value, ast.Constant))]
                    if len(body) == 1 and isinstance(body[0], ast.Return) and body[0].value is not None and _pure(body[0].value):
                        props[x.name] = (x.args.args[0].arg, body[0].value, x)
            for x in cls.body:  # a setter / deleter makes it more than a derived value
                if isinstance(x, ast.FunctionDef) and any(ast.unparse(d).endswith((".setter", ".deleter")) for d in x.decorator_list):
                    props.pop(x.name, None)
            if not props:
                continue
            family = [c for c in classes if c is cls or cls.name in [ast.unparse(b).split(".")[-1] for b in c.bases]]
            n_sub = 0
            for c in family:
                for m in c.body:
                    if not isinstance(m, FuncNode) or not m.args.args or any(m is p_[2] for p_ in props.values()):
                        continue
                    me = m.args.args[0].arg

                    class T(ast.NodeTransformer):
                        def visit_Attribute(self, node: ast.Attribute):  # noqa: N802
                            nonlocal n_sub
                            self.generic_visit(node)
                            if isinstance(node.ctx, ast.Load) and isinstance(node.value, ast.Name) and node.value.id == me and node.attr in props:
                                sname, expr, _ = props[node.attr]
                                n_sub += 1
                                return ast.copy_location(_Subst({sname: ast.Name(id=me, ctx=ast.Load())}).visit(_clone(expr)), node)
                            return node
                    T().visit(m)
            if n_sub:
                # a property still read from elsewhere stays; one that is not read any more is dropped with the other inlined helpers
                for nm, (_, _, node) in props.items():
                    still = any(isinstance(a, ast.Attribute) and a.attr == nm for mm in mods.values() for a in ast.walk(mm.tree))
                    if not still and node in cls.body and len(cls.body) > 1:
                        cls.body.remove(node)
                log.append(f"{mod.relpath} {cls.name}: new derived propert{'ies' if len(props) > 1 else 'y'} {sorted(props)} read as their expressions ({n_sub} read(s))")
        ast.fix_missing_locations(mod.tree)


def _static_attr_access(mods: dict[str, Module], log: list[str]) -> None:
    """`setattr(obj, "name", v)` / `getattr(obj, "name")` with a literal identifier are the attribute store / load they spell."""
    n = 0

    class T(ast.NodeTransformer):
        def visit_Expr(self, node: ast.Expr):  # noqa: N802
            nonlocal n
            self.generic_visit(node)
            c = node.value
            if isinstance(c, ast.Call) and isinstance(c.func, ast.Name) and c.func.id == "setattr" and len(c.args) == 3 and not c.keywords \
                    and isinstance(c.args[1], ast.Constant) and isinstance(c.args[1].value, str) and c.args[1].value.isidentifier():
                n += 1
                return ast.copy_location(ast.Assign(targets=[ast.Attribute(value=c.args[0], attr=c.args[1].value, ctx=ast.Store())], value=c.args[2], type_comment=None), node)
            return node

        def visit_Call(self, node: ast.Call):  # noqa: N802
            nonlocal n
            self.generic_visit(node)
            if isinstance(node.func, ast.Name) and node.func.id == "getattr" and len(node.args) == 2 and not node.keywords \
                    and isinstance(node.args[1], ast.Constant) and isinstance(node.args[1].value, str) and node.args[1].value.isidentifier():
                n += 1
                return ast.copy_location(ast.Attribute(value=node.args[0], attr=node.args[1].value, ctx=ast.Load()), node)
            return node

    for mod in mods.values():
        mod.tree = T().visit(mod.tree)
        ast.fix_missing_locations(mod.tree)
    if n:
        log.append(f"{n} setattr/getattr call(s) with a literal name read as attribute accesses")


def _split_chain_loops(mods: dict[str, Module], log: list[str]) -> None:
    """`for x in itertools.chain(A, B): body` (no break / else) is read as `for x in A: body` followed by `for x in B: body`."""
    n = 0
    for mod in mods.values():
        for q, _, fn in _functions_of(mod):
            work: list[ast.AST] = [fn]
            while work:
                node = work.pop()
                blocks = [getattr(node, fld) for fld in ("body", "orelse", "finalbody") if isinstance(getattr(node, fld, None), list)]
                if isinstance(node, ast.Try):
                    blocks += [h.body for h in node.handlers]
                for b in blocks:
                    i = 0
                    while i < len(b):
                        st = b[i]
                        if isinstance(st, ast.For) and isinstance(st.iter, ast.Call) and ast.unparse(st.iter.func) in ("itertools.chain", "chain") and not st.iter.keywords \
                                and len(st.iter.args) >= 2 and not any(isinstance(a, ast.Starred) for a in st.iter.args) and not st.orelse \
                                and not any(isinstance(x, ast.Break) for x in ast.walk(st)):
                            parts = []
                            for a in st.iter.args:
                                lp = ast.copy_location(ast.For(target=_clone(st.target), iter=a, body=[_clone(x) for x in st.body], orelse=[], type_comment=None), st)
                                parts.append(ast.fix_missing_locations(lp))
                            b[i:i + 1] = parts
                            n += 1
                            continue
                        if isinstance(st, ast.stmt) and not isinstance(st, (*FuncNode, ast.ClassDef)):
                            work.append(st)
                        i += 1
    if n:
        log.append(f"{n} loop(s) over itertools.chain(...) read as consecutive loops")


def _map_to_comprehension(mods: dict[str, Module], log: list[str]) -> None:
    """`map(f, xs[, ys])` with `f` a plain reference or a lambda is the generator `(f(x) for x in xs)` (as lazy as the map object: nothing runs until it is consumed);
    `list(<generator>)` / `tuple(<generator>)` is the comprehension."""
    n = 0

    class T(ast.NodeTransformer):
        def visit_Call(self, node: ast.Call):  # noqa: N802
            nonlocal n
            self.generic_visit(node)
            if isinstance(node.func, ast.Name) and node.func.id == "map" and len(node.args) >= 2 and not node.keywords and not any(isinstance(a, ast.Starred) for a in node.args):
                fn_, *its = node.args
                base = f"item__{getattr(node, 'lineno', 0)}_{getattr(node, 'col_offset', 0)}"
                vars_ = [base if len(its) == 1 else f"{base}_{k}" for k in range(len(its))]
                elt = None
                if _simple(fn_):
                    elt = ast.Call(func=fn_, args=[ast.Name(id=v, ctx=ast.Load()) for v in vars_], keywords=[])
                elif isinstance(fn_, ast.Lambda) and len(fn_.args.args) == len(its) and not fn_.args.defaults and not fn_.args.vararg and not fn_.args.kwarg and not fn_.args.kwonlyargs \
                        and not fn_.args.posonlyargs:
                    elt = _Subst({a.arg: ast.Name(id=v, ctx=ast.Load()) for a, v in zip(fn_.args.args, vars_)}).visit(_clone(fn_.body))
                if elt is not None:
                    n += 1
                    if len(its) == 1:
                        tgt: ast.expr = ast.Name(id=vars_[0], ctx=ast.Store())
                        it: ast.expr = its[0]
                    else:
                        tgt = ast.Tuple(elts=[ast.Name(id=v, ctx=ast.Store()) for v in vars_], ctx=ast.Store())
                        it = ast.Call(func=ast.Name(id="zip", ctx=ast.Load()), args=its, keywords=[])
                    out = ast.GeneratorExp(elt=elt, generators=[ast.comprehension(target=tgt, iter=it, ifs=[], is_async=0)])
                    return ast.fix_missing_locations(ast.copy_location(out, node))
            if isinstance(node.func, ast.Name) and node.func.id in ("list", "tuple") and len(node.args) == 1 and not node.keywords and isinstance(node.args[0], ast.GeneratorExp):
                g = node.args[0]
                comp = ast.ListComp(elt=g.elt, generators=g.generators)
                out2 = comp if node.func.id == "list" else ast.Call(func=ast.Name(id="tuple", ctx=ast.Load()), args=[comp], keywords=[])
                return ast.fix_missing_locations(ast.copy_location(out2, node))
            return node

    for mod in mods.values():
        mod.tree = T().visit(mod.tree)
    if n:
        log.append(f"{n} map(f, xs) call(s) read as generators")


def _mirror_induction_attr(mods: dict[str, Module], inv: dict, log: list[str]) -> None:
    """`for v in range(S, E): BODY; self.A = v + 1` with S the value of `self.A` on entry (read in place, or through a local snapshot nothing stores past) keeps
    `v == self.A` at every point of BODY: the loop is `for _ in range(E - self.A): BODY[v := self.A]; self.A += 1` - the counter the reference tree advances."""
    fw = _Forward(mods, inv, [])
    n = 0
    for mod in mods.values():
        for q, _, fn in _functions_of(mod):
            loops = [x for x in ast.walk(fn) if isinstance(x, ast.For)]
            for lp in loops:
                if any(lp is not o and any(y is lp for y in ast.walk(o)) for o in [x for x in ast.walk(fn) if isinstance(x, (ast.For, ast.While))]):
                    continue
                it = lp.iter
                if not (isinstance(lp.target, ast.Name) and not lp.orelse and isinstance(it, ast.Call) and isinstance(it.func, ast.Name) and it.func.id == "range" and len(it.args) == 2 and not it.keywords
                        and lp.body):
                    continue
                v = lp.target.id
                ks = [k for k, st in enumerate(lp.body) if isinstance(st, ast.Assign) and len(st.targets) == 1 and isinstance(st.targets[0], ast.Attribute)
                      and isinstance(st.targets[0].value, ast.Name) and ast.unparse(st.value) in (f"{v} + 1", f"1 + {v}")]
                # `self.A += 1` (or `self.A = self.A + 1`) keeps step with v as well, when the loop starts at the value of self.A
                ks += [k for k, st in enumerate(lp.body) if (isinstance(st, ast.AugAssign) and isinstance(st.op, ast.Add) and isinstance(st.target, ast.Attribute) and isinstance(st.target.value, ast.Name)
                                                             and isinstance(st.value, ast.Constant) and st.value.value == 1)
                       or (isinstance(st, ast.Assign) and len(st.targets) == 1 and isinstance(st.targets[0], ast.Attribute) and isinstance(st.targets[0].value, ast.Name)
                           and ast.unparse(st.value) in (f"{ast.unparse(st.targets[0])} + 1", f"1 + {ast.unparse(st.targets[0])}"))]
                if len(ks) != 1:
                    continue
                kpos = ks[0]
                last = lp.body[kpos]
                attr = last.target if isinstance(last, ast.AugAssign) else last.targets[0]
                attr = ast.Attribute(value=attr.value, attr=attr.attr, ctx=ast.Load())
                atxt = ast.unparse(attr)
                A = attr.attr
                if any(fw._kills(st, {v}, {A}) for k, st in enumerate(lp.body) if k != kpos) or any(isinstance(x, ast.Continue) for x in ast.walk(lp)):
                    continue
                if any(isinstance(x, ast.Name) and x.id == v for st in lp.body[kpos + 1:] for x in ast.walk(st)):
                    continue
                if any(isinstance(x, ast.Name) and x.id == v and not any(x is y for y in ast.walk(lp)) for x in ast.walk(fn)):
                    continue
                S, E = it.args
                snap = None
                if ast.unparse(S) == atxt:
                    pass
                elif isinstance(S, ast.Name):
                    defs = [x for x in ast.walk(fn) if isinstance(x, (ast.Assign, ast.AnnAssign)) and x.value is not None
                            and any(isinstance(t, ast.Name) and t.id == S.id for t in (x.targets if isinstance(x, ast.Assign) else [x.target]))]
                    stores = [x for x in ast.walk(fn) if isinstance(x, ast.Name) and x.id == S.id and isinstance(x.ctx, (ast.Store, ast.Del))]
                    if len(defs) != 1 or len(stores) != 1 or ast.unparse(defs[0].value) != atxt or defs[0].lineno >= lp.lineno:
                        continue
                    d = defs[0]
                    between = [x for x in ast.walk(fn) if d.end_lineno < getattr(x, "lineno", 0) < lp.lineno]
                    killed = False
                    for x in between:
                        if isinstance(x, ast.Attribute) and isinstance(x.ctx, (ast.Store, ast.Del)) and x.attr == A:
                            killed = True
                        if isinstance(x, ast.Call) and isinstance(x.func, ast.Attribute) and A in fw.method_stores.get(x.func.attr, set()):
                            killed = True
                    uses = [x for x in ast.walk(fn) if isinstance(x, ast.Name) and x.id == S.id and isinstance(x.ctx, ast.Load)]
                    if killed or any(not (d.end_lineno < u.lineno <= lp.lineno) or any(u is y for st in lp.body for y in ast.walk(st)) for u in uses):
                        continue
                    snap = (S.id, d)
                else:
                    continue
                sub = _Subst({v: attr, **({snap[0]: attr} if snap else {})})
                if snap:
                    # every use of the snapshot lies before the loop body, where self.A still has the snapshot's value
                    for blk_owner in ast.walk(fn):
                        for fld in ("body", "orelse", "finalbody", "handlers"):
                            lst = getattr(blk_owner, fld, None)
                            if isinstance(lst, list) and any(x is snap[1] for x in lst):
                                lst.remove(snap[1])
                                if not lst:
                                    lst.append(ast.copy_location(ast.Pass(), snap[1]))
                    only_snap = _Subst({snap[0]: attr})
                    for owner in ast.walk(fn):
                        if owner is lp:
                            continue
                        for fld, val in ast.iter_fields(owner):
                            if fld in ("body", "orelse", "finalbody", "handlers"):
                                continue
                            if isinstance(val, ast.expr) and getattr(val, "lineno", 10 ** 9) < lp.lineno and any(isinstance(x, ast.Name) and x.id == snap[0] for x in ast.walk(val)):
                                setattr(owner, fld, only_snap.visit(val))
                    E = only_snap.visit(E)
                lp.body[:kpos] = [sub.visit(st) for st in lp.body[:kpos]]
                lp.body[kpos] = ast.copy_location(ast.AugAssign(target=ast.Attribute(value=attr.value, attr=A, ctx=ast.Store()), op=ast.Add(), value=ast.Constant(value=1)), last)
                count: ast.expr
                if isinstance(E, ast.BinOp) and isinstance(E.op, ast.Add) and ast.unparse(E.left) == atxt:
                    count = E.right
                elif isinstance(E, ast.BinOp) and isinstance(E.op, ast.Add) and ast.unparse(E.right) == atxt:
                    count = E.left
                else:
                    count = ast.BinOp(left=E, op=ast.Sub(), right=ast.Attribute(value=attr.value, attr=A, ctx=ast.Load()))
                lp.target = ast.Name(id="_", ctx=ast.Store())
                lp.iter = ast.Call(func=ast.Name(id="range", ctx=ast.Load()), args=[count], keywords=[])
                ast.fix_missing_locations(fn)
                n += 1
                log.append(f"{mod.relpath}:{lp.lineno} {q}: induction variable `{v}` mirrors `{atxt}`; loop read as `for _ in range({ast.unparse(count)})` advancing the attribute")


def _hoist_queue_reads(mods: dict[str, Module], log: list[str]) -> None:
    """`return xs[self._in_queue.get()]` is `v = self._in_queue.get(); return xs[v]` when the queue read is what the statement evaluates first (only loads of names and
    of their attributes come before it): the thread model steps a queue operation only when it is a statement's own value."""
    n = 0
    uid = 0
    for mod in mods.values():
        for q, _, fn in _functions_of(mod):
            for owner in ast.walk(fn):
                for fld in ("body", "orelse", "finalbody"):
                    blk = getattr(owner, fld, None)
                    if not (isinstance(blk, list) and blk and isinstance(blk[0], ast.stmt)):
                        continue
                    i = 0
                    while i < len(blk):
                        s = blk[i]
                        v = getattr(s, "value", None) if isinstance(s, (ast.Return, ast.Assign, ast.AnnAssign, ast.Expr)) else None
                        if v is not None and not isinstance(v, ast.Call):
                            cs = [x for x in ast.walk(v) if isinstance(x, ast.Call)]
                            plain = not any(isinstance(x, (ast.Lambda, ast.GeneratorExp, ast.ListComp, ast.SetComp, ast.DictComp, ast.IfExp, ast.BoolOp, ast.NamedExpr, ast.Await, ast.Yield)) for x in ast.walk(v))
                            first = cs[0] if len(cs) == 1 and plain else None      # the only call of a conditional-free expression: everything else is a load
                            if isinstance(first, ast.Call) and isinstance(first.func, ast.Attribute) and first.func.attr in ("get", "get_nowait") and "queue" in ast.unparse(first.func.value).lower():
                                uid += 1
                                tmp = f"received__{uid}"
                                pre = ast.copy_location(ast.Assign(targets=[ast.Name(id=tmp, ctx=ast.Store())], value=first), s)
                                _replace_node(s, first, ast.copy_location(ast.Name(id=tmp, ctx=ast.Load()), first))
                                ast.fix_missing_locations(pre)
                                blk.insert(i, pre)
                                i += 1
                                n += 1
                        i += 1
    if n:
        log.append(f"{n} queue read(s) hoisted out of the expression they feed")


def _fuse_nested_comprehensions(mods: dict[str, Module], log: list[str]) -> None:
    """`[g(y) for y in [f(x) for x in X]]` (single generators, no conditions, `f(x)` pure, `y` a plain name) is `[g(f(x)) for x in X]`."""
    n = 0

    class T(ast.NodeTransformer):
        def _fuse(self, node):
            nonlocal n
            self.generic_visit(node)
            if len(node.generators) == 1 and not node.generators[0].ifs and isinstance(node.generators[0].target, ast.Name):
                inner = node.generators[0].iter
                if isinstance(inner, (ast.ListComp, ast.GeneratorExp)) and len(inner.generators) == 1 and not inner.generators[0].ifs and _pure(inner.elt) \
                        and not any(isinstance(x, (ast.NamedExpr, ast.Yield, ast.Await)) for x in ast.walk(node)):
                    y = node.generators[0].target.id
                    inner_names = {x.id for x in ast.walk(inner.generators[0].target) if isinstance(x, ast.Name)}
                    outer_free = {x.id for x in ast.walk(node.elt) if isinstance(x, ast.Name)} - {y}
                    if not (inner_names & outer_free):
                        node.elt = _Subst({y: inner.elt}).visit(node.elt)
                        node.generators = [inner.generators[0]]
                        n += 1
            return node
        visit_ListComp = _fuse  # noqa: N815
        visit_GeneratorExp = _fuse  # noqa: N815

    for mod in mods.values():
        for q, _, fn in _functions_of(mod):
            T().visit(fn)
            ast.fix_missing_locations(fn)
    if n:
        log.append(f"{n} comprehension(s) over a comprehension fused")


def _fromiter_to_array(mods: dict[str, Module], log: list[str]) -> None:
    """`np.fromiter(<generator>, dtype=D[, count=c])` consumes the generator where it stands and is `np.array([...], dtype=D)` (float64: `np.array([...])`);
    `list(<generator>)` likewise once a local generator has been substituted into it."""
    n = 0

    class T(ast.NodeTransformer):
        def visit_Call(self, node: ast.Call):  # noqa: N802
            nonlocal n
            self.generic_visit(node)
            d = ast.unparse(node.func)
            if d in ("np.fromiter", "numpy.fromiter") and node.args and isinstance(node.args[0], ast.GeneratorExp) and len(node.args) <= 2 and all(k.arg in ("dtype", "count") for k in node.keywords):
                g = node.args[0]
                dt = node.args[1] if len(node.args) == 2 else next((k.value for k in node.keywords if k.arg == "dtype"), None)
                kws = [] if dt is None or ast.unparse(dt) in ("np.float64", "numpy.float64", "float", "'float64'", "np.double") else [ast.keyword(arg="dtype", value=dt)]
                n += 1
                out = ast.Call(func=ast.Attribute(value=ast.Name(id="np", ctx=ast.Load()), attr="array", ctx=ast.Load()), args=[ast.ListComp(elt=g.elt, generators=g.generators)], keywords=kws)
                return ast.fix_missing_locations(ast.copy_location(out, node))
            if isinstance(node.func, ast.Name) and node.func.id in ("list", "tuple") and len(node.args) == 1 and not node.keywords and isinstance(node.args[0], ast.GeneratorExp):
                g = node.args[0]
                comp = ast.ListComp(elt=g.elt, generators=g.generators)
                n += 1
                out2 = comp if node.func.id == "list" else ast.Call(func=ast.Name(id="tuple", ctx=ast.Load()), args=[comp], keywords=[])
                return ast.fix_missing_locations(ast.copy_location(out2, node))
            return node

    for mod in mods.values():
        mod.tree = T().visit(mod.tree)
    if n:
        log.append(f"{n} generator consumption(s) (np.fromiter / list) read as comprehensions at the point of consumption")


def _beta_reduce(mods: dict[str, Module], log: list[str]) -> None:
    """`(lambda: e)()` and `(lambda x: e)(a)` (simple or once-used argument) are `e` / `e[x := a]`."""
    n = 0

    class T(ast.NodeTransformer):
        def visit_Call(self, node: ast.Call):  # noqa: N802
            nonlocal n
            self.generic_visit(node)
            lam = node.func
            if isinstance(lam, ast.Lambda) and not node.keywords and not any(isinstance(a, ast.Starred) for a in node.args) and not lam.args.vararg and not lam.args.kwarg \
                    and not lam.args.kwonlyargs and not lam.args.defaults and len(lam.args.args) + len(lam.args.posonlyargs) == len(node.args):
                params = [a.arg for a in [*lam.args.posonlyargs, *lam.args.args]]
                for p_, a in zip(params, node.args):
                    uses = sum(1 for x in ast.walk(lam.body) if isinstance(x, ast.Name) and x.id == p_)
                    if not (_simple(a) or uses <= 1):
                        return node
                n += 1
                return ast.copy_location(_Subst(dict(zip(params, node.args))).visit(_clone(lam.body)), node)
            return node

    for mod in mods.values():
        mod.tree = T().visit(mod.tree)
        ast.fix_missing_locations(mod.tree)
    if n:
        log.append(f"{n} immediately applied lambda(s) reduced")


def _see_through_value_memos(mods: dict[str, Module], inv: dict, log: list[str]) -> None:
    """A new module-level dict that is only ever filled by `CACHE[K] = E`, where E is a pure expression of the variables K is made of, holds under every
    key the value E has for that key: a read `CACHE[K]` / `CACHE.get(K)` in the same function *is* E.  The reads are replaced by E and the store is
    dropped (`x = CACHE[K] = E` keeps `x = E`); membership tests on the dict stay behind as opaque booleans guarding nothing."""
    import builtins
    for mod in mods.values():
        old = inv["modules"].get(mod.name)
        known_consts = set(old["constants"]) if old is not None else set()
        caches = {}
        for st in mod.tree.body:
            tg = st.targets[0] if isinstance(st, ast.Assign) and len(st.targets) == 1 else st.target if isinstance(st, ast.AnnAssign) and st.value is not None else None
            v = getattr(st, "value", None)
            if isinstance(tg, ast.Name) and tg.id not in known_consts and ((isinstance(v, ast.Dict) and not v.keys) or (isinstance(v, ast.Call) and ast.unparse(v) == "dict()")):
                caches[tg.id] = st
        if not caches:
            continue
        module_names = {n.id for st in mod.tree.body for n in ([st] if False else []) }  # placeholder
        module_level = set()
        for st in mod.tree.body:
            if isinstance(st, (ast.FunctionDef, ast.ClassDef)):
                module_level.add(st.name)
            elif isinstance(st, (ast.Import, ast.ImportFrom)):
                module_level |= {(a.asname or a.name).split(".")[0] for a in st.names}
            elif isinstance(st, (ast.Assign, ast.AnnAssign)):
                for t in (st.targets if isinstance(st, ast.Assign) else [st.target]):
                    if isinstance(t, ast.Name):
                        module_level.add(t.id)
            elif isinstance(st, ast.If):
                for x in ast.walk(st):
                    if isinstance(x, (ast.Import, ast.ImportFrom)):
                        module_level |= {(a.asname or a.name).split(".")[0] for a in x.names}
        funcs = {q: fn for q, _, fn in _functions_of(mod)}
        for cname in list(caches):
            uses = [(q, n) for q, fn in funcs.items() for n in ast.walk(fn) if isinstance(n, ast.Name) and n.id == cname]
            if not uses or len({q for q, _ in uses}) != 1:
                continue
            q = uses[0][0]
            fn = funcs[q]
            params = set(_params(fn))
            stores = []
            ok = True
            for st in ast.walk(fn):
                if isinstance(st, ast.Assign):
                    subs = [t for t in st.targets if isinstance(t, ast.Subscript) and isinstance(t.value, ast.Name) and t.value.id == cname]
                    if subs:
                        if len(subs) != 1 or not all(isinstance(t, (ast.Name, ast.Subscript)) for t in st.targets):
                            ok = False
                        stores.append((st, subs[0]))
                elif isinstance(st, ast.Delete) and any(isinstance(x, ast.Name) and x.id == cname for x in ast.walk(st)):
                    # dropping entries never changes what an entry holds
                    if not all(isinstance(t, ast.Subscript) and isinstance(t.value, ast.Name) and t.value.id == cname for t in st.targets):
                        ok = False
                elif isinstance(st, ast.AugAssign) and any(isinstance(x, ast.Name) and x.id == cname for x in ast.walk(st)):
                    ok = False
                elif isinstance(st, ast.Call) and isinstance(st.func, ast.Attribute) and isinstance(st.func.value, ast.Name) and st.func.value.id == cname and st.func.attr not in ("get", "clear", "popitem"):
                    if not (st.func.attr == "pop" and any(isinstance(e_, ast.Expr) and e_.value is st for e_ in ast.walk(fn))):
                        ok = False
            if not ok or len(stores) != 1:
                continue
            st, sub = stores[0]
            E, K = st.value, sub.slice
            held = {t.id for t in st.targets if isinstance(t, ast.Name)}
            if isinstance(E, ast.Name):
                # `m = E'` directly before `CACHE[K] = m`
                held.add(E.id)
                prev = None
                for b in ast.walk(fn):
                    for fld in ("body", "orelse", "finalbody"):
                        lst = getattr(b, fld, None)
                        if isinstance(lst, list) and any(x is st for x in lst):
                            i0 = next(k for k, x in enumerate(lst) if x is st)
                            prev = lst[i0 - 1] if i0 > 0 else None
                if not (isinstance(prev, ast.Assign) and len(prev.targets) == 1 and isinstance(prev.targets[0], ast.Name) and prev.targets[0].id == E.id
                        and not any(isinstance(x, ast.Name) and x.id == E.id for x in ast.walk(prev.value))):
                    continue
                E = prev.value
            if _memo_value_mutated(mod, funcs, q, fn, cname, held):
                continue
            env = {}
            for a in ast.walk(fn):
                if isinstance(a, ast.Assign) and len(a.targets) == 1 and isinstance(a.targets[0], ast.Name):
                    env.setdefault(a.targets[0].id, []).append(a.value)

            def kvars(e: ast.expr, depth: int = 0) -> set[str]:
                out = set()
                for x in ast.walk(e):
                    if isinstance(x, ast.Name) and isinstance(x.ctx, ast.Load):
                        if x.id in env and len(env[x.id]) == 1 and x.id not in params and depth < 3:
                            out |= kvars(env[x.id][0], depth + 1) | {x.id}
                        else:
                            out.add(x.id)
                return out
            kset = kvars(K)
            if not kset or not kset - module_level:
                continue

            def injective(k: ast.expr, depth: int = 0) -> bool:
                # different inputs must give different keys: names, attributes, tuples and exact renderings only (hash(), round(), arithmetic can collide)
                if depth > 6:
                    return False
                if isinstance(k, ast.Constant):
                    return True
                if isinstance(k, ast.Name):
                    if k.id in env and len(env[k.id]) == 1 and k.id not in params:
                        return injective(env[k.id][0], depth + 1)
                    return True
                if isinstance(k, ast.Attribute):
                    return injective(k.value, depth + 1)
                if isinstance(k, (ast.Tuple, ast.List)):
                    return all(injective(x, depth + 1) for x in k.elts)
                if isinstance(k, ast.Call) and not k.keywords:
                    if isinstance(k.func, ast.Attribute) and k.func.attr in ("tobytes", "tolist") and not k.args:
                        return injective(k.func.value, depth + 1)
                    if ast.unparse(k.func) in ("tuple", "str", "repr", "bytes", "float", "np.ascontiguousarray", "np.asarray", "frozenset") and len(k.args) == 1:
                        return injective(k.args[0], depth + 1)
                if isinstance(k, ast.Call) and ast.unparse(k.func) in ("np.ascontiguousarray", "np.asarray") and len(k.args) == 1 and all(kw.arg == "dtype" for kw in k.keywords):
                    return injective(k.args[0], depth + 1)
                return False
            if not injective(K):
                continue
            free = {x.id for x in ast.walk(E) if isinstance(x, ast.Name) and isinstance(x.ctx, ast.Load)} - module_level - set(dir(builtins))
            if not free - {"self", "cls"} <= kset:
                continue
            # `cls.helper(...)` / `self.helper(...)` is acceptable only as the callee of a closed static helper of the same class (checked below)
            owner_uses = [x for x in ast.walk(E) if isinstance(x, ast.Name) and x.id in ("self", "cls")]
            callee_attrs = {id(c.func.value): c.func.attr for c in ast.walk(E) if isinstance(c, ast.Call) and isinstance(c.func, ast.Attribute) and isinstance(c.func.value, ast.Name)
                            and c.func.value.id in ("self", "cls")}
            if any(id(x) not in callee_attrs for x in owner_uses):
                continue
            # E: numpy / math / builtins, or closed module-level functions of the same module
            closed = True
            for c in [x for x in ast.walk(E) if isinstance(x, ast.Call)]:
                if isinstance(c.func, ast.Name) and c.func.id in funcs and c.func.id not in params:
                    hf = funcs[c.func.id]
                    hloc = set(_params(hf)) | {x.id for x in ast.walk(hf) if isinstance(x, ast.Name) and isinstance(x.ctx, ast.Store)}
                    hfree = {x.id for x in ast.walk(hf) if isinstance(x, ast.Name) and isinstance(x.ctx, ast.Load)} - hloc - module_level - set(dir(builtins))
                    if hfree or any(isinstance(x, (ast.Global, ast.Nonlocal, ast.Yield)) for x in ast.walk(hf)) or any(
                            isinstance(x, ast.Attribute) and isinstance(x.ctx, ast.Store) for x in ast.walk(hf)) or "random" in ast.unparse(hf):
                        closed = False
                elif isinstance(c.func, ast.Attribute) and isinstance(c.func.value, ast.Name) and c.func.value.id in ("self", "cls"):
                    cls_name = q.split(".")[0] if "." in q else None
                    hf = funcs.get(f"{cls_name}.{c.func.attr}") if cls_name else None
                    if hf is None or "staticmethod" not in [ast.unparse(d_) for d_ in hf.decorator_list]:
                        closed = False
                    else:
                        hloc = set(_params(hf)) | {x.id for x in ast.walk(hf) if isinstance(x, ast.Name) and isinstance(x.ctx, ast.Store)}
                        hfree = {x.id for x in ast.walk(hf) if isinstance(x, ast.Name) and isinstance(x.ctx, ast.Load)} - hloc - module_level - set(dir(builtins))
                        if hfree or any(isinstance(x, (ast.Global, ast.Nonlocal, ast.Yield)) for x in ast.walk(hf)) or "random" in ast.unparse(hf):
                            closed = False
                elif isinstance(c.func, ast.Name) and c.func.id in params and c.func.id in kset:
                    pass  # the callable is itself part of the key: the entry is what *that* callable gives for the rest of the key (callables are taken as deterministic, cf. DESIGN 10.11)
                elif not _pure(ast.Expr(value=ast.Call(func=c.func, args=[], keywords=[]))):
                    closed = False
            if not closed or "random" in ast.unparse(E):
                continue
            # every load of the dict is a read of the stored key, a membership test, a size test or an eviction
            n_loads = sum(1 for x in ast.walk(fn) if isinstance(x, ast.Name) and x.id == cname)
            n_known = 0
            for x in ast.walk(fn):
                if isinstance(x, ast.Subscript) and isinstance(x.value, ast.Name) and x.value.id == cname:
                    if isinstance(x.ctx, ast.Load) and ast.unparse(x.slice) != ast.unparse(K):
                        n_known -= 100
                    n_known += 1
                elif isinstance(x, ast.Call) and isinstance(x.func, ast.Attribute) and isinstance(x.func.value, ast.Name) and x.func.value.id == cname:
                    if x.func.attr == "get" and not (len(x.args) == 1 and not x.keywords and ast.unparse(x.args[0]) == ast.unparse(K)):
                        n_known -= 100
                    n_known += 1
                elif isinstance(x, ast.Call) and isinstance(x.func, ast.Name) and x.func.id in ("len", "iter") and len(x.args) == 1 and isinstance(x.args[0], ast.Name) and x.args[0].id == cname:
                    n_known += 1
                elif isinstance(x, ast.Compare) and len(x.ops) == 1 and isinstance(x.ops[0], (ast.In, ast.NotIn)) and isinstance(x.comparators[0], ast.Name) and x.comparators[0].id == cname:
                    n_known += 1
            if n_known != n_loads:
                continue
            ktext = ast.unparse(K)
            n_reads = 0

            class R(ast.NodeTransformer):
                def visit_Subscript(self, node):  # noqa: N802
                    nonlocal n_reads
                    self.generic_visit(node)
                    if isinstance(node.ctx, ast.Load) and isinstance(node.value, ast.Name) and node.value.id == cname and ast.unparse(node.slice) == ktext:
                        n_reads += 1
                        return ast.copy_location(_clone(E), node)
                    return node

                def visit_Call(self, node):  # noqa: N802
                    nonlocal n_reads
                    self.generic_visit(node)
                    if isinstance(node.func, ast.Attribute) and node.func.attr == "get" and isinstance(node.func.value, ast.Name) and node.func.value.id == cname \
                            and len(node.args) == 1 and not node.keywords and ast.unparse(node.args[0]) == ktext:
                        n_reads += 1
                        return ast.copy_location(_clone(E), node)
                    return node
            # every remaining load of the dict must be a membership test
            R().visit(fn)
            rest = st.targets[:]
            rest.remove(sub)
            holder = None
            for b in ast.walk(fn):
                for fld in ("body", "orelse", "finalbody"):
                    lst = getattr(b, fld, None)
                    if isinstance(lst, list) and any(x is st for x in lst):
                        holder = lst
            if holder is None:
                continue
            i = next(k for k, x in enumerate(holder) if x is st)
            holder[i] = ast.copy_location(ast.Assign(targets=rest, value=_clone(E)), st) if rest else ast.copy_location(ast.Pass(), st)
            _drop_evictions(fn, cname)
            _drop_refill_guards(fn)
            ast.fix_missing_locations(fn)
            log.append(f"{mod.relpath} {q}: value memo `{cname}[{ktext}]` read as `{ast.unparse(E)[:60]}` ({n_reads} read(s))")


def _names_written_through(fn: ast.AST, name: str) -> bool:
    for x in ast.walk(fn):
        if isinstance(x, (ast.Subscript, ast.Attribute)) and isinstance(x.ctx, (ast.Store, ast.Del)):
            r = x.value
            while isinstance(r, (ast.Subscript, ast.Attribute)):
                r = r.value
            if isinstance(r, ast.Name) and r.id == name:
                return True
        if isinstance(x, ast.AugAssign) and isinstance(x.target, ast.Name) and x.target.id == name:
            return True
        if isinstance(x, ast.Call) and isinstance(x.func, ast.Attribute) and isinstance(x.func.value, ast.Name) and x.func.value.id == name and x.func.attr not in PURE_METHODS:
            return True
        if isinstance(x, ast.Call) and any(k.arg == "out" and isinstance(k.value, ast.Name) and k.value.id == name for k in x.keywords):
            return True
    return False


def _memo_value_mutated(mod: Module, funcs: dict, q: str, fn: ast.AST, cname: str, held: set[str]) -> bool:
    """Seeing through a memo gives every reader its own copy of the entry; that is only what the program does when no reader writes into the object it is handed.
    Followed inside the module: the names holding the stored value or a read in `fn`, the names bound to `fn(...)` in its callers, and one level of `return fn(...)`."""
    held = set(held)
    for x in ast.walk(fn):
        if isinstance(x, (ast.Assign, ast.AnnAssign)) and x.value is not None:
            v = x.value
            if (isinstance(v, ast.Subscript) and isinstance(v.value, ast.Name) and v.value.id == cname) or (
                    isinstance(v, ast.Call) and isinstance(v.func, ast.Attribute) and isinstance(v.func.value, ast.Name) and v.func.value.id == cname):
                held |= {t.id for t in (x.targets if isinstance(x, ast.Assign) else [x.target]) if isinstance(t, ast.Name)}
    if any(_names_written_through(fn, h) for h in held):
        return True
    short = q.split(".")[-1]
    level = [short]
    for _ in range(2):
        nxt = []
        for gq, g in funcs.items():
            if g is fn:
                continue
            for x in ast.walk(g):
                if isinstance(x, (ast.Assign, ast.AnnAssign)) and isinstance(x.value, ast.Call):
                    cal = x.value.func
                    nm = cal.id if isinstance(cal, ast.Name) else cal.attr if isinstance(cal, ast.Attribute) else None
                    if nm in level:
                        for t in (x.targets if isinstance(x, ast.Assign) else [x.target]):
                            if not isinstance(t, ast.Name) or _names_written_through(g, t.id):
                                return True
                elif isinstance(x, ast.Return) and isinstance(x.value, ast.Call):
                    cal = x.value.func
                    nm = cal.id if isinstance(cal, ast.Name) else cal.attr if isinstance(cal, ast.Attribute) else None
                    if nm in level:
                        nxt.append(gq.split(".")[-1])
        level = nxt
        if not level:
            break
    return False


def _drop_refill_guards(fn: ast.AST) -> None:
    """`m = E` followed by `if m is None: m = E` (what a get-or-compute becomes once the read is E itself): the guard re-evaluates the same pure expression."""
    for b in ast.walk(fn):
        for fld in ("body", "orelse", "finalbody"):
            lst = getattr(b, fld, None)
            if not (isinstance(lst, list) and lst and isinstance(lst[0], ast.stmt)):
                continue
            k = 0
            while k + 1 < len(lst):
                a, g = lst[k], lst[k + 1]
                if isinstance(a, ast.Assign) and len(a.targets) == 1 and isinstance(a.targets[0], ast.Name) and isinstance(g, ast.If) and not g.orelse \
                        and isinstance(g.test, ast.Compare) and len(g.test.ops) == 1 and isinstance(g.test.ops[0], ast.Is) and isinstance(g.test.left, ast.Name) \
                        and g.test.left.id == a.targets[0].id and isinstance(g.test.comparators[0], ast.Constant) and g.test.comparators[0].value is None:
                    body = [y for y in g.body if not isinstance(y, ast.Pass)]
                    if len(body) == 1 and isinstance(body[0], ast.Assign) and ast.unparse(body[0].targets) == ast.unparse(a.targets) and ast.unparse(body[0].value) == ast.unparse(a.value):
                        del lst[k + 1]
                        continue
                k += 1


def _drop_evictions(fn: ast.AST, cname: str) -> None:
    """With the store gone the dict stays empty: statements that only remove entries (`del C[k]`, `C.pop(k)`, `C.popitem()`, `C.clear()`) do nothing, and an `if`
    with a call-free size test left guarding nothing goes with them."""
    def evicts(s: ast.stmt) -> bool:
        if isinstance(s, ast.Delete):
            return all(isinstance(t, ast.Subscript) and isinstance(t.value, ast.Name) and t.value.id == cname for t in s.targets)
        return isinstance(s, ast.Expr) and isinstance(s.value, ast.Call) and isinstance(s.value.func, ast.Attribute) and isinstance(s.value.func.value, ast.Name) \
            and s.value.func.value.id == cname and s.value.func.attr in ("pop", "popitem", "clear")

    changed = True
    while changed:
        changed = False
        for b in ast.walk(fn):
            for fld in ("body", "orelse", "finalbody"):
                lst = getattr(b, fld, None)
                if not (isinstance(lst, list) and lst and isinstance(lst[0], ast.stmt)):
                    continue
                new = []
                dropped = False
                for s in lst:
                    if evicts(s):
                        dropped = True
                        continue
                    if isinstance(s, ast.If) and all(isinstance(y, ast.Pass) for y in s.body + s.orelse) and _pure(s.test) and any(isinstance(y, ast.Name) and y.id == cname for y in ast.walk(s.test)):
                        dropped = True
                        continue
                    new.append(s)
                if dropped:
                    if not new and fld == "body":
                        new = [ast.copy_location(ast.Pass(), lst[0])]
                    lst[:] = new
                    changed = True


def _append_loops_to_comprehensions(mods: dict[str, Module], log: list[str]) -> None:
    """`xs = []` immediately followed by `for T in I: xs.append(E)` (or `if c: xs.append(E)` as the whole body) is `xs = [E for T in I (if c)]`."""
    n = 0
    for mod in mods.values():
        for q, _, fn in _functions_of(mod):
            for holder in [x for x in ast.walk(fn)]:
                for fld in ("body", "orelse", "finalbody"):
                    blk = getattr(holder, fld, None)
                    if not (isinstance(blk, list) and blk and isinstance(blk[0], ast.stmt)):
                        continue
                    k = 0
                    while k + 1 < len(blk):
                        a, lp = blk[k], blk[k + 1]
                        tg = a.targets[0] if isinstance(a, ast.Assign) and len(a.targets) == 1 else a.target if isinstance(a, ast.AnnAssign) and a.value is not None else None
                        if isinstance(tg, ast.Name) and isinstance(getattr(a, "value", None), ast.List) and not a.value.elts and isinstance(lp, ast.For) and not lp.orelse and len(lp.body) == 1:
                            b0 = lp.body[0]
                            cond = None
                            if isinstance(b0, ast.If) and not b0.orelse and len(b0.body) == 1:
                                cond, b0 = b0.test, b0.body[0]
                            if isinstance(b0, ast.Expr) and isinstance(b0.value, ast.Call) and isinstance(b0.value.func, ast.Attribute) and b0.value.func.attr == "append" \
                                    and isinstance(b0.value.func.value, ast.Name) and b0.value.func.value.id == tg.id and len(b0.value.args) == 1 and not b0.value.keywords \
                                    and not any(isinstance(x, ast.Name) and x.id == tg.id for x in ast.walk(b0.value.args[0])) \
                                    and not any(isinstance(x, ast.Name) and x.id == tg.id for x in ast.walk(lp.iter)) \
                                    and not (cond is not None and any(isinstance(x, ast.Name) and x.id == tg.id for x in ast.walk(cond))) \
                                    and not any(isinstance(x, (ast.Yield, ast.YieldFrom, ast.Await, ast.NamedExpr)) for x in ast.walk(lp)):
                                comp = ast.ListComp(elt=b0.value.args[0], generators=[ast.comprehension(target=lp.target, iter=lp.iter, ifs=[cond] if cond is not None else [], is_async=0)])
                                new = ast.copy_location(ast.Assign(targets=[ast.Name(id=tg.id, ctx=ast.Store())], value=comp), a)
                                ast.fix_missing_locations(new)
                                blk[k:k + 2] = [new]
                                n += 1
                                continue
                        k += 1
    if n:
        log.append(f"{n} single-statement append loop(s) read as list comprehensions")


def _splice_starred_displays(mods: dict[str, Module], log: list[str]) -> None:
    """`f(a, *(b, c))` is `f(a, b, c)` (after a local holding the tuple has been substituted)."""
    n = 0

    def bare(e: ast.expr) -> ast.expr:
        # tuple(<display>) / list(<display>) is the display
        while isinstance(e, ast.Call) and isinstance(e.func, ast.Name) and e.func.id in ("tuple", "list") and len(e.args) == 1 and not e.keywords and isinstance(e.args[0], (ast.Tuple, ast.List)):
            e = e.args[0]
        return e

    class T(ast.NodeTransformer):
        def visit_Starred(self, node: ast.Starred):  # noqa: N802
            self.generic_visit(node)
            node.value = bare(node.value)
            return node

        def _display(self, node):
            nonlocal n
            self.generic_visit(node)
            if isinstance(node.ctx, ast.Load) and any(isinstance(a, ast.Starred) and isinstance(a.value, (ast.Tuple, ast.List)) and not any(isinstance(x, ast.Starred) for x in a.value.elts)
                                                       for a in node.elts):
                new: list[ast.expr] = []
                for a in node.elts:
                    if isinstance(a, ast.Starred) and isinstance(a.value, (ast.Tuple, ast.List)) and not any(isinstance(x, ast.Starred) for x in a.value.elts):
                        new.extend(a.value.elts)
                    else:
                        new.append(a)
                node.elts = new
                n += 1
            return node

        visit_Tuple = _display  # noqa: N815
        visit_List = _display  # noqa: N815

        def visit_Call(self, node: ast.Call):  # noqa: N802
            nonlocal n
            self.generic_visit(node)
            if any(isinstance(a, ast.Starred) and isinstance(a.value, (ast.Tuple, ast.List)) and not any(isinstance(x, ast.Starred) for x in a.value.elts) for a in node.args):
                new_args: list[ast.expr] = []
                for a in node.args:
                    if isinstance(a, ast.Starred) and isinstance(a.value, (ast.Tuple, ast.List)) and not any(isinstance(x, ast.Starred) for x in a.value.elts):
                        new_args.extend(a.value.elts)
                    else:
                        new_args.append(a)
                node.args = new_args
                n += 1
            if any(k.arg is None and isinstance(k.value, ast.Dict) and k.value.keys and all(isinstance(x, ast.Constant) and isinstance(x.value, str) and x.value.isidentifier() for x in k.value.keys)
                   for k in node.keywords):
                new_kw: list[ast.keyword] = []
                for k in node.keywords:
                    if k.arg is None and isinstance(k.value, ast.Dict) and k.value.keys and all(isinstance(x, ast.Constant) and isinstance(x.value, str) and x.value.isidentifier() for x in k.value.keys):
                        new_kw.extend(ast.keyword(arg=x.value, value=v) for x, v in zip(k.value.keys, k.value.values))
                    else:
                        new_kw.append(k)
                node.keywords = new_kw
                n += 1
            return node
    for mod in mods.values():
        for q, _, fn in _functions_of(mod):
            T().visit(fn)
            ast.fix_missing_locations(fn)
    if n:
        log.append(f"{n} starred display(s) / `**` dict display(s) spliced into their call")


def _sqlite_transaction_blocks(mods: dict[str, Module], log: list[str]) -> None:
    """`with C:` where C is a sqlite3 connection (bound to `sqlite3.connect(...)`, to a same-module helper that returns one, or the `as` name of a
    `closing(<such a call>)` item) is the transaction block `try: BODY; C.commit() except BaseException: C.rollback(); raise` - what Connection.__exit__ does
    (it does not close the connection)."""
    n = 0
    for mod in mods.values():
        openers = set()
        for q, _, fn in _functions_of(mod):
            rets = [r for r in ast.walk(fn) if isinstance(r, ast.Return) and r.value is not None]
            if rets and all(isinstance(r.value, ast.Call) and ast.unparse(r.value.func) == "sqlite3.connect" for r in rets):
                openers.add(fn.name)

        def is_open(e: ast.expr) -> bool:
            if isinstance(e, ast.Call):
                d = ast.unparse(e.func)
                if d == "sqlite3.connect" or d in openers:
                    return True
                if d in ("contextlib.closing", "closing") and len(e.args) == 1:
                    return is_open(e.args[0])
            return False
        for q, _, fn in _functions_of(mod):
            conns = {t.id for st in ast.walk(fn) if isinstance(st, ast.Assign) and is_open(st.value) for t in st.targets if isinstance(t, ast.Name)}
            for w in ast.walk(fn):
                if isinstance(w, ast.With):
                    for it in w.items:
                        if is_open(it.context_expr) and isinstance(it.optional_vars, ast.Name) and ast.unparse(it.context_expr.func) in ("contextlib.closing", "closing"):
                            conns.add(it.optional_vars.id)
            if not conns:
                continue
            changed = True
            while changed:
                changed = False
                for owner in ast.walk(fn):
                    for fld in ("body", "orelse", "finalbody"):
                        blk = getattr(owner, fld, None)
                        if not (isinstance(blk, list) and blk and isinstance(blk[0], ast.stmt)):
                            continue
                        for i, w in enumerate(blk):
                            if not isinstance(w, ast.With):
                                continue
                            ks = [k for k, it in enumerate(w.items) if isinstance(it.context_expr, ast.Name) and it.context_expr.id in conns and it.optional_vars is None]
                            if not ks:
                                continue
                            k = ks[0]
                            c = w.items[k].context_expr.id
                            inner_body = w.body if k + 1 == len(w.items) else [ast.copy_location(ast.With(items=w.items[k + 1:], body=w.body), w)]

                            def call(meth: str) -> ast.stmt:
                                return ast.copy_location(ast.Expr(value=ast.Call(func=ast.Attribute(value=ast.Name(id=c, ctx=ast.Load()), attr=meth, ctx=ast.Load()), args=[], keywords=[])), w)
                            tr = ast.copy_location(ast.Try(body=[*inner_body, call("commit")], handlers=[ast.ExceptHandler(type=ast.Name(id="BaseException", ctx=ast.Load()), name=None,
                                                                                                                         body=[call("rollback"), ast.copy_location(ast.Raise(exc=None, cause=None), w)])],
                                                           orelse=[], finalbody=[]), w)
                            blk[i] = tr if k == 0 else ast.copy_location(ast.With(items=w.items[:k], body=[tr]), w)
                            ast.fix_missing_locations(blk[i])
                            n += 1
                            changed = True
                            break
    if n:
        log.append(f"{n} `with <sqlite3 connection>:` block(s) read as try / commit / except: rollback; raise")


def _exitstack_to_try(mods: dict[str, Module], log: list[str]) -> None:
    """`with contextlib.ExitStack() as stack: A; stack.callback(f, *a); B` (callbacks registered by top-level statements of the body, `stack` used for nothing
    else) is `A; try: B finally: f(*a)` - callbacks run in reverse order of registration, whatever way the body is left."""
    n = 0
    for mod in mods.values():
        for q, _, fn in _functions_of(mod):
            for holder in [x for x in ast.walk(fn) if isinstance(getattr(x, "body", None), list)]:
                for fld in ("body", "orelse", "finalbody"):
                    blk = getattr(holder, fld, None)
                    if not isinstance(blk, list):
                        continue
                    for i, st in enumerate(list(blk)):
                        if not (isinstance(st, ast.With) and len(st.items) == 1 and isinstance(st.items[0].context_expr, ast.Call)
                                and ast.unparse(st.items[0].context_expr.func) in ("contextlib.ExitStack", "ExitStack") and not st.items[0].context_expr.args
                                and isinstance(st.items[0].optional_vars, ast.Name)):
                            continue
                        sv = st.items[0].optional_vars.id
                        uses = [x for x in ast.walk(st) if isinstance(x, ast.Name) and x.id == sv and isinstance(x.ctx, ast.Load)]
                        regs = [(k, b) for k, b in enumerate(st.body) if isinstance(b, ast.Expr) and isinstance(b.value, ast.Call) and isinstance(b.value.func, ast.Attribute)
                                and b.value.func.attr == "callback" and isinstance(b.value.func.value, ast.Name) and b.value.func.value.id == sv and b.value.args
                                and not any(isinstance(a, ast.Starred) for a in b.value.args)]
                        # `x = stack.enter_context(CM)` / bare `stack.enter_context(CM)` as a top-level statement: `with CM as x:` around what follows
                        enters = [(k, b) for k, b in enumerate(st.body) if isinstance(b, (ast.Assign, ast.Expr)) and isinstance(b.value, ast.Call) and isinstance(b.value.func, ast.Attribute)
                                  and b.value.func.attr == "enter_context" and isinstance(b.value.func.value, ast.Name) and b.value.func.value.id == sv and len(b.value.args) == 1
                                  and not b.value.keywords and (isinstance(b, ast.Expr) or (len(b.targets) == 1 and isinstance(b.targets[0], ast.Name)))]
                        if not (regs or enters) or len(uses) != len(regs) + len(enters):
                            continue

                        def build(stmts: list[ast.stmt]) -> list[ast.stmt]:
                            for k, b in enumerate(stmts):
                                if any(b is r for _, r in enters):
                                    item = ast.withitem(context_expr=b.value.args[0], optional_vars=ast.Name(id=b.targets[0].id, ctx=ast.Store()) if isinstance(b, ast.Assign) else None)
                                    rest = build(stmts[k + 1:]) or [ast.Pass()]
                                    w = ast.With(items=[item], body=rest)
                                    return [*stmts[:k], ast.copy_location(w, b)]
                                if any(b is r for _, r in regs):
                                    c = b.value
                                    call = ast.Expr(value=ast.Call(func=c.args[0], args=list(c.args[1:]), keywords=list(c.keywords)))
                                    rest = build(stmts[k + 1:]) or [ast.Pass()]
                                    tr = ast.Try(body=rest, handlers=[], orelse=[], finalbody=[call])
                                    return [*stmts[:k], ast.copy_location(tr, b)]
                            return stmts
                        new = build(list(st.body))
                        for x in new:
                            ast.copy_location(x, st) if not hasattr(x, "lineno") else None
                            ast.fix_missing_locations(x)
                        idx = next(k for k, y in enumerate(blk) if y is st)
                        blk[idx:idx + 1] = new
                        n += 1
    if n:
        log.append(f"{n} ExitStack block(s) read as the nested with / try-finally blocks they stand for")


def _canonical_foreach(mods: dict[str, Module], log: list[str]) -> None:
    """Two loop spellings are read as the for-each loop they stand for:
    (1) `i = a; while i < n: BODY; i += 1` (i not otherwise stored in BODY, no break/continue, i dead afterwards) is `for i in range(a, n): BODY`;
    (2) `for i in range(len(X))` / `range(0, len(X))` whose body uses `i` only as `X[i]` (X a pure expression nothing in the body can change, possibly a
        `tuple(Y)` / `list(Y)` snapshot of such a Y) is `for x in X` with `x` for `X[i]`."""
    n1 = n2 = n3 = 0
    uid = 0
    for mod in mods.values():
        for q, _, fn in _functions_of(mod):
            # (1)
            work: list[ast.AST] = [fn]
            while work:
                node = work.pop()
                for fld in ("body", "orelse", "finalbody"):
                    b = getattr(node, fld, None)
                    if not (isinstance(b, list) and b and isinstance(b[0], ast.stmt)):
                        continue
                    k = 0
                    while k < len(b):
                        st = b[k]
                        if isinstance(st, ast.While) and isinstance(st.test, ast.Compare) and len(st.test.ops) == 1 and isinstance(st.test.ops[0], ast.Gt) \
                                and isinstance(st.test.comparators[0], ast.Name) and not isinstance(st.test.left, ast.Name):
                            st.test = ast.copy_location(ast.Compare(left=st.test.comparators[0], ops=[ast.Lt()], comparators=[st.test.left]), st.test)     # `n > i` is `i < n`
                        if isinstance(st, ast.While) and isinstance(st.test, ast.Compare) and len(st.test.ops) == 1 and isinstance(st.test.ops[0], ast.LtE) and isinstance(st.test.left, ast.Name) \
                                and isinstance(st.test.comparators[0], ast.Constant) and type(st.test.comparators[0].value) is int:
                            st.test = ast.copy_location(ast.Compare(left=st.test.left, ops=[ast.Lt()], comparators=[ast.Constant(value=st.test.comparators[0].value + 1)]), st.test)  # i <= 5 is i < 6
                        if isinstance(st, ast.While) and not st.orelse and isinstance(st.test, ast.Compare) and len(st.test.ops) == 1 and isinstance(st.test.ops[0], ast.Lt) \
                                and isinstance(st.test.left, ast.Name) and st.body and not any(isinstance(x, (ast.Break, ast.Continue, ast.Return)) for x in ast.walk(st)):
                            iv = st.test.left.id
                            bound = st.test.comparators[0]
                            last = st.body[-1]
                            inc = (isinstance(last, ast.AugAssign) and isinstance(last.op, ast.Add) and isinstance(last.target, ast.Name) and last.target.id == iv
                                   and isinstance(last.value, ast.Constant) and last.value.value == 1) or \
                                  (isinstance(last, ast.Assign) and len(last.targets) == 1 and isinstance(last.targets[0], ast.Name) and last.targets[0].id == iv
                                   and ast.unparse(last.value) in (f"{iv} + 1", f"1 + {iv}"))
                            stores_in_body = sum(1 for s2 in st.body[:-1] for x in ast.walk(s2) if isinstance(x, ast.Name) and x.id == iv and isinstance(x.ctx, ast.Store))
                            # the initialisation: the closest earlier sibling that stores iv, a literal int, nothing in between reads or stores it
                            init = None
                            for j in range(k - 1, -1, -1):
                                if any(isinstance(x, ast.Name) and x.id == iv for x in ast.walk(b[j])):
                                    if isinstance(b[j], ast.Assign) and len(b[j].targets) == 1 and isinstance(b[j].targets[0], ast.Name) and b[j].targets[0].id == iv \
                                            and isinstance(b[j].value, ast.Constant) and type(b[j].value.value) is int:
                                        init = j
                                    break
                            after = any(isinstance(x, ast.Name) and x.id == iv for s2 in b[k + 1:] for x in ast.walk(s2))
                            bound_names = {x.id for x in ast.walk(bound) if isinstance(x, ast.Name)}
                            bound_stable = _pure(bound) and not any(isinstance(x, ast.Name) and x.id in bound_names and isinstance(x.ctx, ast.Store) for s2 in st.body for x in ast.walk(s2)) \
                                and not any(isinstance(x, ast.Call) and isinstance(x.func, ast.Attribute) and x.func.attr in ("append", "extend", "pop", "remove", "insert", "clear", "update", "resize")
                                            and any(isinstance(y, ast.Name) and y.id in bound_names for y in ast.walk(x.func.value)) for s2 in st.body for x in ast.walk(s2))
                            if inc and stores_in_body == 0 and init is not None and not after and bound_stable:
                                new = ast.For(target=ast.Name(id=iv, ctx=ast.Store()),
                                              iter=ast.Call(func=ast.Name(id="range", ctx=ast.Load()), args=[b[init].value, bound] if b[init].value.value != 0 else [bound], keywords=[]),
                                              body=st.body[:-1] or [ast.Pass()], orelse=[])
                                ast.copy_location(new, st)
                                b[k] = new
                                del b[init]
                                k -= 1
                                n1 += 1
                        k += 1
                    for st in b:
                        if not isinstance(st, (*FuncNode, ast.ClassDef)):
                            work.append(st)
                if isinstance(node, ast.Try):
                    work.extend(node.handlers)
            # (2)
            for lp in [x for x in ast.walk(fn) if isinstance(x, ast.For)]:
                it = lp.iter
                if not (isinstance(lp.target, ast.Name) and isinstance(it, ast.Call) and isinstance(it.func, ast.Name) and it.func.id == "range" and not it.keywords):
                    continue
                args = it.args
                if len(args) == 2 and isinstance(args[0], ast.Constant) and args[0].value == 0:
                    args = args[1:]
                if len(args) != 1 or not (isinstance(args[0], ast.Call) and isinstance(args[0].func, ast.Name) and args[0].func.id == "len" and len(args[0].args) == 1):
                    continue
                X = args[0].args[0]
                iv = lp.target.id
                xt = ast.unparse(X)
                uses = [x for s2 in lp.body for x in ast.walk(s2) if isinstance(x, ast.Name) and x.id == iv]
                subs = [x for s2 in lp.body for x in ast.walk(s2) if isinstance(x, ast.Subscript) and isinstance(x.slice, ast.Name) and x.slice.id == iv and ast.unparse(x.value) == xt
                        and isinstance(x.ctx, ast.Load)]
                if not uses or len(uses) != len(subs) or not _pure(X):
                    continue
                if any(isinstance(x, ast.Name) and x.id == iv for blk in [getattr(p_, f_, []) for p_ in ast.walk(fn) for f_ in ("body", "orelse") if isinstance(getattr(p_, f_, None), list)]
                       for idx_, s2 in enumerate(blk) if s2 is lp for s3 in blk[idx_ + 1:] for x in ast.walk(s3)):
                    continue
                base = X
                while isinstance(base, ast.Call) and isinstance(base.func, ast.Name) and base.func.id in ("tuple", "list") and len(base.args) == 1 and not base.keywords:
                    base = base.args[0]
                names = {x.id for x in ast.walk(base) if isinstance(x, ast.Name)}
                attrs = {x.attr for x in ast.walk(base) if isinstance(x, ast.Attribute)}
                if any(isinstance(x, ast.Name) and x.id in names and isinstance(x.ctx, ast.Store) for s2 in lp.body for x in ast.walk(s2)):
                    continue
                if any(isinstance(x, ast.Attribute) and x.attr in attrs and isinstance(x.ctx, ast.Store) and not isinstance(getattr(x, "_parent", None), ast.Attribute) for s2 in lp.body for x in ast.walk(s2)):
                    continue
                uid += 1
                en = f"{iv}__elem{uid}" if iv in ("i", "j", "k", "idx", "index", "position", "pos", "n") else f"{iv}__elem{uid}"
                for x in subs:
                    x.__class__ = ast.Name
                    x.__dict__.clear()
                    x.id, x.ctx = en, ast.Load()
                lp.target = ast.Name(id=en, ctx=ast.Store())
                lp.iter = base
                ast.fix_missing_locations(fn)
                n2 += 1
            # (3) enumerate whose counter is never read: `for _k, x in enumerate(X[, start])` is `for x in X`
            for node in ast.walk(fn):
                gens = node.generators if isinstance(node, (ast.ListComp, ast.GeneratorExp, ast.SetComp, ast.DictComp)) else [node] if isinstance(node, ast.For) else []
                for gnode in gens:
                    it, tg = gnode.iter, gnode.target
                    if not (isinstance(it, ast.Call) and isinstance(it.func, ast.Name) and it.func.id == "enumerate" and it.args and isinstance(tg, ast.Tuple) and len(tg.elts) == 2
                            and isinstance(tg.elts[0], ast.Name)):
                        continue
                    cnt = tg.elts[0].id
                    scope = [node] if not isinstance(node, ast.For) else [*node.body, *node.orelse]
                    reads = [x for sc in scope for x in ast.walk(sc) if isinstance(x, ast.Name) and x.id == cnt and isinstance(x.ctx, ast.Load)]
                    after = False
                    if isinstance(node, ast.For):
                        after = any(isinstance(x, ast.Name) and x.id == cnt and isinstance(x.ctx, ast.Load) for x in ast.walk(fn)
                                    if not any(x is y for sc in scope for y in ast.walk(sc)))
                    if reads or after:
                        continue
                    gnode.iter = it.args[0]
                    gnode.target = tg.elts[1]
                    n3 += 1
            if n3:
                ast.fix_missing_locations(fn)
    if n3:
        log.append(f"{n3} enumerate() whose counter is never read dropped")
    if n1:
        log.append(f"{n1} index-driven while loop(s) read as for loops over a range")
    if n2:
        log.append(f"{n2} loop(s) over range(len(X)) that only read X[i] read as loops over X")


def _apply_trampolines(mods: dict[str, Module], inv: dict, log: list[str]) -> None:
    """A new helper whose whole body is `return f(*args)` - f one of its positional parameters, args its var-positional parameter (a "run this stage and
    log if it fails" wrapper once its re-raising try has been read as its body) - is the call it forwards: `self._run("fit", self.fit, x, y)` is `self.fit(x, y)`."""
    n = 0
    for mod in mods.values():
        old = inv["modules"].get(mod.name)
        tramps: dict[str, tuple[int, bool]] = {}        # helper name -> (index of the callable among the explicit parameters, is method)
        for q, cls, fn in _functions_of(mod):
            known = (old["classes"].get(cls.name, {}).get("methods", {}) if cls is not None and old is not None else (old["functions"] if old is not None else {}))
            if fn.name in known or fn.args.vararg is None or fn.args.kwonlyargs or fn.decorator_list and [ast.unparse(d) for d in fn.decorator_list] != ["staticmethod"]:
                continue
            body = [b for b in fn.body if not (isinstance(b, ast.Expr) and isinstance(b.value, ast.Constant))]
            if len(body) != 1 or not isinstance(body[0], ast.Return) or not isinstance(body[0].value, ast.Call):
                continue
            c = body[0].value
            pos = [a.arg for a in [*fn.args.posonlyargs, *fn.args.args]]
            is_method = cls is not None and not fn.decorator_list
            explicit = pos[1:] if is_method else pos
            if isinstance(c.func, ast.Name) and c.func.id in explicit and len(c.args) == 1 and isinstance(c.args[0], ast.Starred) and isinstance(c.args[0].value, ast.Name) \
                    and c.args[0].value.id == fn.args.vararg.arg and (not c.keywords or (len(c.keywords) == 1 and c.keywords[0].arg is None and fn.args.kwarg is not None
                                                                                         and ast.unparse(c.keywords[0].value) == fn.args.kwarg.arg)):
                tramps[fn.name] = (explicit.index(c.func.id), is_method, len(explicit))
        if not tramps:
            continue

        class T(ast.NodeTransformer):
            def visit_Call(self, node: ast.Call):  # noqa: N802
                nonlocal n
                self.generic_visit(node)
                nm = node.func.attr if isinstance(node.func, ast.Attribute) and isinstance(node.func.value, ast.Name) and node.func.value.id in ("self", "cls") else \
                    node.func.id if isinstance(node.func, ast.Name) else None
                if nm in tramps and not any(isinstance(a, ast.Starred) for a in node.args) and all(k.arg for k in node.keywords):
                    k_, _is_m, n_explicit = tramps[nm]
                    if len(node.args) >= n_explicit and _simple(node.args[k_]):
                        n += 1
                        return ast.copy_location(ast.Call(func=node.args[k_], args=list(node.args[n_explicit:]), keywords=list(node.keywords)), node)
                return node
        for q, _, fn in _functions_of(mod):
            if fn.name not in tramps:
                T().visit(fn)
                ast.fix_missing_locations(fn)
    if n:
        log.append(f"{n} call(s) through a forwarding wrapper (`return f(*args)`) read as the forwarded call")


def _select_from_displays(mods: dict[str, Module], log: list[str]) -> None:
    """`(a, b)[0]` with a literal index is `a` when the elements that are dropped are pure (typically a tuple-returning helper read in place)."""
    n = 0

    class T(ast.NodeTransformer):
        def visit_Subscript(self, node: ast.Subscript):  # noqa: N802
            nonlocal n
            self.generic_visit(node)
            if isinstance(node.ctx, ast.Load) and isinstance(node.value, (ast.Tuple, ast.List)) and isinstance(node.slice, ast.Constant) and isinstance(node.slice.value, int) \
                    and not isinstance(node.slice.value, bool) and -len(node.value.elts) <= node.slice.value < len(node.value.elts) \
                    and not any(isinstance(x, ast.Starred) for x in node.value.elts):
                k = node.slice.value % len(node.value.elts)
                rest = [x for i, x in enumerate(node.value.elts) if i != k]
                if all(_pure(x) for x in rest):
                    n += 1
                    return ast.copy_location(node.value.elts[k], node)
            return node
    for mod in mods.values():
        for q, _, fn in _functions_of(mod):
            T().visit(fn)
            ast.fix_missing_locations(fn)
    if n:
        log.append(f"{n} constant selection(s) from a tuple display reduced")


def _apply_partials(mods: dict[str, Module], log: list[str]) -> None:
    """`g = partial(F, a, k=v)` bound once to a local that is only ever *called* in the same function: `g(b)` is `F(a, b, k=v)`."""
    n = 0
    for mod in mods.values():
        for q, _, fn in _functions_of(mod):
            binds = {}
            for st in ast.walk(fn):
                if isinstance(st, ast.Assign) and len(st.targets) == 1 and isinstance(st.targets[0], ast.Name) and isinstance(st.value, ast.Call) \
                        and ast.unparse(st.value.func) in ("partial", "functools.partial") and st.value.args and not any(isinstance(a, ast.Starred) for a in st.value.args) \
                        and all(k.arg for k in st.value.keywords):
                    binds.setdefault(st.targets[0].id, []).append(st)
            for name, sts in binds.items():
                if len(sts) != 1:
                    continue
                st = sts[0]
                occ = [x for x in ast.walk(fn) if isinstance(x, ast.Name) and x.id == name]
                stores = [x for x in occ if isinstance(x.ctx, ast.Store)]
                calls = [c for c in ast.walk(fn) if isinstance(c, ast.Call) and isinstance(c.func, ast.Name) and c.func.id == name]
                if len(stores) != 1 or len(occ) - 1 != len(calls) or not calls:
                    continue
                bound_args = st.value.args[1:]
                if not all(_simple(a) or isinstance(a, ast.Constant) for a in [*bound_args, *[k.value for k in st.value.keywords]]):
                    continue
                # the bound arguments must not be re-bound between the partial and its calls: keep to names bound once in the function (loop variables of an
                # unrolled literal loop have already been replaced)
                names = {x.id for a in [*bound_args, *[k.value for k in st.value.keywords], st.value.args[0]] for x in ast.walk(a) if isinstance(x, ast.Name)}
                if any(sum(1 for x in ast.walk(fn) if isinstance(x, ast.Name) and x.id == nm and isinstance(x.ctx, ast.Store)) > 1 for nm in names):
                    continue
                def inner_loop(node):
                    cur = getattr(node, "_parent", None)
                    while cur is not None and cur is not fn:
                        if isinstance(cur, (ast.For, ast.While, ast.AsyncFor, ast.ListComp, ast.GeneratorExp, ast.SetComp, ast.DictComp, ast.Lambda, ast.FunctionDef)):
                            return cur
                        cur = getattr(cur, "_parent", None)
                    return None
                for node in ast.walk(fn):
                    for child in ast.iter_child_nodes(node):
                        child._parent = node  # type: ignore[attr-defined]
                # the binding runs before every call and what it binds is not re-bound in between: same loop nesting, or a binding outside every loop
                if any((inner_loop(c) is not inner_loop(st) and inner_loop(st) is not None) or (c.lineno, c.col_offset) <= (st.lineno, st.col_offset) for c in calls):
                    continue
                if inner_loop(st) is None and any(sum(1 for x in ast.walk(fn) if isinstance(x, ast.Name) and x.id == nm and isinstance(x.ctx, ast.Store)) > 0 and nm not in _params(fn)
                                                  and not all(getattr(x, "lineno", 0) < st.lineno for x in ast.walk(fn) if isinstance(x, ast.Name) and x.id == nm and isinstance(x.ctx, ast.Store))
                                                  for nm in names):
                    continue
                for c in calls:
                    c.func = _clone(st.value.args[0])
                    c.args = [*[_clone(a) for a in bound_args], *c.args]
                    have = {k.arg for k in c.keywords}
                    c.keywords = [*[ast.keyword(arg=k.arg, value=_clone(k.value)) for k in st.value.keywords if k.arg not in have], *c.keywords]
                # drop the binding
                for b in ast.walk(fn):
                    for fld in ("body", "orelse", "finalbody"):
                        lst = getattr(b, fld, None)
                        if isinstance(lst, list) and any(x is st for x in lst):
                            lst[:] = [x for x in lst if x is not st] or [ast.copy_location(ast.Pass(), st)]
                n += 1
                ast.fix_missing_locations(fn)
    if n:
        log.append(f"{n} local functools.partial object(s) applied at their call sites")


def _always_raises(stmts: list[ast.stmt]) -> bool:
    """Every path through `stmts` ends in a raise (simple statements, then `raise` or an if/else whose branches do)."""
    if not stmts:
        return False
    for st in stmts[:-1]:
        if not isinstance(st, (ast.Assign, ast.AnnAssign, ast.AugAssign, ast.Expr, ast.Pass)):
            if isinstance(st, ast.If) and _always_raises(st.body) and not st.orelse:
                continue    # guard clause that raises
            return False
    last = stmts[-1]
    if isinstance(last, ast.Raise):
        return True
    if isinstance(last, ast.If) and last.orelse:
        return _always_raises(last.body) and _always_raises(last.orelse)
    return False


RERAISING_TRY: list[dict] = []
RERAISING_TRY_NODES: list[tuple[dict, list[ast.stmt], ast.ExceptHandler]] = []   # the same records with the statements themselves (for rules about exceptions)


def _handler_only_reports(h: ast.ExceptHandler) -> bool:
    """The handler does nothing but report and raise: raises, bindings of locals to call-free or message-building expressions, print / logging / warnings calls, and
    `if` over those.  A handler that calls anything else (rollback, close, unlink, a reset) has an effect the body-only reading would lose."""
    def ok_call(c: ast.Call) -> bool:
        d = ast.unparse(c.func)
        root = d.split(".")[0]
        return d in ("print", "str", "repr", "type", "format", "len", "isinstance", "getattr", "warnings.warn", "textwrap.dedent") or root in ("logger", "logging", "log", "_logger", "LOGGER") \
            or d.startswith("type(") \
            or d.endswith((".format", ".join", ".with_traceback", ".add_note")) or (d[:1].isupper() or "." in d and d.split(".")[-1][:1].isupper())      # building the exception to raise

    def ok(st: ast.stmt) -> bool:
        if isinstance(st, (ast.Raise, ast.Pass)):
            return True     # whatever builds the exception that is raised (a constructor, a helper that words the message) reports, it does not repair
        if isinstance(st, (ast.Assign, ast.AnnAssign)) and all(isinstance(t, ast.Name) for t in (st.targets if isinstance(st, ast.Assign) else [st.target])):
            return all(ok_call(c) for c in ast.walk(st) if isinstance(c, ast.Call))
        if isinstance(st, ast.Expr):
            return isinstance(st.value, ast.Constant) or (isinstance(st.value, ast.Call) and all(ok_call(c) for c in ast.walk(st.value) if isinstance(c, ast.Call)))
        if isinstance(st, ast.If):
            return all(ok_call(c) for c in ast.walk(st.test) if isinstance(c, ast.Call)) and all(ok(b) for b in [*st.body, *st.orelse])
        return False
    return all(ok(st) for st in h.body)


def _flatten_reraising_try(mods: dict[str, Module], log: list[str]) -> None:
    """`try: BODY except E as e: ...; raise ...` (no else / finally, every handler ends in a raise on every path) runs BODY and nothing else whenever no
    exception is raised: for the rules that read values it *is* BODY.  What the handlers raise is recorded (RERAISING_TRY) for the rules about exceptions."""
    RERAISING_TRY.clear()
    RERAISING_TRY_NODES.clear()
    n = 0
    for mod in mods.values():
        for q, _, fn in _functions_of(mod):
            def rewrite(stmts: list[ast.stmt]) -> list[ast.stmt]:
                nonlocal n
                out: list[ast.stmt] = []
                for st in stmts:
                    for fld in ("body", "orelse", "finalbody"):
                        v = getattr(st, fld, None)
                        if isinstance(v, list) and v and isinstance(v[0], ast.stmt) and not isinstance(st, (*FuncNode, ast.ClassDef)):
                            setattr(st, fld, rewrite(v))
                    for hd in getattr(st, "handlers", []) or []:
                        hd.body = rewrite(hd.body)
                    for cs in getattr(st, "cases", []) or []:
                        cs.body = rewrite(cs.body)
                    if isinstance(st, ast.Try) and st.handlers and not st.orelse and not st.finalbody and all(_always_raises(h.body) and _handler_only_reports(h) for h in st.handlers):
                        for h in st.handlers:
                            forms = []
                            for r in [x for b in h.body for x in ast.walk(b) if isinstance(x, ast.Raise)]:
                                if r.exc is None or (isinstance(r.exc, ast.Name) and r.exc.id == h.name):
                                    forms.append("same")
                                else:
                                    forms.append("new:" + ast.unparse(r.exc)[:80])
                            RERAISING_TRY_NODES.append(({"module": mod.name, "function": q, "raises": forms, "catches": ast.unparse(h.type) if h.type is not None else "everything"}, list(st.body), h))
                            RERAISING_TRY.append({"module": mod.name, "relpath": mod.relpath, "function": q, "lineno": st.lineno, "catches": ast.unparse(h.type) if h.type is not None else "everything",
                                                  "raises": forms, "body": [ast.unparse(b)[:200] for b in st.body]})
                        out.extend(st.body)
                        n += 1
                        continue
                    out.append(st)
                return out
            fn.body = rewrite(fn.body)
    if n:
        log.append(f"{n} try statement(s) whose handlers always re-raise read as their body")


def _split_conditional_with(mods: dict[str, Module], log: list[str]) -> None:
    """`with f(x, mode=A if c else B) as v: body` with a pure test `c` is read as `if c: with f(.., A): body else: with f(.., B): body`, and inside a branch
    taken under `c` (resp. `not c`) a nested `if c:` keeps only the branch that can run."""
    def fold(stmts: list[ast.stmt], test_dump: str, truth: bool) -> list[ast.stmt]:
        out: list[ast.stmt] = []
        for st in stmts:
            if isinstance(st, ast.If) and ast.dump(st.test) == test_dump:
                out.extend(fold(st.body if truth else st.orelse, test_dump, truth))
                continue
            if isinstance(st, ast.If) and isinstance(st.test, ast.UnaryOp) and isinstance(st.test.op, ast.Not) and ast.dump(st.test.operand) == test_dump:
                out.extend(fold(st.orelse if truth else st.body, test_dump, truth))
                continue
            for fld in ("body", "orelse", "finalbody"):
                b = getattr(st, fld, None)
                if isinstance(b, list) and b and isinstance(b[0], ast.stmt) and not isinstance(st, (*FuncNode, ast.ClassDef)):
                    setattr(st, fld, fold(b, test_dump, truth) or ([ast.copy_location(ast.Pass(), st)] if fld == "body" else []))
            out.append(st)
        return out

    for mod in mods.values():
        for q, _, fn in _functions_of(mod):
            work: list[ast.AST] = [fn]
            while work:
                node = work.pop()
                for fld in ("body", "orelse", "finalbody"):
                    b = getattr(node, fld, None)
                    if not (isinstance(b, list) and b and isinstance(b[0], ast.stmt)):
                        continue
                    for i, st in enumerate(list(b)):
                        if isinstance(st, ast.With) and len(st.items) == 1:
                            ies = [n for n in ast.walk(st.items[0].context_expr) if isinstance(n, ast.IfExp)]
                            if len(ies) == 1 and _pure(ies[0].test):
                                ie = ies[0]
                                names, attrs = _reads(ie.test)
                                # the test must not be invalidated inside the block (re-evaluated by nested ifs)
                                if any(isinstance(n, ast.Name) and n.id in names and isinstance(n.ctx, ast.Store) for s2 in st.body for n in ast.walk(s2)):
                                    continue
                                td = ast.dump(ie.test)
                                branches = []
                                for br, truth in ((ie.body, True), (ie.orelse, False)):
                                    w = _clone(st)
                                    target_ie = [n for n in ast.walk(w.items[0].context_expr) if isinstance(n, ast.IfExp)][0]
                                    class R(ast.NodeTransformer):
                                        def visit_IfExp(self, node):  # noqa: N802
                                            return _clone(br) if node is target_ie else node
                                    w.items[0].context_expr = R().visit(w.items[0].context_expr)
                                    w.body = fold(w.body, td, truth) or [ast.copy_location(ast.Pass(), st)]
                                    branches.append(w)
                                new_if = ast.copy_location(ast.If(test=_clone(ie.test), body=[branches[0]], orelse=[branches[1]]), st)
                                ast.fix_missing_locations(new_if)
                                b[b.index(st)] = new_if
                                log.append(f"{mod.relpath}:{st.lineno} {q}: `with` on a conditional argument split into its two cases")
                    for st in b:
                        if not isinstance(st, (*FuncNode, ast.ClassDef)):
                            work.append(st)


# ---------------------------------------------------------------------------------------------------- module constants
def _const_expr(v: ast.expr, depth: int = 0) -> bool:
    """A literal, or arithmetic over literals (`2**16`, `-1`, `(1, 2)`)."""
    if depth > 4:
        return False
    if isinstance(v, ast.Constant):
        return True
    if isinstance(v, ast.UnaryOp):
        return _const_expr(v.operand, depth + 1)
    if isinstance(v, ast.BinOp):
        return _const_expr(v.left, depth + 1) and _const_expr(v.right, depth + 1)
    if isinstance(v, ast.Tuple):
        return all(_const_expr(x, depth + 1) for x in v.elts)
    return False


def _inline_new_constants(mods: dict[str, Module], inv: dict, log: list[str]) -> None:
    """A module-level name that the reference tree does not have, bound once to a literal (`_SERIES_FILENAME = "series_samp.h5"`), is read as that literal."""
    for mod in mods.values():
        old = inv["modules"].get(mod.name)
        if old is None or "constants" not in old:
            continue
        new_consts: dict[str, ast.expr] = {}
        for node in mod.tree.body:
            if isinstance(node, ast.Assign) and len(node.targets) == 1 and isinstance(node.targets[0], ast.Name) and node.targets[0].id not in old["constants"]:
                v = node.value
                lit = _const_expr(v)
                if lit:
                    new_consts[node.targets[0].id] = v
        for name in list(new_consts):
            stores = sum(1 for n in ast.walk(mod.tree) if isinstance(n, ast.Name) and n.id == name and isinstance(n.ctx, ast.Store))
            shadow = any(isinstance(n, ast.arg) and n.arg == name for n in ast.walk(mod.tree)) or any(isinstance(n, ast.Global) and name in n.names for n in ast.walk(mod.tree))
            if stores != 1 or shadow:
                new_consts.pop(name)
        if not new_consts:
            continue
        sub = _Subst(new_consts)
        for i, node in enumerate(mod.tree.body):
            if isinstance(node, ast.Assign) and len(node.targets) == 1 and isinstance(node.targets[0], ast.Name) and node.targets[0].id in new_consts:
                continue
            mod.tree.body[i] = sub.visit(node)
        # other modules importing the constant
        for other in mods.values():
            if other is mod:
                continue
            imported = {a.asname or a.name: a.name for n in ast.walk(other.tree) if isinstance(n, ast.ImportFrom) and n.module and mod.name.endswith(n.module.lstrip("."))
                        for a in n.names if a.name in new_consts}
            if imported:
                sub2 = _Subst({local: new_consts[orig] for local, orig in imported.items()})
                other.tree.body = [st if isinstance(st, (ast.Import, ast.ImportFrom)) else sub2.visit(st) for st in other.tree.body]
        log.append(f"{mod.relpath}: new literal constants read as their values: {sorted(new_consts)}")


# ---------------------------------------------------------------------------------------------------- records
def _record_classes(mods: dict[str, Module], inv: dict) -> dict[str, list[tuple[str, ast.expr | None]]]:
    """New (not in the reference inventory) NamedTuple / dataclass classes without methods: name -> [(field, default)] in declaration order."""
    out: dict[str, list[tuple[str, ast.expr | None]]] = {}
    seen: dict[str, int] = {}
    for mod in mods.values():
        for node in ast.walk(mod.tree):
            if isinstance(node, ast.ClassDef):
                seen[node.name] = seen.get(node.name, 0) + 1
    for mod in mods.values():
        old = inv["modules"].get(mod.name)
        for node in mod.tree.body:
            if not isinstance(node, ast.ClassDef) or (old is not None and node.name in old["classes"]) or seen.get(node.name, 0) != 1:
                continue
            bases = [ast.unparse(b).split(".")[-1] for b in node.bases]
            deco = [ast.unparse(d.func if isinstance(d, ast.Call) else d).split(".")[-1] for d in node.decorator_list]
            if "NamedTuple" not in bases and "dataclass" not in deco:
                continue
            fields: list[tuple[str, ast.expr | None]] = []
            ok = True
            for st in node.body:
                if isinstance(st, ast.AnnAssign) and isinstance(st.target, ast.Name):
                    if "ClassVar" in ast.unparse(st.annotation):
                        continue
                    fields.append((st.target.id, st.value))
                elif isinstance(st, ast.Expr) and isinstance(st.value, ast.Constant):
                    continue  # docstring
                elif isinstance(st, ast.Pass):
                    continue
                else:
                    ok = False  # methods / properties: the record is more than a bundle of values
            if ok and fields:
                out[node.name] = fields
    return out


def _record_args(fields: list[tuple[str, ast.expr | None]], call: ast.Call) -> list[ast.expr] | None:
    if any(isinstance(a, ast.Starred) for a in call.args) or any(k.arg is None for k in call.keywords) or len(call.args) > len(fields):
        return None
    vals: dict[str, ast.expr] = {f: a for (f, _), a in zip(fields, call.args)}
    for k in call.keywords:
        if k.arg in vals or k.arg not in [f for f, _ in fields]:
            return None
        vals[k.arg] = k.value  # type: ignore[index]
    out = []
    for f, d in fields:
        if f in vals:
            out.append(vals[f])
        elif d is not None:
            out.append(_clone(d))
        else:
            return None
    return out


def _records_across_calls(mods: dict[str, Module], inv: dict, log: list[str]) -> None:
    """A function of the reference tree that now returns a new record `Rec(a, b, ...)` instead of the tuple `(a, b, ...)`, and callers that bind the result to a
    local read only as `r.field`: the return is the tuple in field order and the caller unpacks it, `r.field` being the unpacked name (which value reaches
    which position is what the plumbing rules read)."""
    recs = _record_classes(mods, inv)
    if not recs:
        return
    producers: dict[str, str] = {}
    for mod in mods.values():
        for q, _, fn in _functions_of(mod):
            rets = [r for r in ast.walk(fn) if isinstance(r, ast.Return) and r.value is not None]
            if not rets:
                continue
            kinds = set()
            for r in rets:
                v = r.value
                nm = (v.func.id if isinstance(v.func, ast.Name) else v.func.attr if isinstance(v.func, ast.Attribute) else None) if isinstance(v, ast.Call) else None
                kinds.add(nm if nm in recs and _record_args(recs[nm], v) is not None else None)
            if len(kinds) == 1 and None not in kinds and "." not in q:
                producers[f"{mod.name}:{fn.name}"] = next(iter(kinds))
    if not producers:
        return

    def resolve(mod: Module, c: ast.Call) -> str | None:
        """module-level function a call refers to: a same-module function or a `from m import f` name (relative imports resolved against the module's package)."""
        if not isinstance(c.func, ast.Name):
            return None
        nm_ = c.func.id
        if f"{mod.name}:{nm_}" in producers:
            return f"{mod.name}:{nm_}"
        for st_ in ast.walk(mod.tree):
            if isinstance(st_, ast.ImportFrom):
                for a_ in st_.names:
                    if (a_.asname or a_.name) == nm_:
                        base = st_.module or ""
                        if st_.level:
                            pkg = mod.name.split(".")
                            pkg = pkg[: len(pkg) - st_.level]
                            base = ".".join([*pkg, base]) if base else ".".join(pkg)
                        key = f"{base}:{a_.name}"
                        return key if key in producers else None
        return None
    n = 0
    consumers_ok: dict[str, bool] = {k: True for k in producers}
    plans = []
    for mod in mods.values():
        for q, _, fn in _functions_of(mod):
            for st in ast.walk(fn):
                if not (isinstance(st, (ast.Assign, ast.AnnAssign)) and isinstance(getattr(st, "value", None), ast.Call)):
                    for c in ([st] if isinstance(st, ast.Call) else []):
                        nm = resolve(mod, c)
                        if nm is None and isinstance(c.func, ast.Attribute) and any(k_.endswith(":" + c.func.attr) for k_ in producers):
                            for k_ in producers:
                                if k_.endswith(":" + c.func.attr):
                                    consumers_ok[k_] = False   # reached through a module attribute: not followed
                        if nm in producers and not any(isinstance(a, (ast.Assign, ast.AnnAssign)) and a.value is c for a in ast.walk(fn)):
                            consumers_ok[nm] = False    # result used in some other way (passed on, indexed, ...)
                    continue
                c = st.value
                nm = resolve(mod, c)
                if nm is None:
                    continue
                tg = st.targets[0] if isinstance(st, ast.Assign) and len(st.targets) == 1 else st.target if isinstance(st, ast.AnnAssign) else None
                fields = [f for f, _ in recs[producers[nm]]]
                if isinstance(tg, (ast.Tuple, ast.List)):
                    continue        # already unpacks (NamedTuple): positions speak for themselves
                if not isinstance(tg, ast.Name):
                    consumers_ok[nm] = False
                    continue
                x = tg.id
                stores = [y for y in ast.walk(fn) if isinstance(y, ast.Name) and y.id == x and isinstance(y.ctx, (ast.Store, ast.Del))]
                loads = [y for y in ast.walk(fn) if isinstance(y, ast.Name) and y.id == x and isinstance(y.ctx, ast.Load)]
                attr_loads = [y for y in ast.walk(fn) if isinstance(y, ast.Attribute) and isinstance(y.value, ast.Name) and y.value.id == x and isinstance(y.ctx, ast.Load) and y.attr in fields]
                if len(stores) != 1 or len(loads) != len(attr_loads):
                    consumers_ok[nm] = False
                    continue
                plans.append((mod, q, fn, st, x, nm, fields))
    for mod, q, fn, st, x, nm, fields in plans:
        if not consumers_ok[nm]:
            continue
        fresh = {f: f"{x}__{f}" for f in fields}

        class T(ast.NodeTransformer):
            def visit_Attribute(self, node: ast.Attribute):  # noqa: N802
                if isinstance(node.value, ast.Name) and node.value.id == x and isinstance(node.ctx, ast.Load) and node.attr in fresh:
                    return ast.copy_location(ast.Name(id=fresh[node.attr], ctx=ast.Load()), node)
                return self.generic_visit(node)
        new_t = ast.Tuple(elts=[ast.Name(id=fresh[f], ctx=ast.Store()) for f in fields], ctx=ast.Store())
        new_st = ast.copy_location(ast.Assign(targets=[new_t], value=st.value), st)
        for owner in ast.walk(fn):
            for fld in ("body", "orelse", "finalbody"):
                lst = getattr(owner, fld, None)
                if isinstance(lst, list):
                    for k, y in enumerate(lst):
                        if y is st:
                            lst[k] = new_st
        T().visit(fn)
        ast.fix_missing_locations(fn)
        n += 1
        log.append(f"{mod.relpath} {q}: `{x} = {nm}(...)` read as the unpacking of the {len(fields)} fields of {producers[nm]}")
    if n:
        done = {nm for _, _, _, _, _, nm, _ in plans if consumers_ok[nm]}
        for mod in mods.values():
            for q, _, fn in _functions_of(mod):
                if f"{mod.name}:{fn.name}" in done and "." not in q:
                    for r in [r for r in ast.walk(fn) if isinstance(r, ast.Return) and isinstance(r.value, ast.Call)]:
                        args = _record_args(recs[producers[f"{mod.name}:{fn.name}"]], r.value)
                        r.value = ast.copy_location(ast.Tuple(elts=args, ctx=ast.Load()), r.value)
                    fn.returns = None
                    ast.fix_missing_locations(fn)


def _scalarise_records(mods: dict[str, Module], inv: dict, log: list[str]) -> None:
    """Scalar replacement of new record types: `r = Rec(a, b)` ... `r.x`, `*r`, `p, q = r` are read as the values the record was built from
    (a refactoring that bundles values into a NamedTuple / dataclass to pass them around does not change which value reaches which position)."""
    recs = _record_classes(mods, inv)
    if not recs:
        return

    def ctor(e: ast.AST) -> tuple[str, list[ast.expr]] | None:
        if isinstance(e, ast.Call):
            nm = e.func.id if isinstance(e.func, ast.Name) else e.func.attr if isinstance(e.func, ast.Attribute) else None
            if nm in recs:
                args = _record_args(recs[nm], e)
                if args is not None:
                    return nm, args
        return None

    class Direct(ast.NodeTransformer):
        """`Rec(..).f`, `*Rec(..)`, `Rec(..)[i]`, `a, b = Rec(..)`."""
        def __init__(self) -> None:
            self.n = 0

        def visit_Attribute(self, node: ast.Attribute):  # noqa: N802
            self.generic_visit(node)
            c = ctor(node.value)
            if c is not None and isinstance(node.ctx, ast.Load):
                names = [f for f, _ in recs[c[0]]]
                if node.attr in names and all(_pure(a) and not _may_raise(a) for a in c[1]):
                    self.n += 1
                    return ast.copy_location(_clone(c[1][names.index(node.attr)]), node)
            return node

        def visit_Subscript(self, node: ast.Subscript):  # noqa: N802
            self.generic_visit(node)
            c = ctor(node.value)
            if c is not None and isinstance(node.ctx, ast.Load) and isinstance(node.slice, ast.Constant) and isinstance(node.slice.value, int) \
                    and -len(c[1]) <= node.slice.value < len(c[1]) and all(_pure(a) and not _may_raise(a) for a in c[1]):
                self.n += 1
                return ast.copy_location(_clone(c[1][node.slice.value]), node)
            return node

        def _splice(self, elts: list[ast.expr]) -> list[ast.expr]:
            out: list[ast.expr] = []
            for e in elts:
                c = ctor(e.value) if isinstance(e, ast.Starred) else None
                if c is not None:
                    out.extend(c[1])
                    self.n += 1
                else:
                    out.append(e)
            return out

        def visit_Call(self, node: ast.Call):  # noqa: N802
            self.generic_visit(node)
            node.args = self._splice(node.args)
            return node

        def visit_Tuple(self, node: ast.Tuple):  # noqa: N802
            self.generic_visit(node)
            if isinstance(node.ctx, ast.Load):
                node.elts = self._splice(node.elts)
            return node

        visit_List = visit_Tuple  # noqa: N815

        def visit_Assign(self, node: ast.Assign):  # noqa: N802
            self.generic_visit(node)
            c = ctor(node.value)
            if c is not None and len(node.targets) == 1 and isinstance(node.targets[0], (ast.Tuple, ast.List)) and len(node.targets[0].elts) == len(c[1]) \
                    and not any(isinstance(t, ast.Starred) for t in node.targets[0].elts):
                node.value = ast.copy_location(ast.Tuple(elts=list(c[1]), ctx=ast.Load()), node.value)
                self.n += 1
            return node

    uid = [0]

    def hoist(fn: ast.FunctionDef) -> int:
        """`<stmt using Rec(A, B).f>` with impure A / B: the record is bound field by field first (`r__x = A; r__y = B`), keeping every evaluation and its order,
        provided nothing impure of the statement is evaluated before the constructor and the constructor is not under a short circuit."""
        done = 0
        work: list[ast.AST] = [fn]
        while work:
            node = work.pop()
            blocks = [getattr(node, fld) for fld in ("body", "orelse", "finalbody") if isinstance(getattr(node, fld, None), list)]
            if isinstance(node, ast.Try):
                blocks += [h.body for h in node.handlers]
            for b in blocks:
                i = 0
                while i < len(b):
                    st = b[i]
                    if isinstance(st, (ast.Return, ast.Assign, ast.Expr, ast.AugAssign, ast.AnnAssign)) and getattr(st, "value", None) is not None:
                        parents: dict[int, ast.AST] = {}
                        for n_ in ast.walk(st.value):
                            for ch in ast.iter_child_nodes(n_):
                                parents[id(ch)] = n_
                        cands = [n_ for n_ in ast.walk(st.value) if isinstance(n_, (ast.Attribute, ast.Subscript)) and ctor(n_.value) is not None and not all(_pure(a) and not _may_raise(a) for a in ctor(n_.value)[1])]
                        if len(cands) == 1:
                            sel = cands[0]
                            cur, guarded = sel, False
                            while id(cur) in parents:
                                cur = parents[id(cur)]
                                if isinstance(cur, (ast.IfExp, ast.BoolOp, ast.ListComp, ast.GeneratorExp, ast.SetComp, ast.DictComp, ast.Lambda)):
                                    guarded = True
                            inside = {id(x) for x in ast.walk(sel)}
                            rest_pure = all(_pure(x) for x in ast.walk(st.value) if isinstance(x, ast.Call) and id(x) not in inside and not any(id(y) in inside for y in ast.walk(x)))
                            # calls that *contain* the selection are evaluated after it: only siblings evaluated earlier matter; keep it simple - all other calls pure
                            if not guarded and rest_pure:
                                name, args = ctor(sel.value)
                                uid[0] += 1
                                names = [f for f, _ in recs[name]]
                                fresh = [f"{name.strip('_').lower()}{uid[0]}__{f}" for f in names]
                                pre = [ast.fix_missing_locations(ast.copy_location(ast.Assign(targets=[ast.Name(id=fr, ctx=ast.Store())], value=a), st)) for fr, a in zip(fresh, args)]
                                sel.value = ast.copy_location(ast.Call(func=sel.value.func, args=[ast.Name(id=fr, ctx=ast.Load()) for fr in fresh], keywords=[]), sel.value)
                                b[i:i] = pre
                                i += len(pre)
                                done += 1
                    if isinstance(st, ast.stmt) and not isinstance(st, (*FuncNode, ast.ClassDef)):
                        work.append(st)
                    i += 1
        return done

    for mod in mods.values():
        for q, _, fn in _functions_of(mod):
            total = hoist(fn)
            for _round in range(6):
                d = Direct()
                fn.body = [d.visit(st) for st in fn.body]
                total += d.n
                # record locals: `r = Rec(...)`, bound once, used only field-wise
                changed = False
                params = set(_params(fn))
                work: list[ast.AST] = [fn]
                while work and not changed:
                    node = work.pop()
                    for fld in ("body", "orelse", "finalbody", "handlers"):
                        b = getattr(node, fld, None)
                        if not isinstance(b, list):
                            continue
                        for i, st in enumerate(b):
                            if isinstance(st, ast.ExceptHandler):
                                work.append(st)
                                continue
                            if not isinstance(st, ast.stmt):
                                continue
                            tgt = st.targets[0] if isinstance(st, ast.Assign) and len(st.targets) == 1 else st.target if isinstance(st, ast.AnnAssign) and st.value is not None else None
                            c = ctor(st.value) if tgt is not None and isinstance(tgt, ast.Name) else None
                            # `r = Rec(*producer(...))`: the record is filled positionally from a tuple - read as `r__f1, .., r__fn = producer(...)`
                            v_ = st.value if tgt is not None and isinstance(tgt, ast.Name) else None
                            if c is None and isinstance(v_, ast.Call) and not v_.keywords and len(v_.args) == 1 and isinstance(v_.args[0], ast.Starred):
                                nm_ = v_.func.id if isinstance(v_.func, ast.Name) else v_.func.attr if isinstance(v_.func, ast.Attribute) else None
                                if nm_ in recs and tgt.id not in params and _record_local_ok(fn, tgt.id, st, [f for f, _ in recs[nm_]]):
                                    names = [f for f, _ in recs[nm_]]
                                    fresh = {f: f"{tgt.id}__{f}" for f in names}
                                    unpack = ast.Assign(targets=[ast.Tuple(elts=[ast.Name(id=fresh[f], ctx=ast.Store()) for f in names], ctx=ast.Store())], value=v_.args[0].value)
                                    b[i] = ast.fix_missing_locations(ast.copy_location(unpack, st))
                                    _RecordUses(tgt.id, names, fresh).visit(fn)
                                    total += 1
                                    changed = True
                                    break
                            if c is not None and tgt.id not in params and _record_local_ok(fn, tgt.id, st, [f for f, _ in recs[c[0]]]):
                                names = [f for f, _ in recs[c[0]]]
                                fresh = {f: f"{tgt.id}__{f}" for f in names}
                                b[i:i + 1] = [ast.copy_location(ast.Assign(targets=[ast.Name(id=fresh[f], ctx=ast.Store())], value=a), st) for f, a in zip(names, c[1])]
                                _RecordUses(tgt.id, names, fresh).visit(fn)
                                for x in b[i:i + len(names)]:
                                    ast.fix_missing_locations(x)
                                total += 1
                                changed = True
                                break
                            if not isinstance(st, (*FuncNode, ast.ClassDef)):
                                work.append(st)
                        if changed:
                            break
                if not changed and d.n == 0:
                    break
            if total:
                log.append(f"{mod.relpath} {q}: {total} use(s) of new record type(s) read field-wise ({', '.join(sorted(recs))[:80]})")


def _record_local_ok(fn: ast.FunctionDef, name: str, binding: ast.stmt, fields: list[str]) -> bool:
    """`name` is bound by `binding` only, and every other occurrence is `name.field`, `*name`, `name[k]` or the whole right-hand side of a tuple unpacking."""
    for n in ast.walk(fn):
        if isinstance(n, (ast.Lambda, *FuncNode)) and n is not fn and any(isinstance(x, ast.Name) and x.id == name for x in ast.walk(n)):
            return False
    parents: dict[int, ast.AST] = {}
    for n in ast.walk(fn):
        for ch in ast.iter_child_nodes(n):
            parents[id(ch)] = n
    for n in ast.walk(fn):
        if not (isinstance(n, ast.Name) and n.id == name):
            continue
        par = parents.get(id(n))
        if isinstance(n.ctx, ast.Store):
            if par is not binding:
                return False
            continue
        if isinstance(n.ctx, ast.Del):
            return False
        if isinstance(par, ast.Attribute) and par.value is n and par.attr in fields and isinstance(par.ctx, ast.Load):
            continue
        if isinstance(par, ast.Starred) and isinstance(parents.get(id(par)), (ast.Call, ast.Tuple, ast.List)):
            continue
        if isinstance(par, ast.Subscript) and par.value is n and isinstance(par.slice, ast.Constant) and isinstance(par.slice.value, int) and -len(fields) <= par.slice.value < len(fields) \
                and isinstance(par.ctx, ast.Load):
            continue
        if isinstance(par, ast.Assign) and par.value is n and len(par.targets) == 1 and isinstance(par.targets[0], (ast.Tuple, ast.List)) and len(par.targets[0].elts) == len(fields):
            continue
        return False
    return True


class _RecordUses(ast.NodeTransformer):
    def __init__(self, name: str, fields: list[str], fresh: dict[str, str]) -> None:
        self.name, self.fields, self.fresh = name, fields, fresh

    def _is(self, e: ast.AST) -> bool:
        return isinstance(e, ast.Name) and e.id == self.name and isinstance(e.ctx, ast.Load)

    def _all(self, at: ast.AST) -> list[ast.expr]:
        return [ast.copy_location(ast.Name(id=self.fresh[f], ctx=ast.Load()), at) for f in self.fields]

    def visit_Attribute(self, node: ast.Attribute):  # noqa: N802
        if self._is(node.value) and node.attr in self.fields:
            return ast.copy_location(ast.Name(id=self.fresh[node.attr], ctx=ast.Load()), node)
        return self.generic_visit(node)

    def visit_Subscript(self, node: ast.Subscript):  # noqa: N802
        if self._is(node.value) and isinstance(node.slice, ast.Constant) and isinstance(node.slice.value, int):
            return ast.copy_location(ast.Name(id=self.fresh[self.fields[node.slice.value]], ctx=ast.Load()), node)
        return self.generic_visit(node)

    def _splice(self, elts: list[ast.expr]) -> list[ast.expr]:
        out: list[ast.expr] = []
        for e in elts:
            if isinstance(e, ast.Starred) and self._is(e.value):
                out.extend(self._all(e))
            else:
                out.append(e)
        return out

    def visit_Call(self, node: ast.Call):  # noqa: N802
        self.generic_visit(node)
        node.args = self._splice(node.args)
        return node

    def visit_Tuple(self, node: ast.Tuple):  # noqa: N802
        self.generic_visit(node)
        if isinstance(node.ctx, ast.Load):
            node.elts = self._splice(node.elts)
        return node

    visit_List = visit_Tuple  # noqa: N815

    def visit_Assign(self, node: ast.Assign):  # noqa: N802
        if self._is(node.value) and len(node.targets) == 1 and isinstance(node.targets[0], (ast.Tuple, ast.List)):
            node.value = ast.copy_location(ast.Tuple(elts=self._all(node.value), ctx=ast.Load()), node.value)
            return node
        return self.generic_visit(node)


# ---------------------------------------------------------------------------------------------------- context managers
def _cm_to_generator(mods: dict[str, Module], log: list[str]) -> None:
    """`def f(...): return K(args)` with K a class-based context manager whose `__exit__` cannot suppress an exception is read as the
    generator-based manager it is equivalent to inside a `with` statement:  <enter body>; try: yield; finally: <exit body>."""
    classes: dict[str, tuple[Module, ast.ClassDef]] = {}
    for mod in mods.values():
        for node in mod.tree.body:
            if isinstance(node, ast.ClassDef):
                names = {x.name for x in node.body if isinstance(x, FuncNode)}
                if {"__enter__", "__exit__"} <= names:
                    classes[node.name] = (mod, node)
    if not classes:
        return
    for mod in mods.values():
        for q, _, fn in _functions_of(mod):
            body = [st for st in fn.body if not (isinstance(st, ast.Expr) and isinstance(st.value, ast.Constant))]
            if len(body) != 1 or not isinstance(body[0], ast.Return) or not isinstance(body[0].value, ast.Call):
                continue
            call = body[0].value
            kname = call.func.id if isinstance(call.func, ast.Name) else None
            if kname not in classes or call.keywords and any(k.arg is None for k in call.keywords):
                continue
            _, K = classes[kname]
            meth = {x.name: x for x in K.body if isinstance(x, FuncNode)}
            init, enter, exit_ = meth.get("__init__"), meth["__enter__"], meth["__exit__"]
            # constructor: plain `self.a = param` stores only
            bind: dict[str, ast.expr] = {}
            ok = True
            if init is not None:
                ps = _params(init)
                me = ps[0]
                args = dict(zip(ps[1:], call.args))
                args.update({k.arg: k.value for k in call.keywords})
                for st in init.body:
                    if isinstance(st, ast.Expr) and isinstance(st.value, ast.Constant):
                        continue
                    if isinstance(st, ast.Assign) and len(st.targets) == 1 and isinstance(st.targets[0], ast.Attribute) and isinstance(st.targets[0].value, ast.Name) \
                            and st.targets[0].value.id == me and isinstance(st.value, ast.Name) and st.value.id in args:
                        bind[st.targets[0].attr] = args[st.value.id]
                    else:
                        ok = False
            elif call.args or call.keywords:
                ok = False

            def part(m: ast.FunctionDef, allow_self_return: bool):
                me_ = _params(m)[0]
                stmts = [st for st in m.body if not (isinstance(st, ast.Expr) and isinstance(st.value, ast.Constant))]
                rets = [n for st in stmts for n in ast.walk(st) if isinstance(n, ast.Return)]
                if rets:
                    if len(rets) != 1 or rets[0] is not stmts[-1]:
                        return None
                    v = rets[0].value
                    fine = v is None or (isinstance(v, ast.Constant) and v.value in (None, False)) or (allow_self_return and isinstance(v, ast.Name) and v.id == me_)
                    if not fine:
                        return None
                    stmts = stmts[:-1]
                others = set(_params(m)[1:])
                out = []
                for st in stmts:
                    st2 = _clone(st)
                    for n in ast.walk(st2):
                        if isinstance(n, ast.Name) and n.id in others:
                            return None
                    class R(ast.NodeTransformer):
                        bad = False

                        def visit_Attribute(self, node: ast.Attribute):  # noqa: N802
                            if isinstance(node.value, ast.Name) and node.value.id == me_:
                                if node.attr in bind and isinstance(node.ctx, ast.Load):
                                    return _clone(bind[node.attr])
                                R.bad = True
                                return node
                            self.generic_visit(node)
                            return node

                        def visit_Name(self, node: ast.Name):  # noqa: N802
                            if node.id == me_:
                                R.bad = True
                            return node
                    R.bad = False
                    st2 = R().visit(st2)
                    if R.bad:
                        return None
                    out.append(st2)
                return out
            en = part(enter, True) if ok else None
            ex = part(exit_, False) if ok else None
            if en is None or ex is None:
                continue
            # the `as` value of the manager must not be used by the callers (the generator form yields None)
            used_as = False
            for m2 in mods.values():
                for w in ast.walk(m2.tree):
                    if isinstance(w, ast.With):
                        for it in w.items:
                            c = it.context_expr
                            if isinstance(c, ast.Call) and (isinstance(c.func, ast.Attribute) and c.func.attr == fn.name or isinstance(c.func, ast.Name) and c.func.id == fn.name) and it.optional_vars is not None:
                                used_as = True
            if used_as:
                continue
            y = ast.Expr(value=ast.Yield(value=None))
            new_body = [*en, ast.Try(body=[y], handlers=[], orelse=[], finalbody=ex or [ast.Pass()])]
            doc = [st for st in fn.body if isinstance(st, ast.Expr) and isinstance(st.value, ast.Constant)][:1]
            fn.body = [*doc, *new_body]
            fn.decorator_list = [*fn.decorator_list, ast.Attribute(value=ast.Name(id="contextlib", ctx=ast.Load()), attr="contextmanager", ctx=ast.Load())]
            for st in fn.body:
                ast.copy_location(st, fn)
            ast.fix_missing_locations(fn)
            for n in ast.walk(fn):
                if hasattr(n, "lineno"):
                    n.lineno = max(n.lineno, fn.lineno)
            log.append(f"{mod.relpath} {q}: class-based context manager {kname} read as the equivalent generator-based manager")


def canonicalise(mods: dict[str, Module]) -> dict:
    """Align names with the reference inventory and inline new helpers, in place. Returns a report for the evidence."""
    inv = load_inventory()
    if inv is None:
        return {"inventory": "absent"}
    restated = restated_statements(mods, inv)
    ren = compute_renames(mods, inv)
    apply_renames(mods, ren)
    loc_log: list[str] = []
    cm_log: list[str] = []
    _cm_to_generator(mods, cm_log)
    _inline_new_constants(mods, inv, cm_log)
    align_locals(mods, inv, loc_log)
    _map_to_comprehension(mods, cm_log)
    _append_loops_to_comprehensions(mods, cm_log)
    _exitstack_to_try(mods, cm_log)
    _sqlite_transaction_blocks(mods, cm_log)
    _flatten_reraising_try(mods, cm_log)
    _see_through_value_memos(mods, inv, cm_log)
    _apply_trampolines(mods, inv, cm_log)
    _inline_local_closures(mods, cm_log)
    _inline_procedure_closures(mods, cm_log)
    _inline_new_properties(mods, inv, cm_log)
    inl = Inliner(mods, inv)
    inl.run()
    fwd_log: list[str] = []
    _hoist_queue_reads(mods, fwd_log)
    _split_chain_loops(mods, fwd_log)
    _records_across_calls(mods, inv, fwd_log)
    _scalarise_records(mods, inv, fwd_log)
    if any("record type" in x for x in fwd_log):
        inl2 = Inliner(mods, inv)  # a helper that took a whole record can be bound now that the record is spelled out
        inl2.run()
        inl.log.extend(inl2.log)
        _scalarise_records(mods, inv, fwd_log)
    _apply_partials(mods, fwd_log)
    _select_from_displays(mods, fwd_log)
    _unroll_literal_loops(mods, fwd_log)
    _unroll_literal_comprehensions(mods, fwd_log)
    _static_attr_access(mods, fwd_log)
    _split_parallel_assign(mods, fwd_log)
    _mirror_induction_attr(mods, inv, fwd_log)
    _Forward(mods, inv, fwd_log).run()
    _canonical_foreach(mods, fwd_log)
    _append_loops_to_comprehensions(mods, fwd_log)
    _Forward(mods, inv, fwd_log).run()
    _fromiter_to_array(mods, fwd_log)
    _fuse_nested_comprehensions(mods, fwd_log)
    _Forward(mods, inv, fwd_log).run()
    _splice_starred_displays(mods, fwd_log)
    # displays that only became literal once new locals / constants were substituted
    _unroll_literal_loops(mods, fwd_log)
    _unroll_literal_comprehensions(mods, fwd_log)
    _static_attr_access(mods, fwd_log)
    _split_conditional_with(mods, fwd_log)
    _apply_partials(mods, fwd_log)
    _beta_reduce(mods, fwd_log)
    _strip_bool_in_tests(mods, fwd_log)
    fwd_log.extend(cm_log)
    if ren or loc_log or fwd_log or inl.log:
        for mod in mods.values():
            ast.fix_missing_locations(mod.tree)
            for node in ast.walk(mod.tree):
                for child in ast.iter_child_nodes(node):
                    child._parent = node  # type: ignore[attr-defined]
            mod.tree._parent = None  # type: ignore[attr-defined]
    # every function of the current tree that the reference inventory does not know (whether or not it could be inlined)
    new_functions: list[str] = []
    for mod in mods.values():
        old = inv["modules"].get(mod.name)
        for node in mod.tree.body:
            if isinstance(node, FuncNode) and (old is None or node.name not in old["functions"]):
                new_functions.append(f"{mod.name}:{node.name}")
            elif isinstance(node, ast.ClassDef):
                oc = old["classes"].get(node.name) if old is not None else None
                for x in node.body:
                    if isinstance(x, FuncNode) and (oc is None or x.name not in oc["methods"]):
                        new_functions.append(f"{mod.name}:{node.name}.{x.name}")
    return {"renamed_back": {k: v for k, v in sorted(ren.items())}, "locals": loc_log[:40], "inlined": inl.log[:40], "substituted": fwd_log[:60],
            "reraising_try": list(RERAISING_TRY), "restated": restated, "new_callees": new_callees(mods, inv),
            "new_helpers": sorted(set(new_functions) | {f"{k[0]}:{(k[1] + '.') if k[1] else ''}{k[2]}" for k in inl.helpers})}


def main() -> int:
    import sys

    from .loader import load_sources, parse_sources
    if "--freeze" in sys.argv:
        mods = parse_sources(load_sources())
        inv = inventory_of(mods)
        INVENTORY.write_text(json.dumps(inv, indent=1, sort_keys=True))
        print(f"inventory of {len(inv['modules'])} modules written to {INVENTORY}")
        return 0
    mods = parse_sources(load_sources())
    print(json.dumps(canonicalise(mods), indent=1))
    return 0


if __name__ == "__main__":
    raise SystemExit(main())
