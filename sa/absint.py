"""Finite abstract evaluation of guards.

A function that touches its inputs only through comparisons, `len`, subscripts with literal
indices, iteration and exception constructors behaves identically on every input of one *order
class*.  This module interprets such a function's AST over one representative per class (small
integers / fractions, `None`, opaque tokens) with the checker's own evaluator - the repository's
code is neither imported nor executed - and refuses (`AnalysisError`, the *licence check*) as soon
as the function does anything outside that vocabulary with the abstracted inputs.
"""
from __future__ import annotations

import ast
from dataclasses import dataclass
from fractions import Fraction
from typing import Any, Callable

from .errors import AnalysisError
from .model import FuncInfo, Program, dotted, src


class Opaque:
    """A value about which nothing is known except its identity and whether it is None."""

    def __init__(self, tag: str) -> None:
        self.tag = tag

    def __repr__(self) -> str:
        return f"<{self.tag}>"


@dataclass
class Outcome:
    kind: str  # 'raise' | 'return'
    name: str | None = None  # exception class (resolved short name) / classification of the value
    args: tuple = ()
    kwargs: tuple = ()
    node: ast.AST | None = None
    value: Any = None

    def brief(self) -> str:
        if self.kind == "raise":
            return f"raise {self.name}{self.args!r}"
        return f"return {self.value!r}"


class _Count:
    """itertools.count(n): a stateful counter (next() advances it)."""

    def __init__(self, n: int) -> None:
        self.n = n


class _Return(Exception):
    def __init__(self, value: Any, node: ast.AST) -> None:
        self.value = value
        self.node = node


class _Raise(Exception):
    def __init__(self, name: str, args: tuple, kwargs: tuple, node: ast.AST) -> None:
        self.name = name
        self.args_ = args
        self.kwargs_ = kwargs
        self.node = node


class Licence(AnalysisError):
    """The function left the vocabulary on which the finite table is sound."""


class Evaluator:
    def __init__(self, prog: Program, f: FuncInfo, max_steps: int = 20000,
                 call_hook: Callable[["Evaluator", ast.Call, list, dict], Any] | None = None) -> None:
        self.prog = prog
        self.f = f
        self.steps = 0
        self.max_steps = max_steps
        self.call_hook = call_hook
        self.printed: list[str] = []

    # ------------------------------------------------------------------ entry
    def run(self, env: dict[str, Any]) -> Outcome:
        return self._run_func(self.f, dict(env))

    def _run_func(self, f: FuncInfo, env: dict[str, Any]) -> Outcome:
        saved = self.f
        self.f = f
        try:
            self._block(f.node.body, env)
            return Outcome("return", value=None, node=f.node)
        except _Return as r:
            return Outcome("return", value=r.value, node=r.node)
        except _Raise as r:
            return Outcome("raise", r.name, r.args_, r.kwargs_, r.node)
        finally:
            self.f = saved

    # ------------------------------------------------------------------ statements
    def _tick(self, node: ast.AST) -> None:
        self.steps += 1
        if self.steps > self.max_steps:
            raise Licence(f"abstract evaluation of {self.f.qualname} does not terminate within {self.max_steps} steps")

    def _block(self, stmts: list[ast.stmt], env: dict[str, Any]) -> None:
        for s in stmts:
            self._stmt(s, env)

    def _stmt(self, s: ast.stmt, env: dict[str, Any]) -> None:
        self._tick(s)
        if isinstance(s, ast.Expr):
            if isinstance(s.value, ast.Constant):
                return
            self._eval(s.value, env)
            return
        if isinstance(s, ast.Assign):
            v = self._eval(s.value, env)
            for t in s.targets:
                self._bind(t, v, env)
            return
        if isinstance(s, ast.AnnAssign):
            if s.value is not None:
                self._bind(s.target, self._eval(s.value, env), env)
            return
        if isinstance(s, ast.AugAssign):
            load = ast.parse(src(s.target), mode="eval").body
            cur = self._eval(load, env)
            self._bind(s.target, self._binop(s.op, cur, self._eval(s.value, env), s), env)
            return
        if isinstance(s, ast.If):
            if self._truth(self._eval(s.test, env), s.test):
                self._block(s.body, env)
            else:
                self._block(s.orelse, env)
            return
        if isinstance(s, ast.For):
            it = self._eval(s.iter, env)
            if not isinstance(it, (list, tuple, range)):
                raise Licence(f"{self.f.loc(s)}: iteration over a non-sequence abstract value {src(s.iter)}")
            broke = False
            for item in it:
                self._bind(s.target, item, env)
                try:
                    self._block(s.body, env)
                except _Break:
                    broke = True
                    break
                except _Continue:
                    continue
            if not broke:
                self._block(s.orelse, env)
            return
        if isinstance(s, ast.While):
            while self._truth(self._eval(s.test, env), s.test):
                self._tick(s)
                try:
                    self._block(s.body, env)
                except _Break:
                    break
                except _Continue:
                    continue
            return
        if isinstance(s, ast.Break):
            raise _Break
        if isinstance(s, ast.Continue):
            raise _Continue
        if isinstance(s, ast.Pass):
            return
        if isinstance(s, ast.Return):
            raise _Return(self._eval(s.value, env) if s.value is not None else None, s)
        if isinstance(s, ast.Raise):
            if s.exc is None:
                raise Licence(f"{self.f.loc(s)}: bare raise")
            exc = s.exc
            if isinstance(exc, ast.Call):
                name = self._exc_name(exc.func, env)
                args = tuple(self._eval(a, env) for a in exc.args)
                kwargs = tuple((k.arg, self._eval(k.value, env)) for k in exc.keywords)
                raise _Raise(name, args, kwargs, s)
            raise _Raise(self._exc_name(exc, env), (), (), s)
        raise Licence(f"{self.f.loc(s)}: statement kind {type(s).__name__} is outside the guard vocabulary")

    def _exc_name(self, e: ast.expr, env: dict[str, Any]) -> str:
        if isinstance(e, ast.Name) and e.id in env and isinstance(env[e.id], ExcClass):
            return env[e.id].name
        d = dotted(e)
        if d is None:
            raise Licence(f"{self.f.loc(e)}: cannot resolve raised class {src(e)}")
        return self.prog.qualify(self.f.module, d).split(".")[-1]

    def _bind(self, t: ast.expr, v: Any, env: dict[str, Any]) -> None:
        if isinstance(t, ast.Name):
            env[t.id] = v
        elif isinstance(t, (ast.Tuple, ast.List)):
            if not isinstance(v, (list, tuple)) or len(v) != len(t.elts):
                raise Licence(f"{self.f.loc(t)}: cannot unpack abstract value {v!r}")
            for sub, item in zip(t.elts, v):
                self._bind(sub, item, env)
        elif isinstance(t, ast.Subscript):
            base = self._eval(t.value, env)
            key = self._eval(t.slice, env)
            if isinstance(base, dict) or (isinstance(base, list) and isinstance(key, int)):
                try:
                    base[key] = v
                except (IndexError, TypeError):
                    raise _Raise("IndexError", (), (), t) from None
            else:
                raise Licence(f"{self.f.loc(t)}: subscript store into abstract value {base!r}")
        elif isinstance(t, ast.Attribute):
            base = self._eval(t.value, env)
            if isinstance(base, Obj):
                base.attrs[t.attr] = v
            else:
                raise Licence(f"{self.f.loc(t)}: attribute store on abstract value {base!r}")
        else:
            raise Licence(f"{self.f.loc(t)}: assignment target {src(t)} outside the guard vocabulary")

    # ------------------------------------------------------------------ expressions
    def _truth(self, v: Any, node: ast.AST) -> bool:
        if isinstance(v, bool):
            return v
        if v is None:
            return False
        if isinstance(v, (int, Fraction)):
            return v != 0
        if isinstance(v, (list, tuple, str)):
            return len(v) > 0
        raise Licence(f"{self.f.loc(node)}: truthiness of {v!r} ({src(node)}) is not determined by the order class")

    def _eval(self, e: ast.expr, env: dict[str, Any]) -> Any:
        self._tick(e)
        if isinstance(e, ast.Constant):
            if isinstance(e.value, float):
                return Fraction(str(e.value))
            return e.value
        if isinstance(e, ast.Name):
            if e.id in env:
                return env[e.id]
            q = self.prog.qualify(self.f.module, e.id)
            c = self.prog.class_of_name(self.f.module, e.id)
            if c is not None:
                return ExcClass(c.name)
            if e.id in ("ValueError", "TypeError", "Exception", "RuntimeError", "AssertionError", "KeyError"):
                return ExcClass(e.id)
            consts = self.prog.module_consts.get(self.f.module.name, {})
            if e.id in consts:
                return self._eval(consts[e.id], {})
            return Opaque(q)
        if isinstance(e, ast.JoinedStr):
            for v in e.values:
                if isinstance(v, ast.FormattedValue):
                    self._eval(v.value, env)
            return "<fstring>"
        if isinstance(e, ast.NamedExpr) and isinstance(e.target, ast.Name):
            v = self._eval(e.value, env)
            env[e.target.id] = v
            return v
        if isinstance(e, (ast.Tuple, ast.List)):
            vals = []
            for x in e.elts:
                if isinstance(x, ast.Starred):
                    inner = self._eval(x.value, env)
                    if not isinstance(inner, (list, tuple)):
                        raise Licence(f"{self.f.loc(e)}: `*{ast.unparse(x.value)}` of an abstract value")
                    vals.extend(inner)
                else:
                    vals.append(self._eval(x, env))
            return tuple(vals) if isinstance(e, ast.Tuple) else vals
        if isinstance(e, ast.BoolOp):
            if isinstance(e.op, ast.And):
                v: Any = True
                for x in e.values:
                    v = self._eval(x, env)
                    if not self._truth(v, x):
                        return v
                return v
            v = False
            for x in e.values:
                v = self._eval(x, env)
                if self._truth(v, x):
                    return v
            return v
        if isinstance(e, ast.UnaryOp):
            v = self._eval(e.operand, env)
            if isinstance(e.op, ast.Not):
                return not self._truth(v, e.operand)
            if isinstance(e.op, ast.USub) and isinstance(v, (int, Fraction)) and not isinstance(v, bool):
                return -v
            raise Licence(f"{self.f.loc(e)}: unary {type(e.op).__name__} on {v!r}")
        if isinstance(e, ast.BinOp):
            return self._binop(e.op, self._eval(e.left, env), self._eval(e.right, env), e)
        if isinstance(e, ast.Compare):
            left = self._eval(e.left, env)
            for op, right_e in zip(e.ops, e.comparators):
                right = self._eval(right_e, env)
                r = self._compare(op, left, right, e)
                if isinstance(r, Vec):
                    if len(e.ops) != 1:
                        raise Licence(f"{self.f.loc(e)}: chained comparison on vectors")
                    return r
                if not r:
                    return False
                left = right
            return True
        if isinstance(e, ast.IfExp):
            return self._eval(e.body if self._truth(self._eval(e.test, env), e.test) else e.orelse, env)
        if isinstance(e, ast.Subscript):
            base = self._eval(e.value, env)
            idx = self._eval(e.slice, env) if not isinstance(e.slice, ast.Slice) else None
            if isinstance(base, (list, tuple)) and isinstance(idx, int):
                try:
                    return base[idx]
                except IndexError:
                    raise _Raise("IndexError", (), (), e) from None
            if isinstance(base, dict):
                try:
                    return base[idx]
                except (KeyError, TypeError):
                    raise _Raise("KeyError", (idx,), (), e) from None
            if isinstance(base, (list, tuple)) and isinstance(e.slice, ast.Slice):
                lo = self._eval(e.slice.lower, env) if e.slice.lower is not None else None
                hi = self._eval(e.slice.upper, env) if e.slice.upper is not None else None
                if e.slice.step is None and all(x is None or isinstance(x, int) for x in (lo, hi)):
                    return base[lo:hi]
            raise Licence(f"{self.f.loc(e)}: subscript {src(e)} on abstract value {base!r}")
        if isinstance(e, ast.Call):
            return self._call(e, env)
        if isinstance(e, ast.Dict):
            return {self._hashable(self._eval(k, env), k): self._eval(v, env) for k, v in zip(e.keys, e.values)}
        if isinstance(e, (ast.ListComp, ast.GeneratorExp, ast.SetComp, ast.DictComp)):
            return self._comprehension(e, env)
        if isinstance(e, ast.Attribute):
            d = dotted(e)
            if d:
                c = self.prog.class_of_name(self.f.module, d)
                if c is not None:
                    return ExcClass(c.name)
            base = self._eval(e.value, env)
            if isinstance(base, Vec) and e.attr == "size":
                return len(base)
            if isinstance(base, TypeOf) and e.attr == "__name__":
                return base.name
            if isinstance(base, Obj):
                if e.attr == "__class__":
                    return TypeOf(base.cls)
                if e.attr in base.attrs:
                    return base.attrs[e.attr]
                # read-only property whose getter returns self._x
                c0 = next((c for c in self.prog.classes.values() if c.name == base.cls), None)
                if c0 is not None:
                    gt = self.prog.lookup_getter(c0, e.attr)
                    if gt is not None:
                        out = self._run_func(gt, {gt.self_name: base})
                        if out.kind == "return":
                            return out.value
                raise Licence(f"{self.f.loc(e)}: attribute {e.attr} of the abstract object is not part of the table")
            if isinstance(base, Opaque):
                return Opaque(f"{base.tag}.{e.attr}")
            raise Licence(f"{self.f.loc(e)}: attribute {src(e)} of abstract value {base!r}")
        raise Licence(f"{self.f.loc(e)}: expression kind {type(e).__name__} ({src(e)}) is outside the guard vocabulary")

    def _hashable(self, v: Any, node: ast.AST) -> Any:
        try:
            hash(v)
        except TypeError:
            raise Licence(f"{self.f.loc(node)}: unhashable abstract key {v!r}") from None
        return v

    def _comprehension(self, e: ast.expr, env: dict[str, Any]) -> Any:
        out_list: list[Any] = []
        out_dict: dict[Any, Any] = {}

        def rec(i: int, scope: dict[str, Any]) -> None:
            if i == len(e.generators):  # type: ignore[attr-defined]
                if isinstance(e, ast.DictComp):
                    out_dict[self._hashable(self._eval(e.key, scope), e.key)] = self._eval(e.value, scope)
                else:
                    out_list.append(self._eval(e.elt, scope))  # type: ignore[attr-defined]
                return
            gen = e.generators[i]  # type: ignore[attr-defined]
            it = self._eval(gen.iter, scope)
            if isinstance(it, dict):
                it = list(it)
            if not isinstance(it, (list, tuple, range, set)):
                raise Licence(f"{self.f.loc(gen.iter)}: comprehension over a non-sequence abstract value")
            for item in it:
                inner = dict(scope)
                self._bind(gen.target, item, inner)
                if all(self._truth(self._eval(c, inner), c) for c in gen.ifs):
                    rec(i + 1, inner)

        rec(0, dict(env))
        if isinstance(e, ast.DictComp):
            return out_dict
        if isinstance(e, ast.SetComp):
            return set(out_list)
        return out_list

    def _binop(self, op: ast.operator, a: Any, b: Any, node: ast.AST) -> Any:
        num = (int, Fraction)
        if isinstance(a, num) and isinstance(b, num) and not isinstance(a, bool) and not isinstance(b, bool):
            if isinstance(op, ast.Add):
                return a + b
            if isinstance(op, ast.Sub):
                return a - b
            if isinstance(op, ast.Mult):
                return a * b
            if isinstance(op, ast.Div) and b != 0:
                return Fraction(a) / Fraction(b)
        if isinstance(op, ast.Mult) and isinstance(a, list) and isinstance(b, int):
            return a * b
        if isinstance(op, ast.Add) and isinstance(a, (list, tuple)) and type(a) is type(b):
            return a + b
        raise Licence(f"{self.f.loc(node)}: arithmetic {type(op).__name__} on abstracted inputs ({a!r}, {b!r}) - the order-class table is no longer sound")

    def _compare(self, op: ast.cmpop, a: Any, b: Any, node: ast.AST) -> Any:
        if isinstance(a, Vec) and not isinstance(b, (list, tuple, Vec)):
            return Vec([self._compare(op, x, b, node) for x in a])
        if isinstance(b, Vec) and not isinstance(a, (list, tuple, Vec)):
            return Vec([self._compare(op, a, x, node) for x in b])
        if isinstance(a, Vec) and isinstance(b, Vec) and len(a) == len(b):
            return Vec([self._compare(op, x, y, node) for x, y in zip(a, b)])
        if isinstance(op, ast.Is):
            return self._is(a, b, node)
        if isinstance(op, ast.IsNot):
            return not self._is(a, b, node)
        if isinstance(op, (ast.In, ast.NotIn)):
            if isinstance(b, (list, tuple, dict, set)):
                r = a in b
                return r if isinstance(op, ast.In) else not r
            raise Licence(f"{self.f.loc(node)}: membership in abstract value {b!r}")
        num = (int, Fraction)
        if isinstance(a, Opaque) or isinstance(b, Opaque):
            raise Licence(f"{self.f.loc(node)}: comparison {src(node)} involves a value outside the order class")
        if isinstance(op, ast.Eq):
            return a == b
        if isinstance(op, ast.NotEq):
            return a != b
        if isinstance(a, num) and isinstance(b, num):
            if isinstance(op, ast.Lt):
                return a < b
            if isinstance(op, ast.LtE):
                return a <= b
            if isinstance(op, ast.Gt):
                return a > b
            if isinstance(op, ast.GtE):
                return a >= b
        raise Licence(f"{self.f.loc(node)}: comparison {src(node)} on {a!r}, {b!r}")

    def _is(self, a: Any, b: Any, node: ast.AST) -> bool:
        if a is None or b is None:
            return a is None and b is None
        if isinstance(a, Opaque) and isinstance(b, Opaque):
            return a.tag == b.tag
        if isinstance(a, ExcClass) and isinstance(b, ExcClass):
            return a.name == b.name
        if isinstance(a, Obj) and isinstance(b, Obj):
            return a is b
        raise Licence(f"{self.f.loc(node)}: identity test {src(node)} on {a!r}, {b!r}")

    def _call(self, e: ast.Call, env: dict[str, Any]) -> Any:
        d0 = dotted(e.func)
        if d0 is not None and d0.split(".")[-1] == "cast" and len(e.args) == 2 and not e.keywords:
            return self._eval(e.args[1], env)  # the type argument is not a value
        args = [self._eval(a, env) for a in e.args]
        kwargs = {k.arg: self._eval(k.value, env) for k in e.keywords if k.arg}
        if self.call_hook is not None:
            r = self.call_hook(self, e, args, kwargs)
            if r is not NotImplemented:
                return r
        d = dotted(e.func)
        q = self.prog.qualify(self.f.module, d) if d else None
        if q == "enumerate" and args and set(kwargs) <= {"start"}:
            st_ = kwargs.get("start", args[1] if len(args) > 1 else 0)
            if not isinstance(st_, int) or isinstance(args[0], (Opaque,)):
                raise Licence(f"{self.f.loc(e)}: enumerate over an abstract value / with an abstract start")
            return list(enumerate(args[0], st_))
        # keyword arguments of the built-ins below are not modelled: reading the call without them would be a different call
        if kwargs and q in ("len", "zip", "range", "max", "min", "sum", "sorted", "list", "tuple", "dict", "set", "any", "all", "int", "abs", "next", "dict.fromkeys", "numpy.arange", "numpy.any", "numpy.all"):
            raise Licence(f"{self.f.loc(e)}: keyword argument(s) {sorted(kwargs)} of {q} are outside the guard vocabulary")
        if q in ("numpy.asarray", "numpy.array", "numpy.atleast_1d") and len(args) == 1 and isinstance(args[0], (list, tuple)) and all(isinstance(x, (int, Fraction, bool)) for x in args[0]):
            return Vec(args[0])
        if q == "numpy.arange" and 1 <= len(args) <= 3 and all(isinstance(x, (int, Fraction)) and not isinstance(x, bool) for x in args):
            if len(args) == 1:
                start, stop, step = Fraction(0), Fraction(args[0]), Fraction(1)
            else:
                start, stop = Fraction(args[0]), Fraction(args[1])
                step = Fraction(args[2]) if len(args) == 3 else Fraction(1)
            if step == 0:
                raise _Raise("ZeroDivisionError", (), (), e)
            import math
            nlen = max(0, math.ceil((stop - start) / step))
            if nlen > 4096:
                raise Licence(f"{self.f.loc(e)}: arange of {nlen} points is outside the bounded evaluation")
            return Vec([start + k * step for k in range(nlen)])
        if q in ("numpy.flatnonzero",) and len(args) == 1 and isinstance(args[0], Vec):
            return Vec([i for i, x in enumerate(args[0]) if x])
        if q in ("numpy.nonzero", "numpy.where") and len(args) == 1 and isinstance(args[0], Vec):
            return (Vec([i for i, x in enumerate(args[0]) if x]),)
        if q in ("numpy.any", "any") and len(args) == 1 and isinstance(args[0], (Vec, list)):
            return any(bool(x) for x in args[0])
        if q in ("numpy.all", "all") and len(args) == 1 and isinstance(args[0], (Vec, list)):
            return all(bool(x) for x in args[0])
        if q == "int" and len(args) == 1 and isinstance(args[0], (int, Fraction)) and not isinstance(args[0], bool):
            return int(args[0])
        if isinstance(e.func, ast.Attribute) and e.func.attr in ("any", "all") and not e.args:
            try:
                recv0 = self._eval(e.func.value, env)
            except Licence:
                recv0 = None
            if isinstance(recv0, Vec):
                return any(recv0) if e.func.attr == "any" else all(recv0)
        if q == "len" and len(args) == 1:
            if isinstance(args[0], (list, tuple, str, dict)):
                return len(args[0])
            raise Licence(f"{self.f.loc(e)}: len of abstract value {args[0]!r}")
        if q in ("itertools.count", "count") and len(args) <= 1 and all(isinstance(a, int) and not isinstance(a, bool) for a in args):
            return _Count(args[0] if args else 0)
        if q == "next" and len(args) == 1 and isinstance(args[0], _Count):
            v_ = args[0].n
            args[0].n += 1
            return v_
        if q in ("itertools.chain", "chain") and all(isinstance(a, (list, tuple)) for a in args):
            return [x for a in args for x in a]
        if q == "divmod" and len(args) == 2 and all(isinstance(a, int) and not isinstance(a, bool) for a in args) and args[1] != 0:
            return divmod(args[0], args[1])
        if q == "dict.fromkeys" and 1 <= len(args) <= 2 and isinstance(args[0], (list, tuple)):
            return dict.fromkeys(args[0], args[1] if len(args) == 2 else None)
        if q == "zip":
            finite = [a for a in args if not isinstance(a, _Count)]
            if len(finite) != len(args):
                if not finite or not all(isinstance(a, (list, tuple, range, dict)) for a in finite):
                    raise Licence(f"{self.f.loc(e)}: zip over itertools.count() without a finite abstract sequence")
                nmin = min(len(a) for a in finite)
                args = [list(range(a.n, a.n + nmin)) if isinstance(a, _Count) else a for a in args]
            return list(zip(*args))
        if q == "range":
            return list(range(*args))
        if q in ("list", "tuple") and len(args) == 1 and isinstance(args[0], (list, tuple)):
            return list(args[0]) if q == "list" else tuple(args[0])
        if q in ("typing.cast", "cast") and len(args) == 2:
            return args[1]
        if q in ("max", "min") and args:
            vals = list(args[0]) if len(args) == 1 and isinstance(args[0], (list, tuple, set, dict)) or (len(args) == 1 and hasattr(args[0], "__iter__") and not isinstance(args[0], str)) else list(args)
            if not vals:
                raise _Raise("ValueError", (), (), e)
            if all(isinstance(x, (int, Fraction)) and not isinstance(x, bool) for x in vals):
                return max(vals) if q == "max" else min(vals)
            raise Licence(f"{self.f.loc(e)}: {q} over non-numeric abstract values")
        if q in ("sorted",) and len(args) == 1 and isinstance(args[0], (list, tuple, set)) and all(isinstance(x, (int, Fraction, str)) for x in args[0]):
            return sorted(args[0])
        if q in ("set", "dict") and len(args) <= 1:
            return (set if q == "set" else dict)(*args)
        if q == "type" and len(args) == 1 and isinstance(args[0], Obj):
            return TypeOf(args[0].cls)
        if q == "isinstance" and len(args) == 2 and isinstance(args[0], Obj) and isinstance(args[1], (ExcClass, TypeOf)):
            c0 = self.prog.find_class(args[0].cls) if any(c.name == args[0].cls for c in self.prog.classes.values()) else None
            if c0 is not None:
                return any(k.name == args[1].name for k in self.prog.mro(c0))
            return args[0].cls == args[1].name
        if isinstance(e.func, ast.Attribute) and not (isinstance(e.func.value, ast.Name) and isinstance(env.get(e.func.value.id), Obj)):
            try:
                recv = self._eval(e.func.value, env)
            except Licence:
                recv = None
            m = e.func.attr
            if isinstance(recv, dict) and m in ("values", "keys", "items", "get", "pop", "setdefault", "copy"):
                if m == "values":
                    return list(recv.values())
                if m == "keys":
                    return list(recv.keys())
                if m == "items":
                    return list(recv.items())
                if m == "copy":
                    return dict(recv)
                if m == "get":
                    return recv.get(args[0], args[1] if len(args) > 1 else None)
                if m == "setdefault":
                    return recv.setdefault(args[0], args[1] if len(args) > 1 else None)
                if m == "pop":
                    return recv.pop(*args)
            if isinstance(recv, list) and m in ("append", "extend", "index", "count", "copy", "insert"):
                if m == "index":
                    try:
                        return recv.index(*args)
                    except ValueError:
                        raise _Raise("ValueError", (), (), e) from None
                return getattr(recv, m)(*args)
        if q == "print":
            self.printed.append(src(e))
            return None
        if isinstance(e.func, ast.Attribute) and e.func.attr in ("debug", "info", "warning", "warn", "error", "critical", "exception", "log") and isinstance(e.func.value, ast.Name):
            # a module-level logging.getLogger(...) object (or the logging module): output only
            nm = e.func.value.id
            is_logger = (self.prog.qualify(self.f.module, nm) or "") == "logging" or any(
                isinstance(st, (ast.Assign, ast.AnnAssign)) and st.value is not None and isinstance(st.value, ast.Call)
                and (self.prog.qualify(self.f.module, dotted(st.value.func) or "") or "") == "logging.getLogger"
                and any(isinstance(t, ast.Name) and t.id == nm for t in ([st.target] if isinstance(st, ast.AnnAssign) else st.targets))
                for st in self.f.module.tree.body)
            if is_logger:
                self.printed.append(src(e))
                return None
        # well-formedness probes on an argument nothing is known about: the abstract inputs stand for well-typed objects (a given sampler *is* a
        # sampler), so a duck-typing probe succeeds on them and fails on None
        if q == "hasattr" and len(args) == 2 and isinstance(args[1], str) and (args[0] is None or isinstance(args[0], Opaque)):
            return args[0] is not None
        if q == "callable" and len(args) == 1 and (args[0] is None or isinstance(args[0], Opaque)):
            return args[0] is not None
        if q == "getattr" and len(args) in (2, 3) and isinstance(args[1], str) and isinstance(args[0], Opaque):
            return Opaque(f"{args[0].tag}.{args[1]}")
        if q == "getattr" and len(args) == 3 and args[0] is None and isinstance(args[1], str):
            return args[2]
        if q == "isinstance" and len(args) == 2 and isinstance(args[0], Opaque) and isinstance(e.args[1], ast.Name) and e.args[1].id == "type":
            return False
        if q in ("isinstance",):
            raise Licence(f"{self.f.loc(e)}: isinstance test is outside the order-class vocabulary")
        if q in ("abs",) and len(args) == 1 and isinstance(args[0], (int, Fraction)):
            return abs(args[0])
        # repository function: interpret its body too (wrappers such as _assert / check_arg)
        targets = [t for t in self.prog.resolve_call(self.f, e) if isinstance(t, FuncInfo)]
        if isinstance(e.func, ast.Attribute) and isinstance(e.func.value, ast.Name) and isinstance(env.get(e.func.value.id), Obj):
            obj = env[e.func.value.id]
            c = self.prog.find_class(obj.cls)
            m = self.prog.lookup_method(c, e.func.attr)
            if m is not None:
                callee_env = self._bind_args(m, e, args, kwargs)
                if m.self_name:
                    callee_env[m.self_name] = obj
                out = self._run_func(m, callee_env)
                if out.kind == "raise":
                    raise _Raise(out.name or "?", out.args, out.kwargs, out.node or e)
                return out.value
        if len(targets) == 1:
            t = targets[0]
            if t.name == "__init__" and t.cls is not None:
                return Constructed(t.cls.name, tuple(args), tuple(sorted(kwargs.items())))
            callee_env = self._bind_args(t, e, args, kwargs)
            out = self._run_func(t, callee_env)
            if out.kind == "raise":
                raise _Raise(out.name or "?", out.args, out.kwargs, out.node or e)
            return out.value
        if q is not None:
            c = self.prog.class_of_name(self.f.module, d) if d else None
            if c is not None:
                return Constructed(c.name, tuple(args), tuple(sorted(kwargs.items())))
        if isinstance(e.func, ast.Name) and e.func.id in env and isinstance(env[e.func.id], ExcClass):
            return Constructed(env[e.func.id].name, tuple(args), tuple(sorted(kwargs.items())))
        raise Licence(f"{self.f.loc(e)}: call {src(e.func)} is outside the guard vocabulary")

    def _bind_args(self, t: FuncInfo, call: ast.Call, args: list, kwargs: dict) -> dict[str, Any]:
        params = t.bound_params if not (isinstance(call.func, ast.Name)) or t.cls is None else t.bound_params
        if t.cls is not None and isinstance(call.func, ast.Attribute) and t.is_static is False and dotted(call.func.value) and self.prog.class_of_name(self.f.module, dotted(call.func.value) or "") is not None and not t.is_classmethod:
            params = t.params  # Class.method(obj, ...) explicit self
        env: dict[str, Any] = {}
        for name, v in zip(params, args):
            env[name] = v
        for k, v in kwargs.items():
            env[k] = v
        for name in [*params, *t.kwonly]:
            if name not in env:
                dflt = t.param_default(name)
                if dflt is None:
                    raise Licence(f"{self.f.loc(call)}: missing argument {name} for {t.qualname}")
                saved = self.f
                self.f = t
                try:
                    env[name] = self._eval(dflt, {})
                finally:
                    self.f = saved
        return env


class Vec(list):
    """A one-dimensional numeric/boolean vector (element-wise comparisons)."""


class Obj:
    """An abstract object with a fixed attribute table (e.g. `self` of the function under evaluation)."""

    def __init__(self, cls: str, attrs: dict[str, Any]) -> None:
        self.cls = cls
        self.attrs = attrs

    def __repr__(self) -> str:
        return f"<obj {self.cls}>"


class ExcClass:
    def __init__(self, name: str) -> None:
        self.name = name

    def __repr__(self) -> str:
        return f"<class {self.name}>"

    def __eq__(self, o: object) -> bool:
        return isinstance(o, (ExcClass, TypeOf)) and o.name == self.name

    def __hash__(self) -> int:
        return hash(("cls", self.name))


class TypeOf(ExcClass):
    """`type(obj)` of an abstract object."""


@dataclass(frozen=True)
class Constructed:
    cls: str
    args: tuple
    kwargs: tuple = ()

    def __repr__(self) -> str:
        return f"{self.cls}{self.args!r}"


class _Break(Exception):
    pass


class _Continue(Exception):
    pass
