"""Synchronisation-effect analysis of the RL scheduler: extraction of communicating thread summaries and their product.

The two thread entry points (the calibration loop through `Calibrator.calibrate` / `BaseScheduler.session` /
`RLScheduler.*`, and `RLScheduler._train` through `CalibrationEnv.step`) are summarised by an abstract small-step
semantics over their control-flow graphs (sa/cfg.py, exceptional edges included).  The summary keeps only the
synchronisation vocabulary found in the source - `Queue.put/get/get_nowait/empty` (queues identified up to the alias
classes created by the constructors), `Thread(target=...)`/`start`/`join`, reads and writes of the shared attributes, the
observable agent events `policy` / `learn`, tuple constants flowing through returns (so a test on `truncated` is
understood), `is None` tests on received messages - and abstracts every other value to *unknown*, every other
condition to a nondeterministic choice, every other call to an opaque step (the tabled user-code calls sample /
simulate_model / compute_loss are fault-injection points).  The product of the two summaries is explored exhaustively
under interleaving semantics with FIFO queues; nothing of the repository is imported or executed.
"""
from __future__ import annotations

import ast
from dataclasses import dataclass, field, replace
from typing import Any, Iterable

from .cfg import CFG, Node
from .errors import AnalysisError
from .model import ClassInfo, FuncInfo, Program, dotted, mangle, src, walk_scope

U = ("U", frozenset())  # unknown value (may be None), with the set of tokens it depends on
NN = ("NN", frozenset())  # unknown, certainly not None

NOT_NONE_CALLS = {"float", "int", "len", "str", "tuple", "list", "dict", "abs", "bool", "set", "sorted", "range", "enumerate", "zip"}


def is_const(v: Any) -> bool:
    return isinstance(v, tuple) and len(v) == 2 and v[0] == "K"


def K(x: Any) -> tuple:
    return ("K", x)


@dataclass(frozen=True)
class Frame:
    fq: str
    node: int
    env: tuple  # sorted (name, value)
    self_obj: str | None
    ret_to: tuple  # ('drop',) | ('assign', src-of-target) | ('test',) | ('ret',) | ('cm',)
    mode: str = "call"  # call | cm | cmresume

    def get(self, name: str, default: Any = None) -> Any:
        for k, v in self.env:
            if k == name:
                return v
        return default

    def set(self, name: str, value: Any) -> "Frame":
        d = dict(self.env)
        d[name] = value
        return replace(self, env=tuple(sorted(d.items(), key=lambda kv: kv[0])))


@dataclass(frozen=True)
class Thread:
    frames: tuple = ()
    cms: tuple = ()  # suspended context-manager frames
    exc: bool = False
    status: str = "run"  # run | done | raised
    ghost: tuple = ()  # thread-local ghost variables (sorted pairs)

    def g(self, name: str, default: Any = None) -> Any:
        for k, v in self.ghost:
            if k == name:
                return v
        return default

    def gset(self, name: str, value: Any) -> "Thread":
        d = dict(self.ghost)
        d[name] = value
        return replace(self, ghost=tuple(sorted(d.items())))


@dataclass(frozen=True)
class State:
    main: Thread
    agent: Thread | None
    queues: tuple  # sorted (qname, tuple of messages)
    heap: tuple  # sorted ((obj, attr), value)
    ghost: tuple  # sorted global ghost variables

    def q(self, name: str) -> tuple:
        for k, v in self.queues:
            if k == name:
                return v
        return ()

    def qset(self, name: str, content: tuple) -> "State":
        d = dict(self.queues)
        d[name] = content
        return replace(self, queues=tuple(sorted(d.items())))

    def h(self, obj: str, attr: str, default: Any = U) -> Any:
        for k, v in self.heap:
            if k == (obj, attr):
                return v
        return default

    def hset(self, obj: str, attr: str, value: Any) -> "State":
        d = dict(self.heap)
        d[(obj, attr)] = value
        return replace(self, heap=tuple(sorted(d.items())))

    def g(self, name: str, default: Any = None) -> Any:
        for k, v in self.ghost:
            if k == name:
                return v
        return default

    def gset(self, name: str, value: Any) -> "State":
        d = dict(self.ghost)
        d[name] = value
        return replace(self, ghost=tuple(sorted(d.items())))


@dataclass
class Violation:
    prop: str
    key: str
    message: str
    trace: list[str]
    where: tuple[str, int] | None = None


USER_CALLS = {("BaseSampler", "sample"): "sampler", ("Calibrator", "simulate_model"): "model", ("BaseLoss", "compute_loss"): "loss"}
AGENT_EVENTS = {"policy", "learn"}
QUEUE_TYPES = {"queue.Queue", "queue.SimpleQueue"}
FOREIGN_SYNC = {"threading.Event", "threading.Condition", "threading.Lock", "threading.RLock", "threading.Semaphore", "threading.Barrier", "threading.Timer",
                "queue.LifoQueue", "queue.PriorityQueue", "multiprocessing.Queue", "asyncio.Queue"}


class SyncModel:
    """Static discovery of the synchronisation vocabulary (queues and their aliases, shared attributes, entry points)."""

    def __init__(self, prog: Program) -> None:
        self.prog = prog
        self.sched = prog.find_class("RLScheduler")
        self.env_base = prog.find_class("CalibrationEnv")
        envs = [c for c in prog.subclasses(self.env_base, strict=True)]
        self.env = envs[0] if envs else self.env_base
        self.cal = prog.find_class("Calibrator")
        self.agent_cls = prog.find_class("Agent")
        self.obj_class = {"cal": self.cal, "sched": self.sched, "env": self.env, "agent": self.agent_cls}
        self._cfgs: dict[str, CFG] = {}
        self.queue_of: dict[tuple[str, str], str] = {}
        self.links = {("cal", "scheduler"): "sched"}
        self._check_links()
        self._discover_queues()
        self.init_heap: dict[tuple[str, str], tuple] = {}
        self.mutable: set[tuple[str, str]] = set()
        self.session_flag: str | None = None
        self._discover_fields()
        self.relevant = self._relevant_functions()

    def cfg(self, f: FuncInfo) -> CFG:
        if f.qualname not in self._cfgs:
            self._cfgs[f.qualname] = CFG(f.node, exc_edges=True)
        return self._cfgs[f.qualname]

    def _check_links(self) -> None:
        init = self.sched.methods.get("__init__")
        if init is None:
            raise AnalysisError("anchor vanished: RLScheduler.__init__")
        # the attributes holding the environment and the agent are whatever the constructor stores its `env` / `agent` parameters in
        for param in ("env", "agent"):
            attrs = [s.targets[0].attr for s in walk_scope(init.node) if isinstance(s, ast.Assign) and isinstance(s.targets[0], ast.Attribute)
                     and src(s.targets[0].value) == init.self_name and src(s.value) == param]
            if len(attrs) != 1:
                raise AnalysisError(f"anchor vanished: RLScheduler.__init__ no longer stores its `{param}` parameter in exactly one attribute")
            self.links[("sched", attrs[0])] = param

    def _discover_fields(self) -> None:
        """Initial constants of the scheduler/environment attributes (from the constructors), the attributes written outside the
        constructors (the mutable, possibly shared state) and the session flag (constant-toggled by start_session/end_session)."""
        prog = self.prog
        link_of = {(o, a): t for (o, a), t in self.links.items()}

        def stores(fn: FuncInfo):
            for st_ in walk_scope(fn.node):
                tgs = st_.targets if isinstance(st_, ast.Assign) else [st_.target] if isinstance(st_, (ast.AugAssign, ast.AnnAssign)) else []
                val = getattr(st_, "value", None)
                for t in tgs:
                    for el in (t.elts if isinstance(t, (ast.Tuple, ast.List)) else [t]):
                        if isinstance(el, ast.Attribute):
                            yield el, (val if not isinstance(t, (ast.Tuple, ast.List)) and isinstance(st_, (ast.Assign, ast.AnnAssign)) else None)

        for oname, cls in (("sched", self.sched), ("env", self.env)):
            for k in reversed(prog.mro(cls)):
                for m in k.methods.values():
                    for el, val in stores(m):
                        owner = None
                        if isinstance(el.value, ast.Name) and el.value.id == m.self_name:
                            owner = oname
                        elif isinstance(el.value, ast.Attribute) and isinstance(el.value.value, ast.Name) and el.value.value.id == m.self_name \
                                and (oname, el.value.attr) in link_of:
                            owner = link_of[(oname, el.value.attr)]
                        if owner is None or owner not in ("sched", "env"):
                            continue
                        attr = mangle(k.name, el.attr) if owner == oname else el.attr
                        if m.name == "__init__" and owner == oname:
                            if isinstance(val, ast.Constant):
                                self.init_heap[(owner, attr)] = K(val.value)
                            else:
                                self.init_heap.pop((owner, attr), None)
                        elif m.name != "__init__":
                            self.mutable.add((owner, attr))
        self.mutable -= set(self.queue_of)
        # session flag: a boolean attribute set to one constant by start_session and to the other by end_session
        def const_stores(name: str) -> dict[str, object]:
            m = prog.lookup_method(self.sched, name)
            out: dict[str, object] = {}
            if m is not None:
                for el, val in stores(m):
                    if isinstance(el.value, ast.Name) and el.value.id == m.self_name and isinstance(val, ast.Constant) and isinstance(val.value, bool):
                        out[el.attr] = val.value
            return out
        a, b = const_stores("start_session"), const_stores("end_session")
        flags = [x for x in a if x in b and a[x] != b[x]]
        if len(flags) == 1:
            self.session_flag = flags[0]
            self.session_flag_idle = b[flags[0]]

    def _discover_queues(self) -> None:
        from .props.c04 import attr_type_names
        prog = self.prog
        parent: dict[tuple[str, str], tuple[str, str]] = {}

        def find(x):
            while parent.get(x, x) != x:
                x = parent[x]
            return x

        for oname, cls in (("env", self.env), ("sched", self.sched)):
            for k in prog.mro(cls):
                for attr, lst in attr_type_names(prog, k).items():
                    for tname, f, s in lst:
                        if tname in QUEUE_TYPES:
                            parent.setdefault((oname, attr), (oname, attr))
                        if tname in FOREIGN_SYNC:
                            raise AnalysisError(f"{f.loc(s)}: {k.name}.{attr} uses {tname}, a synchronisation primitive outside the vocabulary of this analysis")
        # aliases: self._in_queue = self._env._out_queue
        init = self.sched.methods["__init__"]
        for s in walk_scope(init.node):
            if isinstance(s, (ast.Assign, ast.AnnAssign)):
                tgt = s.targets[0] if isinstance(s, ast.Assign) else s.target
                v = s.value
                env_attr = next(a for (o, a), t in self.links.items() if o == "sched" and t == "env")
                if isinstance(tgt, ast.Attribute) and src(tgt.value) == init.self_name and isinstance(v, ast.Attribute) and src(v.value) == f"{init.self_name}.{env_attr}" and ("env", v.attr) in parent:
                    parent[("sched", tgt.attr)] = find(("env", v.attr))
        for key in list(parent):
            root = find(key)
            self.queue_of[key] = f"Q[{root[0]}.{root[1]}]"
        names = sorted(set(self.queue_of.values()))
        if len(names) != 2:
            raise AnalysisError(f"expected exactly two queue alias classes between scheduler and environment, found {names}")

    def _relevant_functions(self) -> set[str]:
        """Functions that (transitively) contain a synchronisation operation: these are inlined, all others are opaque."""
        prog = self.prog
        cands = []
        for c in [self.cal, *prog.mro(self.sched), *prog.mro(self.env)]:
            cands.extend(prog.methods_of(c))
        direct: set[str] = set()
        shared_attrs = {a for (_, a) in self.mutable}
        for f in cands:
            for x in ast.walk(f.node):
                if isinstance(x, ast.Attribute) and (x.attr in shared_attrs or any(x.attr == a for (_, a) in self.queue_of)):
                    direct.add(f.qualname)
                if isinstance(x, ast.Call) and isinstance(x.func, ast.Attribute) and x.func.attr in ("policy", "learn", "start", "join") and "agent" in src(x.func.value).lower():
                    direct.add(f.qualname)
                if isinstance(x, (ast.Yield,)):
                    direct.add(f.qualname)
        rel = set(direct)
        changed = True
        while changed:
            changed = False
            for f in cands:
                if f.qualname in rel:
                    continue
                for c in ast.walk(f.node):
                    if isinstance(c, ast.Call):
                        nm = c.func.attr if isinstance(c.func, ast.Attribute) else (c.func.id if isinstance(c.func, ast.Name) else "")
                        if any(q.endswith(f".{nm}") or q.endswith(f":{nm}") for q in rel) and nm not in ("__init__", "reset", "get", "put"):
                            rel.add(f.qualname)
                            changed = True
                            break
        rel.discard(f"{self.cal.module.name}:Calibrator.__init__")
        out = {q for q in rel if not q.endswith(".__init__") and not q.endswith(".setter")}
        # a generator that is *iterated* (not entered as a context manager) interleaves two frames: the small-step semantics does not model that
        for f in cands:
            if f.qualname in out and "contextmanager" not in " ".join(f.decorators) and any(isinstance(x, (ast.Yield, ast.YieldFrom)) for x in walk_scope(f.node)):
                raise AnalysisError(f"{f.loc(f.node)}: {f.qualname.split(':')[1]} is a generator function taking part in the thread protocol; "
                                    "generator iteration is outside the vocabulary of the synchronisation model")
        return out


class Machine:
    """Abstract small-step semantics of one thread; global effects are applied to the State."""

    def __init__(self, model: SyncModel, faults: bool = False) -> None:
        self.m = model
        self.prog = model.prog
        self.faults = faults
        self.shared_fields = set(model.mutable)

    # ------------------------------------------------------------------ helpers
    def func(self, fq: str) -> FuncInfo:
        return self.prog.func(fq)

    def node(self, fr: Frame) -> Node:
        return self.m.cfg(self.func(fr.fq)).nodes[fr.node]

    def loc(self, fr: Frame) -> str:
        f = self.func(fr.fq)
        n = self.node(fr)
        txt = src(n.ast).splitlines()[0][:80] if n.ast is not None else n.kind
        return f"{f.module.relpath}:{n.lineno} {f.qualname.split(':')[1]}: {txt}"

    def succ(self, n: Node, label: str) -> Node | None:
        for t, lab in n.succ:
            if lab == label:
                return t
        return None

    def goto(self, fr: Frame, n: Node | None) -> Frame:
        if n is None:
            raise AnalysisError(f"control-flow edge missing at {self.loc(fr)}")
        return replace(fr, node=n.idx)

    # ------------------------------------------------------------------ expression evaluation (no side effects)
    def ev(self, e: ast.expr | None, fr: Frame, st: State) -> Any:
        if e is None:
            return K(None)
        if isinstance(e, ast.Constant):
            return K(e.value)
        if isinstance(e, ast.Name):
            if e.id == "self" or (fr.self_obj and e.id == self.func(fr.fq).self_name):
                return ("OBJ", fr.self_obj)
            v = fr.get(e.id)
            return v if v is not None else U
        if isinstance(e, ast.Tuple):
            return ("T", tuple(self.ev(x, fr, st) for x in e.elts))
        if isinstance(e, ast.Dict) and not e.keys:
            return NN
        if isinstance(e, ast.Attribute):
            base = self.ev(e.value, fr, st)
            if isinstance(base, tuple) and base[0] == "OBJ":
                o = base[1]
                attr = e.attr
                if (o, attr) in self.m.links:
                    return ("OBJ", self.m.links[(o, attr)])
                if (o, attr) in self.m.queue_of:
                    return ("Q", self.m.queue_of[(o, attr)])
                # read-only property returning self._x
                cls = self.m.obj_class.get(o)
                if cls is not None:
                    g = self.prog.lookup_getter(cls, attr)
                    if g is not None:
                        return U
                return st.h(o, attr)
            return U
        if isinstance(e, ast.Compare) and len(e.ops) == 1:
            a, b = self.ev(e.left, fr, st), self.ev(e.comparators[0], fr, st)
            op = e.ops[0]
            if isinstance(op, (ast.Is, ast.IsNot)) and is_const(b) and b[1] is None:
                r = self.is_none(a)
                if r is None:
                    return U
                return K(r if isinstance(op, ast.Is) else not r)
            if isinstance(op, (ast.Eq, ast.NotEq)) and is_const(a) and is_const(b):
                return K((a[1] == b[1]) if isinstance(op, ast.Eq) else (a[1] != b[1]))
            return U
        if isinstance(e, ast.UnaryOp) and isinstance(e.op, ast.Not):
            v = self.truth(self.ev(e.operand, fr, st))
            return U if v is None else K(not v)
        if isinstance(e, ast.BoolOp):
            vals = [self.truth(self.ev(x, fr, st)) for x in e.values]
            if isinstance(e.op, ast.And):
                if any(v is False for v in vals):
                    return K(False)
                return K(True) if all(v is True for v in vals) else U
            if any(v is True for v in vals):
                return K(True)
            return K(False) if all(v is False for v in vals) else U
        if isinstance(e, ast.Call):
            fn = dotted(e.func) or ""
            if fn.split(".")[-1] == "cast" and len(e.args) == 2:
                return self.ev(e.args[1], fr, st)
            if fn == "bool" and len(e.args) == 1 and not e.keywords:
                tv = self.truth(self.ev(e.args[0], fr, st))
                if tv is not None:
                    return K(tv)
            d_ = self.deps_of([self.ev(a.value if isinstance(a, ast.Starred) else a, fr, st) for a in e.args] + [self.ev(k.value, fr, st) for k in e.keywords])
            q_ = self.prog.qualify(self.func(fr.fq).module, fn) if fn else ""
            if fn in NOT_NONE_CALLS or q_.startswith(("numpy.", "math.")):
                return ("NN", d_)
            return ("U", d_)
        if isinstance(e, ast.Subscript):
            base = self.ev(e.value, fr, st)
            idx = self.ev(e.slice, fr, st) if not isinstance(e.slice, ast.Slice) else U
            if isinstance(base, tuple) and base[0] == "T" and is_const(idx) and isinstance(idx[1], int) and -len(base[1]) <= idx[1] < len(base[1]):
                return base[1][idx[1]]
            return ("U", self.deps_of([base, idx]))
        if isinstance(e, (ast.BinOp,)):
            return ("U", self.deps_of([self.ev(e.left, fr, st), self.ev(e.right, fr, st)]))
        return U

    def deps_of(self, vals: Iterable[Any]) -> frozenset:
        out: set = set()
        for v in vals:
            if isinstance(v, tuple) and v:
                if v[0] == "ACT":
                    out.add(v)
                elif v[0] in ("U", "NN") and len(v) > 1:
                    out |= set(v[1])
                if v[0] == "OUT":
                    out.add(("OUT", v[1]))
                    out.discard(v)
                elif v[0] == "T":
                    out |= self.deps_of(v[1])
        return frozenset(out)

    def add_deps(self, v: Any, deps: frozenset) -> Any:
        """The value of a call also depends on what was passed in (control dependence inside the callee)."""
        if isinstance(v, tuple) and v:
            if v[0] in ("U", "NN"):
                return (v[0], frozenset(v[1]) | deps)
            if v[0] == "K" and v[1] is not None and not isinstance(v[1], bool):
                return ("NN", deps)
            if v[0] == "T":
                return ("T", tuple(self.add_deps(x, deps) for x in v[1]))
        return v

    def is_none(self, v: Any) -> bool | None:
        if is_const(v):
            return v[1] is None
        if isinstance(v, tuple) and v and v[0] in ("ACT", "OUT", "T", "OBJ", "Q", "THREAD", "NN"):
            return False
        if isinstance(v, tuple) and v and v[0] == "RET":
            return self.is_none(v[1])
        return None

    def truth(self, v: Any) -> bool | None:
        if is_const(v):
            return bool(v[1])
        if isinstance(v, tuple) and v and v[0] in ("OBJ", "Q", "THREAD"):
            return True
        return None


# =============================================================================================== step semantics
class Blocked(Exception):
    pass


@dataclass
class Event:
    who: str
    kind: str
    detail: str
    loc: str


class Stepper(Machine):
    def __init__(self, model: SyncModel, faults: bool = False, max_faults: int = 1) -> None:
        super().__init__(model, faults)
        self.max_faults = max_faults
        self.violations: list[tuple[str, str, str, str]] = []  # (prop, key, message, loc) raised while stepping

    # ------------------------------------------------------------------ thread access
    def th(self, st: State, who: str) -> Thread:
        t = st.main if who == "main" else st.agent
        assert t is not None
        return t

    def put_th(self, st: State, who: str, t: Thread) -> State:
        return replace(st, main=t) if who == "main" else replace(st, agent=t)

    def top(self, t: Thread) -> Frame:
        return t.frames[-1]

    def with_top(self, t: Thread, fr: Frame) -> Thread:
        return replace(t, frames=(*t.frames[:-1], fr))

    def _guard_clause_raise(self, node: Node) -> bool:
        """The branch starting at `node` is a straight line of at most three simple statements ending in an explicit `raise`."""
        cur = node
        for _ in range(4):
            if cur.kind == "raise" and isinstance(cur.ast, ast.Raise):
                return True
            if cur.kind != "stmt" or not isinstance(cur.ast, (ast.Assign, ast.AnnAssign, ast.Expr)) or self.principal(cur) is not None and cur.kind != "stmt":
                return False
            nxt = [t for t, lab in cur.succ if lab != "exc"]
            if len(nxt) != 1:
                return False
            cur = nxt[0]
        return False

    def _exit_controlling_tests(self, fq: str) -> set[int]:
        """Test nodes of `fq` on which a break / continue / return / raise is control dependent (tests that only guard prints and the like do not matter)."""
        cache = self.__dict__.setdefault("_exit_tests", {})
        if fq not in cache:
            g = self.m.cfg(self.func(fq))
            plain = CFG(self.func(fq).node)  # without exceptional edges: "may raise" must not make everything control dependent on everything
            tests_ast: set[int] = set()
            for x in plain.live:
                if x.kind in ("break", "continue", "return"):
                    for tnode, _lab in plain.control_closure(x):
                        if tnode.kind == "test" and tnode.ast is not None:
                            tests_ast.add(id(tnode.ast))
            out: set[int] = {x.idx for x in g.live if x.kind == "test" and x.ast is not None and id(x.ast) in tests_ast}
            cache[fq] = out
        return cache[fq]

    def _in_cal_frame(self, t) -> bool:
        """The thread's innermost frame is Calibrator.calibrate itself (not a scheduler / environment method inlined into it)."""
        return bool(t.frames) and t.frames[-1].fq.endswith("Calibrator.calibrate")

    # ------------------------------------------------------------------ classification of the node's principal call
    def _no_nested_protocol_call(self, n: Node, principal: ast.Call | None, fr: Frame, st: State) -> None:
        """The machine steps a statement through its principal call (`x = q.get()`, `return f()`, `f()`).  A queue / thread / agent operation, or a call of a method
        that takes part in the protocol, sitting deeper inside the statement's expression (`return xs[self._env.next_action()]`) would be evaluated as an opaque
        value and its effect lost: such a statement is outside the vocabulary."""
        key = (fr.fq, n.idx)
        done = self.__dict__.setdefault("_nested_checked", {})
        if key in done:
            if done[key]:
                raise AnalysisError(done[key])
            return
        done[key] = ""
        a = n.ast
        if a is None or n.kind in ("join", "entry", "exit"):
            return
        roots = [a.iter] if n.kind == "for" and isinstance(a, ast.For) else [i.context_expr for i in a.items] if isinstance(a, ast.With) else [a]
        for root in roots:
            for c_ in ast.walk(root):
                if not isinstance(c_, ast.Call) or c_ is principal:
                    continue
                if isinstance(root, (ast.FunctionDef, ast.ClassDef, ast.Lambda)):
                    continue
                try:
                    cc = self.classify(c_, fr, st)
                except AnalysisError:
                    continue
                if cc and cc[0] in ("queue", "thread", "agent", "inline"):
                    done[key] = f"{self.loc(fr)}: `{src(c_)[:60]}` takes part in the thread protocol but sits inside a larger expression; the machine only steps calls that are the statement's own value"
                    raise AnalysisError(done[key])

    def principal(self, n: Node) -> ast.Call | None:
        a = n.ast
        e = None
        if n.kind in ("test", "with"):
            e = a
        elif isinstance(a, (ast.Assign, ast.AnnAssign, ast.Expr, ast.Return, ast.AugAssign)):
            e = a.value
        while isinstance(e, ast.Call) and (dotted(e.func) or "").split(".")[-1] == "cast" and len(e.args) == 2:
            e = e.args[1]
        return e if isinstance(e, ast.Call) else None

    def classify(self, call: ast.Call, fr: Frame, st: State) -> tuple:
        f = self.func(fr.fq)
        fn = call.func
        d = dotted(fn) or ""
        q = self.prog.qualify(f.module, d) if d else ""
        if q == "threading.Thread":
            return ("mkthread",)
        if isinstance(fn, ast.Attribute):
            recv = self.ev(fn.value, fr, st)
            if isinstance(recv, tuple) and recv[0] == "Q":
                if fn.attr in ("put", "put_nowait", "get", "get_nowait", "empty", "qsize"):
                    if fn.attr == "get" and isinstance(call, ast.Call):
                        # get(timeout=t) / get(block=False): gives up with queue.Empty when nothing arrived in time - whether a message is there "in time"
                        # is decided by the scheduler, so both outcomes are explored whenever the queue is empty at that point
                        tmo = next((k.value for k in call.keywords if k.arg == "timeout"), call.args[1] if len(call.args) > 1 else None)
                        blk = next((k.value for k in call.keywords if k.arg == "block"), call.args[0] if call.args else None)
                        if (tmo is not None and not (isinstance(tmo, ast.Constant) and tmo.value is None)) or (isinstance(blk, ast.Constant) and blk.value is False):
                            return ("queue", recv[1], "get_timeout")
                    return ("queue", recv[1], fn.attr)
                raise AnalysisError(f"{self.loc(fr)}: queue operation `{fn.attr}` is outside the vocabulary")
            if isinstance(recv, tuple) and recv[0] == "THREAD":
                if fn.attr in ("start", "join", "is_alive"):
                    return ("thread", fn.attr, recv)
                raise AnalysisError(f"{self.loc(fr)}: thread operation `{fn.attr}` is outside the vocabulary")
            if fn.attr in ("start", "join") and "thread" in src(fn.value).lower():
                return ("thread-unset", fn.attr)
            if isinstance(recv, tuple) and recv[0] == "OBJ":
                o = recv[1]
                if o == "agent" and fn.attr in AGENT_EVENTS:
                    return ("agent", fn.attr)
                cls = self.m.obj_class.get(o)
                if cls is not None:
                    m = self.prog.lookup_method(cls, fn.attr)
                    if m is not None and m.qualname in self.m.relevant:
                        return ("inline", m, o)
                    if m is not None and "abstractmethod" in m.decorators:
                        return ("opaque",)
        # user code (fault-injection points), resolved statically
        for t in self.prog.resolve_call(f, call):
            if isinstance(t, FuncInfo) and t.cls is not None:
                for (cn, mn), kind in USER_CALLS.items():
                    if t.name == mn and any(k.name == cn for k in self.prog.mro(t.cls)):
                        return ("user", kind)
        if isinstance(fn, ast.Name):
            tg = [t for t in self.prog.resolve_call(f, call) if isinstance(t, FuncInfo) and t.qualname in self.m.relevant]
            if tg:
                return ("inline", tg[0], fr.self_obj)
            # a closure of the current function shares its frame (and `self`): what it does to the protocol state cannot be skipped as opaque
            for x in ast.walk(f.node):
                if x is not f.node and ((isinstance(x, (ast.FunctionDef, ast.AsyncFunctionDef)) and x.name == fn.id)
                                        or (isinstance(x, ast.Assign) and isinstance(x.value, ast.Lambda) and any(isinstance(t, ast.Name) and t.id == fn.id for t in x.targets))):
                    if any(isinstance(y, ast.Attribute) for y in ast.walk(x)):
                        raise AnalysisError(f"{self.loc(fr)}: call of the local closure `{fn.id}` (touches attributes) is outside the vocabulary of the synchronisation model")
        return ("opaque",)

    def shared_accesses(self, n: Node, fr: Frame, st: State) -> tuple[set, set]:
        reads, writes = set(), set()
        a = n.ast
        if a is None:
            return reads, writes
        stores = set()
        if isinstance(a, ast.Assign):
            for t in a.targets:
                for el in (t.elts if isinstance(t, (ast.Tuple, ast.List)) else [t]):
                    stores.add(id(el))
        elif isinstance(a, (ast.AugAssign, ast.AnnAssign)):
            stores.add(id(a.target))
        for x in ast.walk(a):
            if isinstance(x, ast.Attribute):
                base = self.ev(x.value, fr, st)
                if isinstance(base, tuple) and base[0] == "OBJ" and (base[1], x.attr) in self.shared_fields:
                    (writes if id(x) in stores else reads).add((base[1], x.attr))
        return reads, writes

    # ------------------------------------------------------------------ visible?
    def next_visible(self, st: State, who: str) -> tuple | None:
        """Description of the visible operation the thread is about to perform (None if its next step is local)."""
        t = self.th(st, who)
        if t.status != "run" or not t.frames:
            return None
        fr = self.top(t)
        n = self.node(fr)
        if fr.get("#ret") is not None:
            return None
        call = self.principal(n)
        self._no_nested_protocol_call(n, call, fr, st)
        if call is not None:
            c = self.classify(call, fr, st)
            if c[0] in ("queue", "thread", "agent"):
                return c
            if c[0] == "user" and self.faults:
                return c
        r, w = self.shared_accesses(n, fr, st)
        if r or w:
            return ("shared", frozenset(r), frozenset(w))
        return None

    def enabled(self, st: State, who: str) -> bool:
        v = self.next_visible(st, who)
        if v is None:
            return True
        if v[0] == "queue" and v[2] == "get" and not st.q(v[1]):
            return False
        if v[0] == "thread" and v[1] == "join":
            return st.agent is None or st.agent.status != "run"
        return True

    # ------------------------------------------------------------------ one step of one thread
    def step(self, st: State, who: str) -> list[tuple[State, Event | None]]:
        t = self.th(st, who)
        if t.status != "run":
            return []
        if not t.frames:
            return [(self.put_th(st, who, replace(t, status="done")), None)]
        fr = self.top(t)
        n = self.node(fr)
        kind = n.kind
        if kind in ("entry", "join", "break", "continue"):
            return [(self._advance(st, who, n), None)]
        if kind == "handler":
            t2 = replace(t, exc=False)
            return [(self._advance(self.put_th(st, who, t2), who, n), None)]
        if kind == "exit":
            return self._return(st, who, K(None))
        if kind == "raise_exit":
            return self._raise_out(st, who)
        if kind == "raise":
            t2 = replace(t, exc=True).gset("exc_kind", "other" if t.g("exc_kind") in (None, "other") or True else t.g("exc_kind"))
            if t.g("exc_kind") == "injected" and isinstance(n.ast, ast.Raise) and n.ast.exc is None:
                t2 = t2.gset("exc_kind", "injected")  # bare re-raise keeps the identity
            ev = Event(who, "raise", src(n.ast)[:60], self.loc(fr))
            return [(self._goto_exc(self.put_th(st, who, t2), who, n), ev)]
        if kind == "with_exit":
            return self._with_exit(st, who, n)
        if kind == "for":
            return self._for(st, who, n)
        return self._exec(st, who, n)

    def _advance(self, st: State, who: str, n: Node) -> State:
        t = self.th(st, who)
        fr = self.top(t)
        nxt = self.succ(n, "next")
        if nxt is None:
            nxt = self.succ(n, "exc")  # finally-copy that continues an exceptional exit
        if nxt is None:
            raise AnalysisError(f"no successor at {self.loc(fr)}")
        return self.put_th(st, who, self.with_top(t, replace(fr, node=nxt.idx).set("#ret", None) if fr.get("#ret") is not None else replace(fr, node=nxt.idx)))

    def _goto_exc(self, st: State, who: str, n: Node) -> State:
        t = self.th(st, who)
        fr = self.top(t)
        nxt = self.succ(n, "exc")
        if nxt is None:
            # no handler in this function: leave the frame exceptionally
            f = self.func(fr.fq)
            nxt = self.m.cfg(f).raise_exit
        fr2 = replace(fr, node=nxt.idx)
        if fr2.get("#ret") is not None:
            fr2 = fr2.set("#ret", None)
        return self.put_th(st, who, self.with_top(replace(t, exc=True), fr2))

    # ------------------------------------------------------------------ returns / raises across frames
    def _return(self, st: State, who: str, value: Any) -> list[tuple[State, Event | None]]:
        t = self.th(st, who)
        fr = self.top(t)
        rest = t.frames[:-1]
        if fr.mode == "cm":
            raise AnalysisError(f"context manager {fr.fq} returned without yielding")
        st = self._on_call_exit(st, who, fr, value, raised=False)
        t = self.th(st, who)
        if not rest:
            t2 = replace(t, frames=(), status="done" if who == "agent" else "run")
            st2 = self.put_th(st, who, t2)
            return [(st2, Event(who, "thread-exit", fr.fq.split(":")[1], self.loc(fr)))] if who == "agent" else [(self._main_call_done(st2, raised=False), Event(who, "calibrate-returns", "", ""))]
        caller = rest[-1]
        if fr.mode == "cmresume":
            cn = self.m.cfg(self.func(caller.fq)).nodes[caller.node]
            if t.exc:
                nxt = self.succ(cn, "exc") if self.succ(cn, "next") is None else None
                if nxt is None:
                    # the generator swallowed the exception
                    raise AnalysisError(f"context manager {fr.fq} swallows exceptions; not modelled")
            nxt = self.succ(cn, "next")
            if nxt is None:
                raise AnalysisError(f"with-exit without normal successor at {self.loc(caller)}")
            return [(self.put_th(st, who, replace(t, frames=(*rest[:-1], replace(caller, node=nxt.idx)))), None)]
        argdeps = fr.get("#argdeps")
        if argdeps is not None and argdeps[1]:
            value = self.add_deps(value, argdeps[1])
        caller2 = caller.set("#ret", ("RET", value))
        return [(self.put_th(st, who, replace(t, frames=(*rest[:-1], caller2))), None)]

    def _raise_out(self, st: State, who: str) -> list[tuple[State, Event | None]]:
        t = self.th(st, who)
        fr = self.top(t)
        rest = t.frames[:-1]
        st = self._on_call_exit(st, who, fr, None, raised=True)
        t = self.th(st, who)
        if not rest:
            if who == "agent":
                t2 = replace(t, frames=(), status="raised")
                self.violations.append(("C10", f"agent-thread-dies:{fr.fq.split(':')[1]}", "the agent thread terminates with an uncaught exception", self.loc(fr)))
                return [(self.put_th(st, who, t2), Event(who, "thread-dies", fr.fq.split(":")[1], self.loc(fr)))]
            t2 = replace(t, frames=())
            return [(self._main_call_done(self.put_th(st, who, t2), raised=True), Event(who, "calibrate-raises", str(t.g("exc_kind")), ""))]
        caller = rest[-1]
        cn = self.m.cfg(self.func(caller.fq)).nodes[caller.node]
        t2 = replace(t, frames=rest, exc=True)
        st2 = self.put_th(st, who, t2)
        if fr.mode in ("cm",):
            # raised before yielding: propagates from the with statement
            return [(self._goto_exc(st2, who, cn), None)]
        return [(self._goto_exc(st2, who, cn), None)]

    def _on_call_exit(self, st: State, who: str, fr: Frame, value: Any, raised: bool) -> State:
        """Ghost bookkeeping at API boundaries (names of the BaseScheduler interface)."""
        name = fr.fq.split(".")[-1]
        if who == "main" and name == "get_next_sampler" and not raised:
            b = st.g("batch", 0)
            acts = [d for d in self.deps_of([value]) if d[0] == "ACT"]
            if len(acts) > 1:
                raise AnalysisError("get_next_sampler result depends on more than one action")
            ex = dict(st.g("executed", ()))
            ex[b] = acts[0] if acts else None
            st = st.gset("executed", tuple(sorted(ex.items())))
        return st

    # ------------------------------------------------------------------ session driver of the main thread
    def _main_call_done(self, st: State, raised: bool) -> State:
        """`calibrate(n)` returned / raised: check end-of-session obligations, then start the next call."""
        sess = st.g("session", 0)
        t = st.main
        inj = t.g("exc_kind")
        loc = f"end of calibrate() call #{sess + 1}"
        if raised and inj != "injected":
            self.violations.append(("C11", "calibrate-raises-other", f"calibrate() call #{sess + 1} raises an exception that is not the failure of model/loss/sampler "
                                    f"({'no fault was injected' if not t.g('faulted') else 'the original exception was replaced'})", loc))
        if not raised and t.g("faulted_now"):
            self.violations.append(("C11", "fault-swallowed", f"calibrate() call #{sess + 1} returns normally although model/loss/sampler raised", loc))
        for qn, content in st.queues:
            if content:
                self.violations.append(("C10", f"leftover:{qn}", f"after the session of calibrate() call #{sess + 1} ended, {qn} still holds {self.fmt_msgs(content)}", loc))
        if st.agent is not None and st.agent.status == "run":
            self.violations.append(("C11" if raised else "C10", "thread-left-running", f"after calibrate() call #{sess + 1} {'raised' if raised else 'returned'} the agent thread is still running", loc))
        if self.m.session_flag is not None:
            stopped = st.h("sched", self.m.session_flag)
            if st.g("started") and stopped != K(self.m.session_flag_idle):
                self.violations.append(("C11" if raised else "C10", "session-flag-not-reset", f"after calibrate() call #{sess + 1} the session flag `{self.m.session_flag}` is {stopped} "
                                        "(a subsequent calibrate() cannot start a session)", loc))
        # next call
        plan = st.g("plan", ())
        nxt = sess + 1
        t2 = replace(t, exc=False, cms=()).gset("exc_kind", None).gset("faulted_now", False)
        st = replace(st, main=t2).gset("session", nxt).gset("ends", (*st.g("ends", ()), (sess, raised)))
        if nxt >= len(plan):
            return replace(st, main=replace(t2, status="done"))
        return self.start_calibrate(st, plan[nxt])

    def start_calibrate(self, st: State, n_batches: int) -> State:
        cal = self.prog.func("black_it.calibrator:Calibrator.calibrate")
        g = self.m.cfg(cal)
        fr = Frame(cal.qualname, g.entry.idx, (("n_batches", K(n_batches)),), "cal", ("drop",))
        return replace(st, main=replace(st.main, frames=(fr,), status="run"))

    def fmt_msgs(self, content: tuple) -> str:
        return "[" + ", ".join("END" if m == K(None) else f"{m[0]}#{m[1]}" if isinstance(m, tuple) and m and m[0] in ("ACT", "OUT") else "-" if m is None else str(m)[:30] for m in content) + "]"

    # ------------------------------------------------------------------ for loops
    def _for(self, st: State, who: str, n: Node) -> list[tuple[State, Event | None]]:
        t = self.th(st, who)
        fr = self.top(t)
        stmt = n.stmt
        key = f"#for{n.idx}"
        cnt = fr.get(key)
        it = stmt.iter  # type: ignore[union-attr]
        total = None
        if isinstance(it, ast.Call) and dotted(it.func) == "range" and len(it.args) == 1:
            v = self.ev(it.args[0], fr, st)
            if is_const(v) and isinstance(v[1], int):
                total = v[1]
        body, after = self.succ(n, "loop"), self.succ(n, "exhaust")
        if total is None and isinstance(it, ast.Call) and (self.prog.qualify(self.func(fr.fq).module, dotted(it.func) or "") or "") == "itertools.count":
            # never exhausted: the loop is left by break / return / an exception only (no iteration counter is kept: the state space stays finite)
            fr2 = replace(fr, node=body.idx)  # type: ignore[union-attr]
            for x in ast.walk(stmt.target):  # type: ignore[union-attr]
                if isinstance(x, ast.Name):
                    fr2 = fr2.set(x.id, U)
            return [(self.put_th(st, who, self.with_top(t, fr2)), None)]
        if total is None:
            # unknown iterable: one representative iteration - only sound when the body takes no part in the protocol
            f_ = self.func(fr.fq)
            for c_ in [x for b_ in stmt.body for x in ast.walk(b_) if isinstance(x, ast.Call)]:  # type: ignore[union-attr]
                if isinstance(c_.func, ast.Attribute) and c_.func.attr in ("put", "put_nowait", "get", "get_nowait", "join", "start", "policy", "learn", "step"):
                    recv = src(c_.func.value).lower()
                    if "queue" in recv or "thread" in recv or "agent" in recv or "env" in recv:
                        raise AnalysisError(f"{self.loc(fr)}: a loop over `{src(it)[:40]}` (unknown number of iterations) contains the protocol operation `{src(c_.func)[:40]}`")
                if any(isinstance(t_, FuncInfo) and t_.qualname in self.m.relevant and t_.qualname != f_.qualname for t_ in self.prog.resolve_call(f_, c_)):
                    raise AnalysisError(f"{self.loc(fr)}: a loop over `{src(it)[:40]}` (unknown number of iterations) calls `{src(c_.func)[:40]}`, which takes part in the thread protocol")
            total = 1
        done = cnt[1] if cnt is not None else 0
        if done < total:
            fr2 = replace(fr, node=body.idx).set(key, K(done + 1))  # type: ignore[union-attr]
            for x in ast.walk(stmt.target):  # type: ignore[union-attr]
                if isinstance(x, ast.Name):
                    fr2 = fr2.set(x.id, U)
            return [(self.put_th(st, who, self.with_top(t, fr2)), None)]
        fr2 = replace(fr, node=after.idx).set(key, None)  # type: ignore[union-attr]
        return [(self.put_th(st, who, self.with_top(t, fr2)), None)]

    # ------------------------------------------------------------------ with / context managers
    def _with_exit(self, st: State, who: str, n: Node) -> list[tuple[State, Event | None]]:
        t = self.th(st, who)
        fr = self.top(t)
        tag = (fr.fq, n.stmt.lineno if n.stmt is not None else 0, len(t.frames))  # type: ignore[union-attr]
        exceptional = self.succ(n, "next") is None
        if t.cms and t.cms[-1][0] == tag:
            cm_fr: Frame = t.cms[-1][1]
            g = self.m.cfg(self.func(cm_fr.fq))
            yn = g.nodes[cm_fr.node]
            tgt = self.succ(yn, "exc") if exceptional else self.succ(yn, "next")
            if tgt is None:
                tgt = g.raise_exit if exceptional else None
            if tgt is None:
                raise AnalysisError(f"cannot resume context manager {cm_fr.fq}")
            resumed = replace(cm_fr, node=tgt.idx, mode="cmresume")
            t2 = replace(t, cms=t.cms[:-1], frames=(*t.frames, resumed), exc=exceptional)
            return [(self.put_th(st, who, t2), Event(who, "with-exit", "exceptional" if exceptional else "normal", self.loc(fr)))]
        # contextlib.suppress(<types>) around an exception the machine itself raised (queue.Empty): the exception ends here, what was pending before it
        # (an exception being propagated through a finally) is pending again
        if exceptional and t.exc and t.g("exc_name") == "Empty" and isinstance(n.stmt, ast.With):
            sup = [it.context_expr for it in n.stmt.items if isinstance(it.context_expr, ast.Call) and (dotted(it.context_expr.func) or "").split(".")[-1] == "suppress"]
            names = {(dotted(a) or "").split(".")[-1] for c_ in sup for a in c_.args}
            if names & {"Empty", "Exception", "BaseException"}:
                g_ = self.m.cfg(self.func(fr.fq))
                # (the normal exit of `with suppress(..): while True: ...` is not reachable otherwise, hence not among the live nodes)
                normal = [x for x in g_.nodes if x.kind == "with_exit" and x.stmt is n.stmt and self.succ(x, "next") is not None and self.succ(x, "next").kind not in ("exit",)] \
                    or [x for x in g_.nodes if x.kind == "with_exit" and x.stmt is n.stmt and self.succ(x, "next") is not None]
                target = self.succ(normal[0], "next") if normal else None
                if target is None:
                    # the builder drops the edges of the unreachable normal exit: the continuation is read off the statement list
                    body = self.func(fr.fq).node.body
                    if any(x is n.stmt for x in body):
                        k_ = next(i for i, x in enumerate(body) if x is n.stmt)
                        if k_ == len(body) - 1:
                            target = g_.exit
                        else:
                            nn_ = g_.nodes_of(body[k_ + 1])
                            target = nn_[0] if nn_ else None
                if target is None:
                    raise AnalysisError(f"{self.loc(fr)}: cannot find where control continues after the suppressing `with`")
                was_exc, was_kind = t.g("outer_exc") or (False, None)
                t2 = replace(t, exc=bool(was_exc)).gset("exc_kind", was_kind).gset("exc_name", None).gset("outer_exc", None)
                t2 = self.with_top(t2, replace(fr, node=target.idx))
                return [(self.put_th(st, who, t2), Event(who, "suppressed", "queue.Empty", self.loc(fr)))]
        # opaque context manager
        nxt = self.succ(n, "next") or self.succ(n, "exc")
        return [(self.put_th(st, who, self.with_top(t, replace(fr, node=nxt.idx))), None)]  # type: ignore[union-attr]

    # ------------------------------------------------------------------ statements with possible calls
    def _exec(self, st: State, who: str, n: Node) -> list[tuple[State, Event | None]]:
        t = self.th(st, who)
        fr = self.top(t)
        a = n.ast
        call = self.principal(n)
        ret = fr.get("#ret")
        event: Event | None = None
        value: Any = None
        have_value = False
        # suspended generator: `yield` inside a context-manager frame
        if fr.mode in ("cm",) and isinstance(a, ast.Expr) and isinstance(a.value, ast.Yield):
            caller = t.frames[-2]
            cn = self.m.cfg(self.func(caller.fq)).nodes[caller.node]
            tag = (caller.fq, cn.stmt.lineno if cn.stmt is not None else 0, len(t.frames) - 1)  # type: ignore[union-attr]
            nxt = self.succ(cn, "next")
            t2 = replace(t, frames=(*t.frames[:-2], replace(caller, node=nxt.idx)), cms=(*t.cms, (tag, fr)))  # type: ignore[union-attr]
            return [(self.put_th(st, who, t2), Event(who, "with-enter", fr.fq.split(":")[1], self.loc(fr)))]
        if ret is not None:
            value, have_value = ret[1], True
            fr = fr.set("#ret", None)
            t = self.with_top(t, fr)
            st = self.put_th(st, who, t)
        elif call is not None:
            c = self.classify(call, fr, st)
            if n.kind == "with" and (dotted(call.func) or "").split(".")[-1] in ("ExitStack", "AsyncExitStack"):
                raise AnalysisError(f"{self.loc(fr)}: an ExitStack whose callbacks the front end could not read as try/finally; what runs when the block is left is not modelled")
            if n.kind == "with" and c[0] != "inline" and any(isinstance(t_, FuncInfo) for t_ in self.prog.resolve_call(self.func(fr.fq), call)):
                raise AnalysisError(f"{self.loc(fr)}: the context manager of this `with` is repository code that is not a generator-based manager; its enter/exit effects are not modelled")
            if c[0] == "inline":
                callee: FuncInfo = c[1]
                g = self.m.cfg(callee)
                env = {}
                params = callee.bound_params if callee.cls is not None and not callee.is_static else callee.params
                pos = 0
                for arg in call.args:
                    if isinstance(arg, ast.Starred):
                        # `f(*msg)`: a tuple value is spread over the next parameters; anything else gives each of them an unknown that depends on it
                        v_ = self.ev(arg.value, fr, st)
                        if isinstance(v_, tuple) and v_ and v_[0] == "T":
                            for el in v_[1]:
                                if pos < len(params):
                                    env[params[pos]] = el
                                pos += 1
                        else:
                            d__ = self.deps_of([v_])
                            while pos < len(params):
                                env[params[pos]] = ("U", d__)
                                pos += 1
                        continue
                    if pos < len(params):
                        env[params[pos]] = self.ev(arg, fr, st)
                    pos += 1
                for kw in call.keywords:
                    if kw.arg:
                        env[kw.arg] = self.ev(kw.value, fr, st)
                mode = "cm" if n.kind == "with" and "contextmanager" in callee.decorators else "call"
                if n.kind == "with" and mode != "cm":
                    raise AnalysisError(f"{self.loc(fr)}: `with {callee.qualname.split(':')[1]}()` is not a generator-based context manager (and could not be read as one); its enter/exit effects are not modelled")
                env["#argdeps"] = ("U", self.deps_of(list(env.values())))
                new = Frame(callee.qualname, g.entry.idx, tuple(sorted(env.items())), c[2], ("stmt",), mode)
                st2 = st
                if who == "main" and callee.name == "get_next_sampler":
                    st2 = st2.gset("batch", st.g("batch", 0) + 1)
                t2 = replace(self.th(st2, who), frames=(*t.frames, new))
                return [(self.put_th(st2, who, t2), Event(who, "call", callee.qualname.split(":")[1], self.loc(fr)))]
            if c[0] == "queue":
                return self._queue_op(st, who, n, call, c)
            if c[0] == "thread":
                return self._thread_op(st, who, n, call, c)
            if c[0] == "thread-unset":
                self.violations.append(("C11", f"thread-op-on-unset:{c[1]}", f"`{src(call)[:60]}` is executed while no agent thread object is set", self.loc(fr)))
                return [(self._goto_exc(self.put_th(st, who, replace(t, exc=True).gset("exc_kind", "other")), who, n), Event(who, "raise", "AttributeError", self.loc(fr)))]
            if c[0] == "mkthread":
                tgt = next((k.value for k in call.keywords if k.arg == "target"), None)
                if tgt is None or not isinstance(tgt, ast.Attribute):
                    raise AnalysisError(f"{self.loc(fr)}: Thread target is not a bound method")
                o = self.ev(tgt.value, fr, st)
                cls = self.m.obj_class.get(o[1]) if isinstance(o, tuple) and o[0] == "OBJ" else None
                m = self.prog.lookup_method(cls, tgt.attr) if cls is not None else None
                if m is None:
                    raise AnalysisError(f"{self.loc(fr)}: cannot resolve the thread entry point")
                value, have_value = ("THREAD", m.qualname, o[1]), True
            elif c[0] == "agent":
                return self._agent_event(st, who, n, call, c[1])
            elif c[0] == "user":
                outs: list[tuple[State, Event | None]] = []
                ok_state = self._finish_stmt(st, who, n, ("U", frozenset()), True)
                outs.extend(ok_state)
                if self.faults and st.g("faults", 0) < self.max_faults:
                    t2 = replace(t, exc=True).gset("exc_kind", "injected").gset("faulted", True).gset("faulted_now", True)
                    st2 = self.put_th(st, who, t2).gset("faults", st.g("faults", 0) + 1).gset("fault_at", (st.g("session", 0), st.g("batch", 0), c[1]))
                    outs.append((self._goto_exc(st2, who, n), Event(who, "FAULT", f"{c[1]} raises in batch {st.g('batch', 0)}", self.loc(fr))))
                return outs
            else:
                value, have_value = self.ev(call, fr, st), True
        # shared-field accesses are visible operations (recorded for the race check by the explorer)
        return self._finish_stmt(st, who, n, value if have_value else None, have_value)

    def _finish_stmt(self, st: State, who: str, n: Node, value: Any, have_value: bool) -> list[tuple[State, Event | None]]:
        t = self.th(st, who)
        fr = self.top(t)
        a = n.ast
        ev_out: Event | None = None
        r, w = self.shared_accesses(n, fr, st)
        if r or w:
            ev_out = Event(who, "shared", f"reads {sorted(r)} writes {sorted(w)}", self.loc(fr))
        if n.kind == "return":
            v = value if have_value else self.ev(a.value, fr, st)  # type: ignore[union-attr]
            outs = self._return(st, who, v)
            return [(s2, e2 or ev_out) for s2, e2 in outs]
        if n.kind == "test":
            v = value if have_value else self.ev(a, fr, st)  # type: ignore[arg-type]
            tv = self.truth(v)
            outs = []
            for lab, want in (("true", True), ("false", False)):
                if tv is None or tv is want:
                    tgt = self.succ(n, lab)
                    if tgt is not None and tv is None and self._guard_clause_raise(tgt) and self.succ(n, "false" if lab == "true" else "true") is not None:
                        # `if <something this model does not track>: raise ...` is input validation, not part of the protocol: the defensive branch is not explored
                        # (a raise behind a condition the model *can* evaluate is followed as usual)
                        continue
                    if tgt is not None:
                        st_b = st
                        if tv is None and who == "main" and self._in_cal_frame(t) and n.idx in self._exit_controlling_tests(t.frames[-1].fq):
                            # a data-dependent decision of the calibration loop itself (e.g. early stopping): two runs that decide differently are different
                            # *inputs*, not different schedules - the decision becomes part of what schedule-independence is compared under
                            st_b = st.gset("choices", (*st.g("choices", ()), (n.lineno, lab)))
                        outs.append((self.put_th(st_b, who, self.with_top(t, replace(fr, node=tgt.idx))), ev_out))
            return outs
        if n.kind == "with":
            return [(self._advance(st, who, n), ev_out)]
        # plain statements
        if isinstance(a, (ast.Assign, ast.AnnAssign)):
            v = value if have_value else (self.ev(a.value, fr, st) if a.value is not None else None)
            if v is not None:
                targets = a.targets if isinstance(a, ast.Assign) else [a.target]
                for tg in targets:
                    st, fr = self._bind(st, who, fr, tg, v)
                t = self.with_top(self.th(st, who), fr)
                st = self.put_th(st, who, t)
        elif isinstance(a, ast.AugAssign):
            st, fr = self._bind(st, who, fr, a.target, U)
            st = self.put_th(st, who, self.with_top(self.th(st, who), fr))
        return [(self._advance(st, who, n), ev_out)]

    def _bind(self, st: State, who: str, fr: Frame, tg: ast.expr, v: Any) -> tuple[State, Frame]:
        if isinstance(tg, ast.Name):
            return st, fr.set(tg.id, v)
        if isinstance(tg, (ast.Tuple, ast.List)):
            if isinstance(v, tuple) and v and v[0] == "OUT" and len(v) > 2 and isinstance(v[2], tuple) and v[2] and v[2][0] == "T" and len(v[2][1]) == len(tg.elts):
                tok = frozenset({("OUT", v[1])})
                for sub, item in zip(tg.elts, v[2][1]):
                    nn_ = self.is_none(item) is False
                    st, fr = self._bind(st, who, fr, sub, ("NN" if nn_ else "U", tok | self.deps_of([item])))
                return st, fr
            if isinstance(v, tuple) and v and v[0] == "T" and len(v[1]) == len(tg.elts):
                for sub, item in zip(tg.elts, v[1]):
                    st, fr = self._bind(st, who, fr, sub, item)
            else:
                dep = ("U", self.deps_of([v]))
                for sub in tg.elts:
                    st, fr = self._bind(st, who, fr, sub, dep)
            return st, fr
        if isinstance(tg, ast.Attribute):
            base = self.ev(tg.value, fr, st)
            if isinstance(base, tuple) and base[0] == "OBJ":
                keep = v if (is_const(v) or (isinstance(v, tuple) and v and v[0] in ("THREAD",))) else (NN if self.is_none(v) is False else U)
                if (base[1], tg.attr) not in self.shared_fields and not is_const(v) and not (isinstance(v, tuple) and v and v[0] == "THREAD"):
                    return st, fr  # untracked attribute: leave it unknown (keeps the state space small)
                return st.hset(base[1], tg.attr, keep), fr
        return st, fr

    # ------------------------------------------------------------------ visible operations
    def _queue_op(self, st: State, who: str, n: Node, call: ast.Call, c: tuple) -> list[tuple[State, Event | None]]:
        t = self.th(st, who)
        fr = self.top(t)
        qn, op = c[1], c[2]
        content = st.q(qn)
        loc = self.loc(fr)
        if op in ("put", "put_nowait"):
            v = self.ev(call.args[0], fr, st) if call.args else U
            if who == "main" and self.is_none(v) is False and not (isinstance(v, tuple) and v and v[0] == "ACT"):
                v = ("OUT", st.g("batch", 0), v)
            elif self.is_none(v) is None:
                raise AnalysisError(f"{loc}: cannot classify the message `{src(call.args[0]) if call.args else ''}` (None or not None?)")
            st2 = st.qset(qn, (*content, v))
            outs = self._finish_stmt(st2, who, n, K(None), True)
            return [(s, Event(who, "put", f"{qn} <- {self.fmt_msgs((v,))}", loc)) for s, _ in outs]
        if op == "get_timeout" and not content:
            t2 = replace(t, exc=True).gset("outer_exc", (t.exc, t.g("exc_kind"))).gset("exc_name", "Empty").gset("exc_kind", "other")
            return [(self._goto_exc(self.put_th(st, who, t2), who, n), Event(who, "raise", f"queue.Empty: timed get on {qn} gave up (nothing arrived in time)", loc))]
        if op in ("get", "get_timeout"):
            if not content:
                return []  # blocked
            msg, rest = content[0], content[1:]
            st2 = st.qset(qn, rest)
            if who == "agent":
                st2 = self.put_th(st2, who, self.th(st2, who).gset("last_msg", msg[:2] if isinstance(msg, tuple) and msg and msg[0] == "OUT" else msg).gset("last_msg_used", False))
            outs = self._finish_stmt(st2, who, n, msg, True)
            return [(s, Event(who, "get", f"{qn} -> {self.fmt_msgs((msg,))}", loc)) for s, _ in outs]
        if op == "get_nowait":
            if not content:
                t2 = replace(t, exc=True).gset("outer_exc", (t.exc, t.g("exc_kind"))).gset("exc_name", "Empty").gset("exc_kind", "other")
                return [(self._goto_exc(self.put_th(st, who, t2), who, n), Event(who, "raise", f"queue.Empty from get_nowait on {qn}", loc))]
            msg, rest = content[0], content[1:]
            outs = self._finish_stmt(st.qset(qn, rest), who, n, msg, True)
            return [(s, Event(who, "get_nowait", f"{qn} -> {self.fmt_msgs((msg,))}", loc)) for s, _ in outs]
        if op == "empty":
            outs = self._finish_stmt(st, who, n, K(not content), True)
            return [(s, Event(who, "empty?", f"{qn}: {not content}", loc)) for s, _ in outs]
        raise AnalysisError(f"{loc}: queue operation {op} not modelled")

    def _thread_op(self, st: State, who: str, n: Node, call: ast.Call, c: tuple) -> list[tuple[State, Event | None]]:
        t = self.th(st, who)
        fr = self.top(t)
        op, thr = c[1], c[2]
        loc = self.loc(fr)
        if op == "start":
            if st.agent is not None and st.agent.status == "run":
                self.violations.append(("C10", "second-agent-thread", "a second agent thread is started while the previous one is still running", loc))
            entry = self.prog.func(thr[1])
            g = self.m.cfg(entry)
            afr = Frame(entry.qualname, g.entry.idx, (), thr[2], ("drop",))
            st2 = replace(st, agent=Thread(frames=(afr,))).gset("started", True)
            outs = self._finish_stmt(st2, who, n, K(None), True)
            return [(s, Event(who, "start", entry.qualname.split(":")[1], loc)) for s, _ in outs]
        if op == "join":
            if st.agent is not None and st.agent.status == "run":
                return []  # blocked
            outs = self._finish_stmt(st, who, n, K(None), True)
            return [(s, Event(who, "join", "", loc)) for s, _ in outs]
        outs = self._finish_stmt(st, who, n, U, True)
        return [(s, None) for s, _ in outs]

    def _agent_event(self, st: State, who: str, n: Node, call: ast.Call, name: str) -> list[tuple[State, Event | None]]:
        t = self.th(st, who)
        fr = self.top(t)
        loc = self.loc(fr)
        if name == "policy":
            k = st.g("policies", 0) + 1
            tok = ("ACT", k)
            learned = st.g("learn_log", ())
            st2 = st.gset("policies", k).gset("policy_hist", (*st.g("policy_hist", ()), (k, learned)))
            outs = self._finish_stmt(st2, who, n, tok, True)
            return [(s, Event(who, "policy", f"-> ACT#{k}", loc)) for s, _ in outs]
        # learn(state, action, reward, next_state)
        args = [self.ev(a, fr, st) for a in call.args]
        kws = {k.arg: self.ev(k.value, fr, st) for k in call.keywords if k.arg}
        action = kws.get("action", args[1] if len(args) > 1 else U)
        reward = kws.get("reward", args[2] if len(args) > 2 else U)
        last = t.g("last_msg")
        used = t.g("last_msg_used")
        executed = dict(st.g("executed", ()))
        desc = f"learn(action={self.fmt_msgs((action,))}, reward from {sorted(self.deps_of([reward])) or 'a constant'})"
        if not (isinstance(action, tuple) and action and action[0] == "ACT"):
            self.violations.append(("C10", "learn-unknown-action", f"{desc}: the learned action is not an action this agent chose", loc))
        elif last is None or last == K(None):
            self.violations.append(("C10", "learn-after-end", f"{desc}: the agent learns after receiving the end-of-session marker - for an action that was never executed", loc))
        elif used:
            self.violations.append(("C10", "learn-twice-on-one-outcome", f"{desc}: the same batch outcome is used for a second learn()", loc))
        elif isinstance(last, tuple) and last[0] == "OUT":
            j = last[1]
            last = ("OUT", j)
            if executed.get(j) != action:
                self.violations.append(("C10", "reward-misattributed", f"{desc}: the outcome of batch {j} (run with {self.fmt_msgs((executed.get(j),)) if executed.get(j) else 'the bootstrap sampler'}) is "
                                        f"credited to {self.fmt_msgs((action,))}", loc))
            elif last not in self.deps_of([reward]):
                self.violations.append(("C10", "reward-not-from-outcome", f"{desc}: the reward does not derive from the outcome of batch {j}", loc))
            if action in st.g("learned", ()):
                self.violations.append(("C10", "action-learned-twice", f"{desc}: action learned more than once", loc))
        else:
            self.violations.append(("C10", "learn-on-foreign-message", f"{desc}: learn() after receiving {self.fmt_msgs((last,))}", loc))
        st2 = st.gset("learned", (*st.g("learned", ()), action)).gset("learn_log", (*st.g("learn_log", ()), (action, last[:2] if isinstance(last, tuple) else last)))
        st2 = self.put_th(st2, who, self.th(st2, who).gset("last_msg_used", True))
        outs = self._finish_stmt(st2, who, n, K(None), True)
        return [(s, Event(who, "learn", desc, loc)) for s, _ in outs]


# =============================================================================================== product exploration
@dataclass
class Result:
    states: int = 0
    transitions: int = 0
    terminal: int = 0
    violations: dict = field(default_factory=dict)  # key -> (prop, message, trace)
    plans: list = field(default_factory=list)
    schedules: dict = field(default_factory=dict)
    sample_traces: list = field(default_factory=list)


def initial_state(stepper: Stepper, plan: tuple[int, ...], configured: dict | None = None) -> State:
    # constants the constructors give to the scheduler / environment attributes, and the configuration of the calibrator explored
    # (public Calibrator attributes: quiet, no convergence check, no checkpoint folder)
    heap = dict(stepper.m.init_heap)
    heap.update({("cal", "verbose"): K(False), ("cal", "convergence_precision"): K(None), ("cal", "saving_folder"): K(None)})
    heap.update(configured or {})
    st = State(main=Thread(), agent=None, queues=tuple((q, ()) for q in sorted(set(stepper.m.queue_of.values()))), heap=tuple(sorted(heap.items())), ghost=(("plan", plan),))
    return stepper.start_calibrate(st, plan[0])


def explore(prog: Program, plans: list[tuple[int, ...]], faults: bool, max_states: int = 400000) -> Result:
    model = SyncModel(prog)
    res = Result(plans=plans)
    init_checks(model)
    for plan in plans:
        stepper = Stepper(model, faults=faults)
        st0 = initial_state(stepper, plan)
        seen = {st0: (None, None)}
        work = [st0]
        while work:
            st = work.pop()
            res.states += 1
            if res.states > max_states:
                raise AnalysisError(f"state budget exceeded ({max_states}) while exploring plan {plan}")
            threads = ["main"] + (["agent"] if st.agent is not None else [])
            running = [w for w in threads if stepper.th(st, w).status == "run"]
            if not running or (st.main.status == "done" and (st.agent is None or st.agent.status != "run")):
                res.terminal += 1
                _terminal_checks(stepper, st, res, seen, plan)
                if st.main.status == "done" and st.agent is not None and st.agent.status == "run":
                    pass
                else:
                    continue
            # race candidates: both threads about to access the same shared field, at least one writing
            vis = {w: stepper.next_visible(st, w) for w in running}
            if len(running) == 2 and all(v is not None and v[0] == "shared" for v in vis.values()):
                (_, r1, w1), (_, r2, w2) = vis["main"], vis["agent"]
                conflict = (w1 & (r2 | w2)) | (w2 & (r1 | w1))
                for fld in sorted(conflict):
                    key = f"race:{fld[0]}.{fld[1]}"
                    if key not in res.violations:
                        res.violations[key] = ("C10", f"unsynchronised access to {fld[0]}.{fld[1]}: the calibration thread and the agent thread can reach "
                                               f"`{stepper.loc(stepper.top(st.main))}` and `{stepper.loc(stepper.top(st.agent))}` at the same time (one of them writes): "
                                               "what the agent does next depends on thread timing", _trace(seen, st), plan)
            progressed = False
            for w in running:
                if not stepper.enabled(st, w):
                    continue
                before = len(stepper.violations)
                succs = stepper.step(st, w)
                for prop, key, msg, loc in stepper.violations[before:]:
                    if key not in res.violations:
                        res.violations[key] = (prop, f"{msg} [at {loc}]", _trace(seen, st), plan)
                if succs:
                    progressed = True
                for st2, ev in succs:
                    res.transitions += 1
                    if st2 not in seen:
                        seen[st2] = (st, ev)
                        work.append(st2)
            if not progressed and running and not (st.main.status == "done" and (st.agent is None or st.agent.status != "run")):
                blocked = {w: stepper.next_visible(st, w) for w in running}
                key = "deadlock:" + "|".join(f"{w}:{(v[0] + ':' + str(v[1]) + (':' + str(v[2]) if len(v) > 2 and v[0] == 'queue' else '')) if v else '?'}" for w, v in sorted(blocked.items()))
                if key not in res.violations:
                    where = "; ".join(f"{w} blocked at {stepper.loc(stepper.top(stepper.th(st, w)))}" for w in running)
                    res.violations[key] = ("C10", f"deadlock: {where}; queues {[(q, stepper.fmt_msgs(c)) for q, c in st.queues]}", _trace(seen, st), plan)
        # schedule independence over all terminal states of this plan
    return res


def init_checks(model: SyncModel) -> None:
    pass


def _trace(seen: dict, st: State, limit: int = 60) -> list[str]:
    out = []
    cur = st
    while cur is not None and seen.get(cur, (None, None))[0] is not None:
        prev, ev = seen[cur]
        if ev is not None and ev.kind not in ("call",):
            out.append(f"{ev.who}: {ev.kind} {ev.detail} @ {ev.loc}")
        cur = prev
    out.reverse()
    return out[-limit:]


def _terminal_checks(stepper: Stepper, st: State, res: Result, seen: dict, plan: tuple) -> None:
    executed = st.g("executed", ())
    hist = st.g("policy_hist", ())
    sig = (executed, hist)
    fault = st.g("fault_at")
    key = (plan, fault, st.g("choices", ()))
    if key not in res.schedules:
        res.schedules[key] = (sig, st)
    elif res.schedules[key][0] != sig:
        k = f"schedule-dependence:{plan}:{fault}"
        if k not in res.violations:
            a = res.schedules[key][0]
            res.violations[k] = ("C10", f"the samplers chosen depend on thread timing: with the same plan {plan}{' and fault ' + str(fault) if fault else ''} two interleavings give batch->action "
                                 f"{dict(a[0])} vs {dict(executed)} / learn histories before each policy call {[(k_, len(l_)) for k_, l_ in a[1]]} vs {[(k_, len(l_)) for k_, l_ in hist]}",
                                 _trace(seen, st), plan)
    # only the very first batch of a calibration is a bootstrap batch: every later one runs the agent's choice
    if not fault:
        for b, act in executed:
            if b >= 2 and act is None:
                k = "later-batch-not-agent-chosen"
                if k not in res.violations:
                    res.violations[k] = ("C09", f"batch {b} (calibrate() calls of {plan} batches) is not run by the sampler the agent chose: the bootstrap branch is taken again after the first batch "
                                         "of the calibration (e.g. at the start of a later session)", _trace(seen, st), plan)
    # every completed batch that the agent chose has been learned exactly once
    if not fault:
        learned = list(st.g("learned", ()))
        for b, act in executed:
            if act is not None:
                c = learned.count(act)
                if c != 1 and b != st.g("batch", 0) + 10**9:
                    k = f"learn-count:{c}"
                    if k not in res.violations:
                        res.violations[k] = ("C10", f"batch {b} ran the sampler chosen by {stepper.fmt_msgs((act,))} but that action was learned {c} times (expected exactly once)", _trace(seen, st), plan)
    if len(res.sample_traces) < 2:
        res.sample_traces.append(_trace(seen, st, 40))
