"""Source provider and parsed-program container.

`load_program()` parses every `black_it/**/*.py` of /repo's *current working tree* on every run.
An overlay `{relative path: source text}` replaces individual files in memory (self-test variants),
so no scratch copy of the repository is ever written to disk.
"""
from __future__ import annotations

import ast
import hashlib
import os
from pathlib import Path

from .errors import AnalysisError

REPO = Path(os.environ.get("VERIF_REPO", "/repo"))
PKG = "black_it"


class Module:
    """One parsed module."""

    def __init__(self, name: str, relpath: str, source: str) -> None:
        self.name = name
        self.relpath = relpath
        self.source = source
        try:
            self.tree = ast.parse(source, filename=relpath)
        except SyntaxError as exc:  # pragma: no cover - reported as analysis error
            raise AnalysisError(f"cannot parse {relpath}: {exc}") from exc
        self.tree = _Canon().visit(self.tree)
        ast.fix_missing_locations(self.tree)
        self.digest = hashlib.sha256(source.encode()).hexdigest()[:16]
        # parent links + owning module for every node
        for node in ast.walk(self.tree):
            for child in ast.iter_child_nodes(node):
                child._parent = node  # type: ignore[attr-defined]
        self.tree._parent = None  # type: ignore[attr-defined]

    def __repr__(self) -> str:
        return f"<Module {self.name}>"


def _simple_ref(e: ast.expr) -> bool:
    if isinstance(e, (ast.Name, ast.Constant)):
        return True
    return isinstance(e, ast.Attribute) and _simple_ref(e.value)


class _Canon(ast.NodeTransformer):
    """Canonical forms that carry no meaning for the rules: `x: T = v` on a plain local is read as `x = v`;
    a statement whose value is a conditional expression (`return a if c else b`, `x = a if c else b`, `return t[a if c else b]`)
    is read as the if/else statement it abbreviates."""

    def _split_ifexp(self, node: ast.stmt):
        v = getattr(node, "value", None)
        cond = None
        if isinstance(v, ast.IfExp):
            cond = v
            mk = lambda e: e  # noqa: E731
        elif isinstance(v, ast.Subscript) and isinstance(v.slice, ast.IfExp) and _simple_ref(v.value):
            cond = v.slice
            mk = lambda e: ast.copy_location(ast.Subscript(value=v.value, slice=e, ctx=v.ctx), v)  # noqa: E731
        if cond is None:
            return node
        import copy
        a, b = copy.copy(node), copy.copy(node)
        a.value, b.value = mk(cond.body), mk(cond.orelse)
        new = ast.If(test=cond.test, body=[self._split_ifexp(a)], orelse=[self._split_ifexp(b)])
        return ast.copy_location(new, node)

    # -- walrus: `if (x := e) is not None and f(x):` is read as `x = e` followed by `if x is not None and f(x):` - possible whenever the named
    #    expression is the first thing the statement evaluates (the binding then happens exactly where the assignment statement would put it)
    @staticmethod
    def _leftmost_walrus(e: ast.AST):
        """(parent, field, index) of a NamedExpr sitting in the first-evaluated position of expression `e`, else None."""
        parent, fld, idx, cur = None, None, None, e
        for _ in range(12):
            if isinstance(cur, ast.NamedExpr):
                return parent, fld, idx
            if isinstance(cur, ast.BoolOp):
                parent, fld, idx, cur = cur, "values", 0, cur.values[0]
            elif isinstance(cur, ast.Compare):
                parent, fld, idx, cur = cur, "left", None, cur.left
            elif isinstance(cur, ast.BinOp):
                parent, fld, idx, cur = cur, "left", None, cur.left
            elif isinstance(cur, ast.UnaryOp):
                parent, fld, idx, cur = cur, "operand", None, cur.operand
            elif isinstance(cur, (ast.Subscript, ast.Attribute, ast.Starred)):
                parent, fld, idx, cur = cur, "value", None, cur.value
            elif isinstance(cur, ast.IfExp):
                parent, fld, idx, cur = cur, "test", None, cur.test
            elif isinstance(cur, ast.Call) and _simple_ref(cur.func) and cur.args and not isinstance(cur.args[0], ast.Starred):
                parent, fld, idx, cur = cur, "args", 0, cur.args[0]
            elif isinstance(cur, ast.Call) and not _simple_ref(cur.func):
                parent, fld, idx, cur = cur, "func", None, cur.func
            elif isinstance(cur, (ast.Tuple, ast.List)) and cur.elts:
                parent, fld, idx, cur = cur, "elts", 0, cur.elts[0]
            else:
                return None
        return None

    def _hoist_walrus(self, node: ast.stmt, field_name: str) -> list[ast.stmt]:
        pre: list[ast.stmt] = []
        for _ in range(4):
            e = getattr(node, field_name, None)
            if e is None:
                break
            if isinstance(e, ast.NamedExpr):
                hit = (node, field_name, None)
            else:
                hit = self._leftmost_walrus(e)
            if hit is None:
                break
            parent, fld, idx = hit
            w = getattr(parent, fld) if idx is None else getattr(parent, fld)[idx]
            if not isinstance(w, ast.NamedExpr) or not isinstance(w.target, ast.Name):
                break
            pre.append(ast.copy_location(ast.Assign(targets=[ast.Name(id=w.target.id, ctx=ast.Store())], value=w.value, type_comment=None), node))
            ref = ast.copy_location(ast.Name(id=w.target.id, ctx=ast.Load()), w)
            if idx is None:
                setattr(parent, fld, ref)
            else:
                getattr(parent, fld)[idx] = ref
        for p_ in pre:
            ast.fix_missing_locations(p_)
        return pre

    # -- match over literals: `match x: case None: A; case 1 | 2: B; case _: C` is the if/elif/else chain on `x is None`, `x in (1, 2)`
    _match_uid = 0

    @classmethod
    def _pattern_test(cls, subject: ast.expr, p: ast.pattern):
        """The boolean expression a literal pattern abbreviates; True for the wildcard; None when the pattern binds or destructures."""
        import copy
        if isinstance(p, ast.MatchSingleton):
            return ast.Compare(left=copy.deepcopy(subject), ops=[ast.Is()], comparators=[ast.Constant(value=p.value)])
        if isinstance(p, ast.MatchValue) and (isinstance(p.value, ast.Constant) or _simple_ref(p.value)
                                               or (isinstance(p.value, ast.UnaryOp) and isinstance(p.value.operand, ast.Constant))):
            return ast.Compare(left=copy.deepcopy(subject), ops=[ast.Eq()], comparators=[p.value])
        if isinstance(p, ast.MatchAs) and p.pattern is None and p.name is None:
            return True
        if isinstance(p, ast.MatchOr):
            parts = [cls._pattern_test(subject, q) for q in p.patterns]
            if any(t is None for t in parts):
                return None
            if any(t is True for t in parts):
                return True
            return ast.BoolOp(op=ast.Or(), values=parts)
        return None

    def visit_Match(self, node: ast.Match):  # noqa: N802
        self.generic_visit(node)
        pre: list[ast.stmt] = []
        subject = node.subject
        if not isinstance(subject, ast.Name):
            _Canon._match_uid += 1
            tmp = f"match__subject{_Canon._match_uid}"
            pre.append(ast.copy_location(ast.Assign(targets=[ast.Name(id=tmp, ctx=ast.Store())], value=subject), node))
            subject = ast.copy_location(ast.Name(id=tmp, ctx=ast.Load()), node.subject)
        tests = [self._pattern_test(subject, c.pattern) for c in node.cases]
        if any(t is None for t in tests):
            return node
        chain: list[ast.stmt] = []          # what runs when no case matched so far
        for c, t in reversed(list(zip(node.cases, tests))):
            if t is True and c.guard is None:
                chain = list(c.body)
                continue
            test = c.guard if t is True else (t if c.guard is None else ast.BoolOp(op=ast.And(), values=[t, c.guard]))
            chain = [ast.copy_location(ast.If(test=test, body=list(c.body), orelse=chain), c.body[0])]
        out = [*pre, *chain] or [ast.copy_location(ast.Pass(), node)]
        for x in out:
            ast.fix_missing_locations(x)
        return out

    # -- numpy / operator comparison functions are the comparison operators; bool(<comparison>) is the comparison
    _CMP_FUNCS = {"less": ast.Lt, "greater": ast.Gt, "less_equal": ast.LtE, "greater_equal": ast.GtE, "equal": ast.Eq, "not_equal": ast.NotEq,
                  "lt": ast.Lt, "gt": ast.Gt, "le": ast.LtE, "ge": ast.GtE, "eq": ast.Eq, "ne": ast.NotEq}

    def visit_Call(self, node: ast.Call):  # noqa: N802
        self.generic_visit(node)
        f = node.func
        # f(a, *(b, c)) is f(a, b, c); f(**{"k": v}) is f(k=v)
        if any(isinstance(a, ast.Starred) and isinstance(a.value, (ast.Tuple, ast.List)) and not any(isinstance(x, ast.Starred) for x in a.value.elts) for a in node.args):
            new_args: list[ast.expr] = []
            for a in node.args:
                if isinstance(a, ast.Starred) and isinstance(a.value, (ast.Tuple, ast.List)) and not any(isinstance(x, ast.Starred) for x in a.value.elts):
                    new_args.extend(a.value.elts)
                else:
                    new_args.append(a)
            node.args = new_args
        if any(k.arg is None and isinstance(k.value, ast.Dict) and all(isinstance(x, ast.Constant) and isinstance(x.value, str) and x.value.isidentifier() for x in k.value.keys) for k in node.keywords):
            new_kw: list[ast.keyword] = []
            for k in node.keywords:
                if k.arg is None and isinstance(k.value, ast.Dict) and all(isinstance(x, ast.Constant) and isinstance(x.value, str) and x.value.isidentifier() for x in k.value.keys):
                    new_kw.extend(ast.keyword(arg=x.value, value=v) for x, v in zip(k.value.keys, k.value.values))
                else:
                    new_kw.append(k)
            node.keywords = new_kw
        if isinstance(f, ast.Attribute) and isinstance(f.value, ast.Name) and not node.keywords and len(node.args) == 2 and not any(isinstance(a, ast.Starred) for a in node.args):
            if (f.value.id in ("np", "numpy") and f.attr in ("less", "greater", "less_equal", "greater_equal", "equal", "not_equal")) or \
                    (f.value.id == "operator" and f.attr in ("lt", "gt", "le", "ge", "eq", "ne")):
                return ast.copy_location(ast.Compare(left=node.args[0], ops=[self._CMP_FUNCS[f.attr]()], comparators=[node.args[1]]), node)
        if isinstance(f, ast.Name) and f.id == "bool" and len(node.args) == 1 and not node.keywords and isinstance(node.args[0], ast.Compare):
            return node.args[0]
        # np.take(a, idx, axis=0) is a[idx]; np.take(a, idx, axis=1) is a[:, idx] (arrays)
        if isinstance(f, ast.Attribute) and isinstance(f.value, ast.Name) and f.value.id in ("np", "numpy") and f.attr == "take" and len(node.args) in (2, 3) \
                and not any(isinstance(a, ast.Starred) for a in node.args) and all(k.arg == "axis" for k in node.keywords):
            ax = node.args[2] if len(node.args) == 3 else (node.keywords[0].value if node.keywords else None)
            if isinstance(ax, ast.Constant) and ax.value == 0:
                return ast.copy_location(ast.Subscript(value=node.args[0], slice=node.args[1], ctx=ast.Load()), node)
            if isinstance(ax, ast.Constant) and ax.value == 1:
                return ast.copy_location(ast.Subscript(value=node.args[0], slice=ast.Tuple(elts=[ast.Slice(), node.args[1]], ctx=ast.Load()), ctx=ast.Load()), node)
        return node

    def visit_Subscript(self, node: ast.Subscript):  # noqa: N802
        self.generic_visit(node)
        # divmod(a, b)[1] is a % b, divmod(a, b)[0] is a // b
        v = node.value
        if isinstance(node.ctx, ast.Load) and isinstance(v, ast.Call) and isinstance(v.func, ast.Name) and v.func.id == "divmod" and len(v.args) == 2 and not v.keywords \
                and isinstance(node.slice, ast.Constant) and node.slice.value in (0, 1):
            return ast.copy_location(ast.BinOp(left=v.args[0], op=ast.Mod() if node.slice.value == 1 else ast.FloorDiv(), right=v.args[1]), node)
        return node

    def visit_If(self, node: ast.If):  # noqa: N802
        self.generic_visit(node)
        pre = self._hoist_walrus(node, "test")
        return [*pre, node] if pre else node

    def visit_While(self, node: ast.While):  # noqa: N802
        self.generic_visit(node)
        probe = ast.While(test=node.test, body=[], orelse=[])
        if self._leftmost_walrus(node.test) is not None or isinstance(node.test, ast.NamedExpr):
            # `while T(x := e): body`  ==  `while True: x = e; if not T(x): break; body`   (only without an else clause)
            if not node.orelse:
                holder = ast.copy_location(ast.If(test=node.test, body=[ast.Pass()], orelse=[]), node)
                pre = self._hoist_walrus(holder, "test")
                if pre:
                    brk = ast.copy_location(ast.If(test=ast.UnaryOp(op=ast.Not(), operand=holder.test), body=[ast.copy_location(ast.Break(), node)], orelse=[]), node)
                    new = ast.copy_location(ast.While(test=ast.Constant(value=True), body=[*pre, brk, *node.body], orelse=[]), node)
                    return ast.fix_missing_locations(new)
        _ = probe
        return node

    def visit_Expr(self, node: ast.Expr):  # noqa: N802
        self.generic_visit(node)
        pre = self._hoist_walrus(node, "value")
        return [*pre, node] if pre else node

    def visit_Return(self, node: ast.Return):  # noqa: N802
        self.generic_visit(node)
        pre = self._hoist_walrus(node, "value") if node.value is not None else []
        out = self._split_ifexp(node)
        return [*pre, out] if pre else out

    def visit_Assign(self, node: ast.Assign):  # noqa: N802
        self.generic_visit(node)
        pre = self._hoist_walrus(node, "value")
        out = self._split_ifexp(node)
        return [*pre, out] if pre else out

    def visit_AugAssign(self, node: ast.AugAssign):  # noqa: N802
        self.generic_visit(node)
        return self._split_ifexp(node)

    def visit_AnnAssign(self, node: ast.AnnAssign):  # noqa: N802
        self.generic_visit(node)
        if isinstance(node.target, ast.Name) and node.value is not None:
            new = ast.Assign(targets=[node.target], value=node.value, type_comment=None)
            new._annotation = node.annotation  # type: ignore[attr-defined]
            return self._split_ifexp(ast.copy_location(new, node))
        return node


def _read_tree(repo: Path) -> dict[str, str]:
    root = repo / PKG
    if not root.is_dir():
        raise AnalysisError(f"package directory {root} not found")
    out: dict[str, str] = {}
    for path in sorted(root.rglob("*.py")):
        rel = path.relative_to(repo).as_posix()
        out[rel] = path.read_text(encoding="utf-8")
    return out


def module_name(relpath: str) -> str:
    parts = relpath[:-3].split("/")
    if parts[-1] == "__init__":
        parts = parts[:-1]
    return ".".join(parts)


def load_sources(repo: Path | None = None, overlay: dict[str, str] | None = None) -> dict[str, str]:
    sources = _read_tree(repo or REPO)
    if overlay:
        for rel, text in overlay.items():
            if text is None:
                sources.pop(rel, None)
            else:
                sources[rel] = text
    return sources


def parse_sources(sources: dict[str, str]) -> dict[str, Module]:
    mods: dict[str, Module] = {}
    for rel, text in sources.items():
        name = module_name(rel)
        mods[name] = Module(name, rel, text)
    return mods
