"""Command line: `python -m sa.check <property> [--tier quick|thorough] [--replay path]`.

Exit codes: 0 property held on everything analysed (KNOWN-FINDING lines possible),
1 violation (a `VIOLATION property=<id> replay=<path>` line was printed), 2 analysis broken.
"""
from __future__ import annotations

import argparse
import importlib
import json
import os
import sys
import time
import traceback

from .errors import AnalysisError
from .model import load_program
from .report import Context, conclude

ALL = [f"C{i:02d}" for i in range(1, 21)]


def run_property(prop: str, tier: str, seed: int, overlay: dict[str, str] | None = None,
                 write_evidence: bool = True, quiet: bool = False) -> tuple[int, Context]:
    started = time.time()
    prog = load_program(overlay)
    mod = importlib.import_module(f"sa.props.{prop.lower()}")
    ctx = Context(prop, prog, tier, seed)
    mod.run(ctx)
    rc = conclude(ctx, started, mod.LEVEL_TEXT, mod.TECHNIQUE, write_evidence=write_evidence, quiet=quiet)
    return rc, ctx


def _mypy_cross_check(prop: str, ctx: Context) -> dict | None:
    """Thorough tier: every call edge inside the functions this check analysed must agree with mypy's resolved program."""
    from . import mypyx
    from .selftest import VERIF
    try:
        table = mypyx.mypy_call_table(os.environ.get("VERIF_REPO", "/repo"))
    except Exception as exc:  # noqa: BLE001 - mypy is a cross-check, not the deciding step
        res = {"available": False, "reason": str(exc)[:200]}
        print(f"{prop}: mypy cross-check unavailable ({res['reason'][:80]})")
    else:
        res = dict(mypyx.cross_check(ctx.prog, sorted(ctx.functions), table), available=True)
        whole = mypyx.cross_check(ctx.prog, sorted(ctx.prog.funcs), table)
        res["whole_program"] = {k: whole[k] for k in ("agree", "disagree", "unresolved_by_mypy", "problems")}
        print(f"{prop}: mypy cross-check over {len(ctx.functions)} analysed function(s): {res['agree']} call edge(s) agree, {res['disagree']} disagree, {res['unresolved_by_mypy']} not resolved by mypy")
    f = VERIF / "evidence" / f"{prop}.json"
    if f.exists():
        ev = json.loads(f.read_text())
        ev["coverage"]["mypy_cross_check"] = res
        f.write_text(json.dumps(ev, indent=1, default=str))
    return res if res.get("available") else None


def main(argv: list[str] | None = None) -> int:
    ap = argparse.ArgumentParser()
    ap.add_argument("prop")
    ap.add_argument("--tier", default=os.environ.get("VERIF_TIER", "quick"), choices=["quick", "thorough"])
    ap.add_argument("--replay", default=None)
    args = ap.parse_args(argv)
    seed = int(os.environ.get("VERIF_SEED", "0") or 0)
    prop = args.prop.upper()
    try:
        if prop not in ALL:
            raise AnalysisError(f"unknown property {prop}")
        rc, ctx = run_property(prop, args.tier, seed)
        if args.replay:
            want = json.load(open(args.replay))
            hit = [f for f in ctx.findings if f.rule == want["rule"] and f.key == want["key"]]
            print(f"replay {want['rule']} @ {want['key']}: {'REPRODUCED' if hit else 'not reproduced'}")
            return 1 if hit else 0
        from . import selftest
        if args.tier == "thorough" and rc != 1:
            xc = _mypy_cross_check(prop, ctx)
            if xc is not None and xc["disagree"]:
                print(f"ANALYSIS-ERROR: {prop}: call resolution disagrees with mypy at {[p_['call'] for p_ in xc['problems']][:5]}")
                return 2
        if args.tier == "thorough":
            st = selftest.run_for(prop, jobs=int(os.environ.get("VERIF_JOBS", "16")))
        else:
            # quick tier: a VERIF_SEED-chosen handful of variants (none for the product-based checks, which are slower)
            st = selftest.run_for(prop, jobs=1, sample=0 if prop in ("C09", "C10", "C11") else 2, seed=seed)
        if st is not None:
            selftest.merge_into_evidence(prop, st)
            print(f"{prop}: self-test {st['variants']} variant(s): {st['firing_ok']} firing ok, {st['silent_ok']} silent ok, {st['skipped']} skipped, {len(st['misbehaving'])} misbehaving")
            if st["misbehaving"] and rc == 0 and st["pristine"] and args.tier == "thorough":
                print(f"ANALYSIS-ERROR: self-test variants misbehaved for {prop}: {[m['name'] for m in st['misbehaving']][:5]}")
                return 2
        return rc
    except AnalysisError as exc:
        print(f"ANALYSIS-ERROR: {prop}: {exc}")
        return 2
    except Exception:  # noqa: BLE001 - tracebacks must not look like violations
        print(f"ANALYSIS-ERROR: {prop}: internal error\n{traceback.format_exc()}")
        return 2


if __name__ == "__main__":
    sys.exit(main())
