"""Program model: modules, import tables, classes with MRO, functions, attribute tables, call resolution."""
from __future__ import annotations

import ast
from dataclasses import dataclass, field
from typing import Iterable, Iterator

from .errors import AnalysisError
from .loader import Module, load_sources, parse_sources

FuncNode = (ast.FunctionDef, ast.AsyncFunctionDef)


def dotted(node: ast.AST | None) -> str | None:
    """`a.b.c` for Name/Attribute chains, else None."""
    parts: list[str] = []
    while isinstance(node, ast.Attribute):
        parts.append(node.attr)
        node = node.value
    if isinstance(node, ast.Name):
        parts.append(node.id)
        return ".".join(reversed(parts))
    return None


def src(node: ast.AST | None) -> str:
    """Normalised source text of a node (layout independent)."""
    if node is None:
        return ""
    return ast.unparse(node)


def walk_scope(node: ast.AST, include_root: bool = True) -> Iterator[ast.AST]:
    """Walk a function body without entering nested function/class/lambda scopes."""
    stack = [node]
    first = True
    while stack:
        cur = stack.pop()
        if not first and isinstance(cur, (*FuncNode, ast.ClassDef, ast.Lambda)):
            continue
        if include_root or not first:
            yield cur
        first = False
        stack.extend(reversed(list(ast.iter_child_nodes(cur))))


def walk_all(node: ast.AST) -> Iterator[ast.AST]:
    return ast.walk(node)


def parent(node: ast.AST) -> ast.AST | None:
    return getattr(node, "_parent", None)


def enclosing_stmt(node: ast.AST) -> ast.stmt:
    cur: ast.AST | None = node
    while cur is not None and not isinstance(cur, ast.stmt):
        cur = parent(cur)
    if cur is None:
        raise AnalysisError("node without enclosing statement")
    return cur


def mangle(cls_name: str, attr: str) -> str:
    if attr.startswith("__") and not attr.endswith("__"):
        return f"_{cls_name.lstrip('_')}{attr}"
    return attr


@dataclass(eq=False)
class FuncInfo:
    module: Module
    cls: "ClassInfo | None"
    node: ast.FunctionDef
    qualname: str  # "black_it.calibrator:Calibrator.calibrate"
    decorators: list[str] = field(default_factory=list)

    @property
    def name(self) -> str:
        return self.node.name

    @property
    def params(self) -> list[str]:
        a = self.node.args
        return [x.arg for x in [*a.posonlyargs, *a.args]]

    @property
    def kwonly(self) -> list[str]:
        return [x.arg for x in self.node.args.kwonlyargs]

    @property
    def is_static(self) -> bool:
        return "staticmethod" in self.decorators

    @property
    def is_classmethod(self) -> bool:
        return "classmethod" in self.decorators

    @property
    def self_name(self) -> str | None:
        if self.cls is None or self.is_static:
            return None
        p = self.params
        return p[0] if p else None

    @property
    def bound_params(self) -> list[str]:
        """Positional parameters as seen by a caller (without self/cls)."""
        p = self.params
        if self.cls is not None and not self.is_static:
            return p[1:]
        return p

    def param_default(self, name: str) -> ast.expr | None:
        a = self.node.args
        pos = [*a.posonlyargs, *a.args]
        defaults = [None] * (len(pos) - len(a.defaults)) + list(a.defaults)
        for p, d in zip(pos, defaults):
            if p.arg == name:
                return d
        for p, d in zip(a.kwonlyargs, a.kw_defaults):
            if p.arg == name:
                return d
        return None

    def param_annotation(self, name: str) -> ast.expr | None:
        a = self.node.args
        for p in [*a.posonlyargs, *a.args, *a.kwonlyargs]:
            if p.arg == name:
                return p.annotation
        return None

    def loc(self, node: ast.AST | None = None) -> str:
        n = node if node is not None else self.node
        return f"{self.module.relpath}:{getattr(n, 'lineno', 0)}"

    def __repr__(self) -> str:
        return f"<Func {self.qualname}>"


@dataclass(eq=False)
class ClassInfo:
    module: Module
    node: ast.ClassDef
    qualname: str  # "black_it.calibrator.Calibrator"
    base_names: list[str] = field(default_factory=list)  # resolved dotted names
    methods: dict[str, FuncInfo] = field(default_factory=dict)
    getters: dict[str, FuncInfo] = field(default_factory=dict)
    setters: dict[str, FuncInfo] = field(default_factory=dict)
    class_vars: dict[str, ast.expr] = field(default_factory=dict)

    @property
    def name(self) -> str:
        return self.node.name

    def __repr__(self) -> str:
        return f"<Class {self.qualname}>"


class Program:
    """Whole-program view of the `black_it` package."""

    def __init__(self, modules: dict[str, Module]) -> None:
        self.modules = modules
        self.imports: dict[str, dict[str, str]] = {}
        self.classes: dict[str, ClassInfo] = {}
        self.funcs: dict[str, FuncInfo] = {}
        self.module_consts: dict[str, dict[str, ast.expr]] = {}
        self._mro_cache: dict[str, list[ClassInfo]] = {}
        for mod in modules.values():
            self._index_module(mod)
        self._node_func: dict[int, FuncInfo] = {}
        for f in self.funcs.values():
            self._node_func[id(f.node)] = f

    # ------------------------------------------------------------------ indexing
    def _index_module(self, mod: Module) -> None:
        imports: dict[str, str] = {}
        consts: dict[str, ast.expr] = {}
        for node in ast.walk(mod.tree):
            if isinstance(node, ast.Import):
                for a in node.names:
                    imports[a.asname or a.name.split(".")[0]] = a.name if a.asname else a.name.split(".")[0]
            elif isinstance(node, ast.ImportFrom):
                base = node.module or ""
                if node.level:
                    pkg = mod.name.split(".")
                    if not mod.relpath.endswith("__init__.py"):
                        pkg = pkg[:-1]
                    pkg = pkg[: len(pkg) - (node.level - 1)]
                    base = ".".join([*pkg, base] if base else pkg)
                for a in node.names:
                    imports[a.asname or a.name] = f"{base}.{a.name}"
        self.imports[mod.name] = imports
        for node in mod.tree.body:
            if isinstance(node, FuncNode):
                self._add_func(mod, None, node)
            elif isinstance(node, ast.ClassDef):
                self._add_class(mod, node)
            elif isinstance(node, ast.Assign) and len(node.targets) == 1 and isinstance(node.targets[0], ast.Name):
                consts[node.targets[0].id] = node.value
            elif isinstance(node, ast.AnnAssign) and isinstance(node.target, ast.Name) and node.value is not None:
                consts[node.target.id] = node.value
        self.module_consts[mod.name] = consts

    def _decorators(self, node: ast.FunctionDef) -> list[str]:
        out = []
        for d in node.decorator_list:
            name = dotted(d) or (dotted(d.func) if isinstance(d, ast.Call) else None) or src(d)
            out.append(name.split(".")[-1] if not name.endswith(".setter") else name)
        return out

    def _add_func(self, mod: Module, cls: ClassInfo | None, node: ast.FunctionDef) -> FuncInfo:
        q = f"{mod.name}:{cls.name + '.' if cls else ''}{node.name}"
        decos = []
        for d in node.decorator_list:
            name = dotted(d) or (dotted(d.func) if isinstance(d, ast.Call) else None) or src(d)
            decos.append(name)
        short = [d.split(".")[-1] for d in decos]
        info = FuncInfo(mod, cls, node, q, short)
        if cls is not None and any(d.endswith(".setter") for d in decos):
            info.qualname = q + ".setter"
            cls.setters[node.name] = info
            self.funcs[info.qualname] = info
            return info
        if cls is not None and "property" in short:
            cls.getters[node.name] = info
        elif cls is not None:
            cls.methods[node.name] = info
        self.funcs[q] = info
        return info

    def _add_class(self, mod: Module, node: ast.ClassDef) -> None:
        info = ClassInfo(mod, node, f"{mod.name}.{node.name}")
        for b in node.bases:
            if isinstance(b, ast.Subscript):
                b = b.value
            d = dotted(b)
            if d:
                info.base_names.append(d)
        self.classes[info.qualname] = info
        for item in node.body:
            if isinstance(item, FuncNode):
                self._add_func(mod, info, item)
            elif isinstance(item, ast.Assign) and len(item.targets) == 1 and isinstance(item.targets[0], ast.Name):
                info.class_vars[item.targets[0].id] = item.value
            elif isinstance(item, ast.AnnAssign) and isinstance(item.target, ast.Name) and item.value is not None:
                info.class_vars[item.target.id] = item.value

    # ------------------------------------------------------------------ lookup
    def qualify(self, mod: Module | str, name: str) -> str:
        """Resolve a (dotted) name used in `mod` to a fully qualified dotted name."""
        modname = mod if isinstance(mod, str) else mod.name
        head, _, rest = name.partition(".")
        imports = self.imports.get(modname, {})
        if head in imports:
            base = imports[head]
        elif f"{modname}.{head}" in self.classes or f"{modname}:{head}" in self.funcs or head in self.module_consts.get(modname, {}):
            base = f"{modname}.{head}"
        else:
            base = head
        return f"{base}.{rest}" if rest else base

    def cls(self, qualname: str) -> ClassInfo:
        if qualname not in self.classes:
            raise AnalysisError(f"anchor vanished: class {qualname}")
        return self.classes[qualname]

    def find_class(self, short: str) -> ClassInfo:
        hits = [c for c in self.classes.values() if c.name == short]
        if len(hits) != 1:
            raise AnalysisError(f"anchor vanished or ambiguous: class {short} ({len(hits)} definitions)")
        return hits[0]

    def class_of_name(self, mod: Module, name: str) -> ClassInfo | None:
        q = self.qualify(mod, name)
        if q in self.classes:
            return self.classes[q]
        # re-exported through a package __init__? try by short name
        short = q.split(".")[-1]
        hits = [c for c in self.classes.values() if c.name == short]
        if len(hits) == 1 and q.startswith("black_it"):
            return hits[0]
        return None

    def func(self, qualname: str) -> FuncInfo:
        if qualname not in self.funcs:
            raise AnalysisError(f"anchor vanished: function {qualname}")
        return self.funcs[qualname]

    def has_func(self, qualname: str) -> bool:
        return qualname in self.funcs

    def func_of_node(self, node: ast.AST) -> FuncInfo | None:
        cur: ast.AST | None = node
        while cur is not None:
            if id(cur) in self._node_func:
                return self._node_func[id(cur)]
            cur = parent(cur)
        return None

    def bases(self, cls: ClassInfo) -> list[ClassInfo]:
        out = []
        for b in cls.base_names:
            c = self.class_of_name(cls.module, b)
            if c is not None:
                out.append(c)
        return out

    def external_bases(self, cls: ClassInfo) -> list[str]:
        out = []
        for b in cls.base_names:
            if self.class_of_name(cls.module, b) is None:
                out.append(self.qualify(cls.module, b))
        return out

    def mro(self, cls: ClassInfo) -> list[ClassInfo]:
        if cls.qualname in self._mro_cache:
            return self._mro_cache[cls.qualname]
        seqs = [self.mro(b)[:] for b in self.bases(cls)] + [list(self.bases(cls))]
        result = [cls]
        while True:
            seqs = [s for s in seqs if s]
            if not seqs:
                break
            for s in seqs:
                cand = s[0]
                if not any(cand in t[1:] for t in seqs):
                    break
            else:  # pragma: no cover
                raise AnalysisError(f"inconsistent MRO for {cls.qualname}")
            result.append(cand)
            for s in seqs:
                if s[0] is cand:
                    del s[0]
        self._mro_cache[cls.qualname] = result
        return result

    def is_subclass(self, cls: ClassInfo, base: ClassInfo) -> bool:
        return base in self.mro(cls)

    def subclasses(self, base: ClassInfo, strict: bool = False) -> list[ClassInfo]:
        return [c for c in self.classes.values() if base in self.mro(c) and not (strict and c is base)]

    def lookup_method(self, cls: ClassInfo, name: str, after: ClassInfo | None = None) -> FuncInfo | None:
        mro = self.mro(cls)
        if after is not None:
            mro = mro[mro.index(after) + 1 :]
        for c in mro:
            if name in c.methods:
                return c.methods[name]
        return None

    def lookup_getter(self, cls: ClassInfo, name: str) -> FuncInfo | None:
        for c in self.mro(cls):
            if name in c.getters:
                return c.getters[name]
        return None

    def lookup_setter(self, cls: ClassInfo, name: str) -> FuncInfo | None:
        for c in self.mro(cls):
            if name in c.setters:
                return c.setters[name]
        return None

    def overrides(self, cls: ClassInfo, name: str) -> list[FuncInfo]:
        """Definition seen from `cls` plus every override in its subclasses (CHA)."""
        out: list[FuncInfo] = []
        for c in [cls, *self.subclasses(cls, strict=True)]:
            m = self.lookup_method(c, name)
            if m is not None and m not in out:
                out.append(m)
        return out

    def concrete_subclasses(self, base: ClassInfo) -> list[ClassInfo]:
        out = []
        for c in self.subclasses(base):
            abstract = False
            names = set()
            for k in self.mro(c):
                names.update(k.methods)
            for n in names:
                m = self.lookup_method(c, n)
                if m is not None and "abstractmethod" in m.decorators:
                    abstract = True
            if not abstract:
                out.append(c)
        return out

    def methods_of(self, cls: ClassInfo) -> Iterable[FuncInfo]:
        return [*cls.methods.values(), *cls.getters.values(), *cls.setters.values()]

    # ------------------------------------------------------------------ attribute tables
    def attr_stores(self, cls: ClassInfo, inherited: bool = True) -> dict[str, list[tuple[FuncInfo, ast.stmt, ast.expr | None]]]:
        """Every `self.a = value` (also annotated / augmented) per attribute, name mangling applied."""
        cache = self.__dict__.setdefault("_attr_store_cache", {})
        if (cls.qualname, inherited) in cache:
            return cache[(cls.qualname, inherited)]
        out: dict[str, list[tuple[FuncInfo, ast.stmt, ast.expr | None]]] = {}
        cache[(cls.qualname, inherited)] = out
        classes = self.mro(cls) if inherited else [cls]
        for c in classes:
            for f in self.methods_of(c):
                sn = f.self_name
                if sn is None:
                    continue
                for node in walk_scope(f.node):
                    targets: list[tuple[ast.expr, ast.expr | None]] = []
                    if isinstance(node, ast.Assign):
                        for t in node.targets:
                            targets.extend(_flatten_targets(t, node.value))
                    elif isinstance(node, ast.AnnAssign):
                        targets.append((node.target, node.value))
                    elif isinstance(node, ast.AugAssign):
                        targets.append((node.target, node.value))
                    for t, v in targets:
                        if isinstance(t, ast.Attribute) and isinstance(t.value, ast.Name) and t.value.id == sn:
                            out.setdefault(mangle(c.name, t.attr), []).append((f, node, v))
        return out

    def attr_type(self, cls: ClassInfo, attr: str) -> ClassInfo | None:
        """Static class of `self.<attr>` when it can be inferred from its stores."""
        for c in self.mro(cls):
            g = c.getters.get(attr)
            if g is not None:
                # property: look at returned expression `self._x`
                for n in walk_scope(g.node):
                    if isinstance(n, ast.Return) and n.value is not None:
                        d = dotted(n.value)
                        if d and d.startswith(f"{g.self_name}."):
                            return self.attr_type(cls, mangle(c.name, d.split(".", 1)[1]))
                if g.node.returns is not None:
                    t = self._ann_class(g.module, g.node.returns)
                    if t:
                        return t
        for f, stmt, value in self.attr_stores(cls).get(attr, []):
            if isinstance(stmt, ast.AnnAssign):
                t = self._ann_class(f.module, stmt.annotation)
                if t:
                    return t
            t = self.expr_class(f, value)
            if t:
                return t
        return None

    def _ann_class(self, mod: Module, ann: ast.expr | None) -> ClassInfo | None:
        if ann is None:
            return None
        if isinstance(ann, ast.Constant) and isinstance(ann.value, str):
            try:
                ann = ast.parse(ann.value, mode="eval").body
            except SyntaxError:
                return None
        if isinstance(ann, ast.BinOp) and isinstance(ann.op, ast.BitOr):
            return self._ann_class(mod, ann.left) or self._ann_class(mod, ann.right)
        if isinstance(ann, ast.Subscript):
            head = dotted(ann.value) or ""
            if head.split(".")[-1] in ("Optional", "cast"):
                return self._ann_class(mod, ann.slice)
            return self._ann_class(mod, ann.value)
        d = dotted(ann)
        if d:
            return self.class_of_name(mod, d)
        return None

    def expr_class(self, f: FuncInfo, expr: ast.expr | None) -> ClassInfo | None:
        """Static repository class of an expression inside `f`, if inferable."""
        if expr is None:
            return None
        active = self.__dict__.setdefault("_expr_class_active", set())
        key = (f.qualname, id(expr))
        if key in active or len(active) > 200:
            return None         # `x = x.step()`: the definition refers to itself - no class can be read off
        active.add(key)
        try:
            return self._expr_class(f, expr)
        finally:
            active.discard(key)

    def _expr_class(self, f: FuncInfo, expr: ast.expr) -> ClassInfo | None:
        if isinstance(expr, ast.Name):
            if f.self_name and expr.id == f.self_name and f.cls is not None and not f.is_classmethod:
                return f.cls
            ann = f.param_annotation(expr.id)
            if ann is not None:
                return self._ann_class(f.module, ann)
            # single local assignment
            for n in walk_scope(f.node):
                if isinstance(n, ast.Assign) and len(n.targets) == 1 and isinstance(n.targets[0], ast.Name) and n.targets[0].id == expr.id:
                    if getattr(n, "_annotation", None) is not None:
                        t = self._ann_class(f.module, n._annotation)
                        if t:
                            return t
                    return self.expr_class(f, n.value)
                if isinstance(n, ast.AnnAssign) and isinstance(n.target, ast.Name) and n.target.id == expr.id:
                    return self._ann_class(f.module, n.annotation)
            return None
        if isinstance(expr, ast.Call):
            fn = dotted(expr.func)
            if fn and fn.split(".")[-1] == "cast" and len(expr.args) == 2:
                return self._ann_class(f.module, expr.args[0])
            if fn and f.is_classmethod and f.cls is not None and fn == f.self_name:
                return f.cls  # `cls(...)` inside a classmethod
            if fn:
                c = self.class_of_name(f.module, fn)
                if c is not None:
                    return c
            for target in self.resolve_call(f, expr):
                if isinstance(target, FuncInfo) and target.node.returns is not None:
                    t = self._ann_class(target.module, target.node.returns)
                    if t:
                        return t
            return None
        if isinstance(expr, ast.Attribute):
            base = self.expr_class(f, expr.value)
            if base is not None:
                return self.attr_type(base, mangle(base.name, expr.attr))
            return None
        if isinstance(expr, ast.IfExp):
            return self.expr_class(f, expr.body) or self.expr_class(f, expr.orelse)
        if isinstance(expr, ast.Subscript):
            # element of a sequence attribute: annotation `tuple[BaseSampler, ...]` / Sequence[X]
            base = expr.value
            ann = None
            if isinstance(base, ast.Attribute):
                owner = self.expr_class(f, base.value)
                if owner is not None:
                    g = self.lookup_getter(owner, base.attr)
                    if g is not None:
                        ann = g.node.returns
            elif isinstance(base, ast.Name):
                ann = f.param_annotation(base.id)
            return self._elem_class(f.module, ann)
        return None

    def _elem_class(self, mod: Module, ann: ast.expr | None) -> ClassInfo | None:
        if isinstance(ann, ast.Constant) and isinstance(ann.value, str):
            try:
                ann = ast.parse(ann.value, mode="eval").body
            except SyntaxError:
                return None
        if isinstance(ann, ast.Subscript):
            sl = ann.slice
            if isinstance(sl, ast.Tuple) and sl.elts:
                sl = sl.elts[0]
            return self._ann_class(mod, sl)
        return None

    # ------------------------------------------------------------------ reverse call graph
    def callers_of(self, target: FuncInfo) -> list[tuple[FuncInfo, ast.Call]]:
        """Every resolved call site in the package that may reach `target` (class-hierarchy resolution; memoised)."""
        rev = self.__dict__.get("_callers")
        if rev is None:
            rev = {}
            for g in list(self.funcs.values()):
                for c in ast.walk(g.node):
                    if isinstance(c, ast.Call):
                        try:
                            ts = self.resolve_call(g, c)
                        except Exception:  # noqa: BLE001 - an unresolvable call is simply no edge
                            continue
                        for t in ts:
                            if isinstance(t, FuncInfo):
                                rev.setdefault(t.qualname, []).append((g, c))
            self.__dict__["_callers"] = rev
        return rev.get(target.qualname, [])

    def only_reached_from(self, f: FuncInfo, roots: set[str], _seen: frozenset[str] = frozenset()) -> bool:
        """`f` is one of the root functions, or a private helper every call site of which lies in a function that is (recursively) so."""
        if f.qualname in roots:
            return True
        if f.qualname in _seen or not (f.name.startswith("_") and not (f.name.startswith("__") and f.name.endswith("__"))):
            return False
        callers = self.callers_of(f)
        return bool(callers) and all(self.only_reached_from(g, roots, _seen | {f.qualname}) for g, _ in callers)

    # ------------------------------------------------------------------ call resolution
    def resolve_call(self, f: FuncInfo, call: ast.Call) -> list["FuncInfo | str"]:
        """Resolve a call to repository functions (CHA) or to an external dotted name (memoised per call node)."""
        cache = self.__dict__.setdefault("_resolve_cache", {})
        key = (f.qualname, id(call))
        hit = cache.get(key)
        # the node is kept in the entry: it stays alive, so its id cannot be reused by a later temporary node (oracle expressions are parsed on the fly)
        if hit is None or hit[0] is not call:
            hit = cache[key] = (call, self._resolve_call(f, call))
        return hit[1]

    def _resolve_call(self, f: FuncInfo, call: ast.Call) -> list["FuncInfo | str"]:
        fn = call.func
        # super().m(...)
        if isinstance(fn, ast.Attribute) and isinstance(fn.value, ast.Call) and dotted(fn.value.func) == "super":
            if f.cls is None:
                return []
            m = self.lookup_method(f.cls, fn.attr, after=f.cls)
            if m is not None:
                return [m]
            ext = self.external_bases(f.cls)
            return [f"{ext[0]}.{fn.attr}"] if ext else []
        d = dotted(fn)
        if isinstance(fn, ast.Name):
            q = self.qualify(f.module, fn.id)
            mq = _func_key(q)
            if mq in self.funcs:
                return [self.funcs[mq]]
            c = self.class_of_name(f.module, fn.id)
            if c is not None:
                init = self.lookup_method(c, "__init__")
                return [init] if init else [c.qualname]
            # nested function defined in f
            for n in ast.walk(f.node):
                if isinstance(n, FuncNode) and n is not f.node and n.name == fn.id:
                    return [f"<nested>{f.qualname}.{fn.id}"]
            return [q]
        if isinstance(fn, ast.Attribute):
            # Class.m / module.f
            if d:
                head = d.rsplit(".", 1)[0]
                c = self.class_of_name(f.module, head) if "." not in head or head.split(".")[0] in self.imports.get(f.module.name, {}) else None
                if c is None and head == "cls" and f.is_classmethod and f.cls is not None:
                    c = f.cls
                if c is not None and not (f.self_name and head == f.self_name and not f.is_classmethod):
                    if isinstance(fn.value, ast.Name) and (fn.value.id == head):
                        m = self.lookup_method(c, fn.attr)
                        if m is not None:
                            return [m]
                q = self.qualify(f.module, d)
                mq = _func_key(q)
                if mq in self.funcs:
                    return [self.funcs[mq]]
            recv = self.expr_class(f, fn.value)
            if recv is not None:
                ms = self.overrides(recv, fn.attr)
                if ms:
                    return list(ms)
                ext = [e for k in self.mro(recv) for e in self.external_bases(k)]
                return [f"{recv.qualname}.{fn.attr}"] if not ext else [f"{ext[0]}.{fn.attr}"]
            if d:
                return [self.qualify(f.module, d)]
            return [f"<expr>.{fn.attr}"]
        return []

    def callee_name(self, f: FuncInfo, call: ast.Call) -> str:
        """Qualified external name of a call's callee (best effort), e.g. `numpy.vstack`."""
        d = dotted(call.func)
        if d:
            return self.qualify(f.module, d)
        if isinstance(call.func, ast.Attribute):
            return f"<expr>.{call.func.attr}"
        return src(call.func)

    def all_functions(self, include_plot: bool = False) -> list[FuncInfo]:
        out = []
        for f in self.funcs.values():
            if not include_plot and f.module.name.startswith("black_it.plot"):
                continue
            out.append(f)
        return out


def _func_key(q: str) -> str:
    mod, _, name = q.rpartition(".")
    return f"{mod}:{name}"


def _flatten_targets(t: ast.expr, value: ast.expr | None) -> list[tuple[ast.expr, ast.expr | None]]:
    if isinstance(t, (ast.Tuple, ast.List)):
        out = []
        vals = value.elts if isinstance(value, (ast.Tuple, ast.List)) and len(value.elts) == len(t.elts) else [None] * len(t.elts)
        for sub, v in zip(t.elts, vals):
            out.extend(_flatten_targets(sub, v if v is not None else value))
        return out
    return [(t, value)]


def load_program(overlay: dict[str, str] | None = None, canonical: bool = True) -> Program:
    mods = parse_sources(load_sources(overlay=overlay))
    report: dict = {}
    if canonical:
        from .align import canonicalise
        report = canonicalise(mods)
    prog = Program(mods)
    prog.alignment = report
    return prog
