"""Catalogue of self-test variants: textual edits of /repo files applied as in-memory overlays.

kind 'fire'   : one rule instance broken; the tree still compiles and the baseline tests stay green;
                the named property's check must report a violation (rule prefix in `expect` when given).
kind 'silent' : behaviour-preserving rewrite (renamed local, reordered independent statements, equivalent
                idiom); the check must stay silent.
A variant whose anchor text is not found exactly once in the current tree is skipped (the tree changed).
"""
from __future__ import annotations

CAL = "black_it/calibrator.py"
V: list[dict] = []


def add(prop: str, kind: str, name: str, file: str, old: str, new: str, expect: str = "") -> None:
    V.append({"prop": prop, "kind": kind, "name": name, "file": file, "old": old, "new": new, "expect": expect})


# ------------------------------------------------------------------------------------------------ C01
add("C01", "fire", "seed drawn once outside the samplers loop", "black_it/schedulers/base.py",
    "        for sampler in self.samplers:\n            sampler.random_state = self._get_random_seed()",
    "        seed = self._get_random_seed()\n        for sampler in self.samplers:\n            sampler.random_state = seed", "R2")
add("C01", "fire", "forest without seed", "black_it/samplers/random_forest.py", "random_state=self._get_random_seed(),", "random_state=None,", "R5")
add("C01", "fire", "global numpy rng in CORS", "black_it/samplers/cors.py", "self.random_generator.random(search_space.dims)", "np.random.rand(search_space.dims)", "R5")
add("C01", "fire", "draw under verbose", CAL, "                if self.verbose:\n                    min_dist_new_points",
    "                if self.verbose:\n                    self._get_random_seed()\n                    min_dist_new_points", "R7")
add("C01", "fire", "halton cursor not reset on reseed", "black_it/samplers/halton.py",
    "        super()._set_random_state(random_state)\n        self._reset_sequence_index()", "        super()._set_random_state(random_state)", "R4")
add("C01", "fire", "batch-0 guard dropped", CAL,
    "        if self.current_batch_index == 0:\n            # we only set the samplers' random state at the start of a calibration\n            self._set_samplers_seeds()",
    "        self._set_samplers_seeds()", "R1")
add("C01", "silent", "other loop variable name in the cascade", "black_it/schedulers/base.py",
    "        for sampler in self.samplers:\n            sampler.random_state = self._get_random_seed()",
    "        for smp in self.samplers:\n            smp.random_state = self._get_random_seed()")
add("C01", "silent", "extra print under verbose", CAL, "                if self.verbose:\n                    min_dist_new_points",
    "                if self.verbose:\n                    print('batch done')\n                    min_dist_new_points")
add("C01", "silent", "seed local in xgboost passed on", "black_it/samplers/xgboost.py", "n_estimators=self.n_estimators,\n            random_state=self._get_random_seed(),",
    "random_state=self._get_random_seed(),\n            n_estimators=self.n_estimators,")
# ------------------------------------------------------------------------------------------------ C02
add("C02", "fire", "np.tile replication", CAL, "np.repeat(params, self.ensemble_size, axis=0)", "np.tile(params, (self.ensemble_size, 1))", "R3")
add("C02", "fire", "labels times ensemble", CAL, "[self.current_batch_index] * method.batch_size", "[self.current_batch_index] * method.batch_size * self.ensemble_size", "R2")
add("C02", "fire", "losses not indexed on return", CAL, "return self.params_samp[idx], self.losses_samp[idx]", "return self.params_samp[idx], np.sort(self.losses_samp)[::-1]", "R6")
add("C02", "fire", "prepend", CAL, "np.vstack((self.params_samp, new_params))", "np.vstack((new_params, self.params_samp))", "R1")
add("C02", "fire", "loss arguments swapped", CAL, "                        sim_data_ensemble,\n                        self.real_data,", "                        self.real_data,\n                        sim_data_ensemble,", "R4")
add("C02", "fire", "increment before label", CAL, "                # update arrays\n", "                self.current_batch_index += 0\n                # update arrays\n", "")
add("C02", "silent", "np.concatenate for params", CAL, "np.vstack((self.params_samp, new_params))", "np.concatenate((self.params_samp, new_params))")
add("C02", "silent", "rename new_losses", CAL, "new_losses", "batch_losses")
add("C02", "silent", "len(new_params) as label multiplicity", CAL, "[self.current_batch_index] * method.batch_size", "[self.current_batch_index] * len(new_params)")
# ------------------------------------------------------------------------------------------------ C03
add("C03", "fire", "clip instead of snap in CORS", "black_it/samplers/cors.py", "return digitize_data(new_box_batch, search_space.param_grid)",
    "return np.clip(new_box_batch, search_space.parameters_bounds[0], search_space.parameters_bounds[1])", "R1")
add("C03", "fire", "uniform draws between ends", "black_it/samplers/random_uniform.py", "self.random_generator.choice(params, size=(batch_size,))",
    "self.random_generator.uniform(params[0], params[-1], size=(batch_size,))", "R1")
add("C03", "fire", "halton ignores batch_size argument", "black_it/samplers/halton.py", "            batch_size,\n            search_space.dims,", "            self.batch_size,\n            search_space.dims,", "R3")
add("C03", "fire", "snap onto reversed grid list", "black_it/samplers/r_sequence.py", "return digitize_data(sampled_points, search_space.param_grid)", "return digitize_data(sampled_points, search_space.param_grid[::-1])", "R1")
add("C03", "silent", "snap into a local first", "black_it/samplers/halton.py", "        return digitize_data(sampled_points, search_space.param_grid)",
    "        snapped = digitize_data(sampled_points, search_space.param_grid)\n        return snapped")
add("C03", "silent", "choice without size keyword name change", "black_it/samplers/random_uniform.py", "for i, params in enumerate(search_space.param_grid):\n            candidates[:, i] = self.random_generator.choice(params, size=(batch_size,))",
    "for i, column in enumerate(search_space.param_grid):\n            candidates[:, i] = self.random_generator.choice(column, size=(batch_size,))")
# ------------------------------------------------------------------------------------------------ C04
add("C04", "fire", "load tuple positions swapped", "black_it/utils/json_pandas_checkpointing.py", '        cp["current_batch_index"],\n        cp["n_sampled_params"],', '        cp["n_sampled_params"],\n        cp["current_batch_index"],', "R1")
add("C04", "fire", "restore unpack swapped", CAL, "            current_batch_index,\n            n_sampled_params,\n            n_jobs,\n            params_samp,", "            n_sampled_params,\n            current_batch_index,\n            n_jobs,\n            params_samp,", "R1")
add("C04", "fire", "restore forgets counter", CAL, "        calibrator.n_sampled_params = n_sampled_params\n", "", "R1")
add("C04", "fire", "losses rounded before saving", "black_it/utils/json_pandas_checkpointing.py", '"losses_samp": losses_samp.tolist(),', '"losses_samp": np.round(losses_samp, 12).tolist(),', "R1")
add("C04", "fire", "float_format in to_csv", "black_it/utils/json_pandas_checkpointing.py", 'df_calibration_results.to_csv(checkpoint_path / "calibration_results.csv")', 'df_calibration_results.to_csv(checkpoint_path / "calibration_results.csv", float_format="%.10g")', "R3")
add("C04", "fire", "generator state never restored", CAL, "        calibrator.random_generator.bit_generator.state = random_generator_state\n", "", "R1")
add("C04", "fire", "float32 dataset", "black_it/utils/json_pandas_checkpointing.py", 'dtype="float64",', 'dtype="float32",', "R3")
add("C04", "silent", "keyword call in restore", CAL, "            ensemble_size,\n            scheduler=scheduler,", "            ensemble_size=ensemble_size,\n            scheduler=scheduler,")
add("C04", "silent", "rename local in restore", CAL, "saving_file", "saved_folder")
add("C04", "silent", "different json handle name", "black_it/utils/json_pandas_checkpointing.py", '    with (checkpoint_path / "calibration_params.json").open("w") as f:\n        json.dump(calibration_params, f, cls=NumpyArrayEncoder)',
    '    with (checkpoint_path / "calibration_params.json").open("w") as handle:\n        json.dump(calibration_params, handle, cls=NumpyArrayEncoder)')
# ------------------------------------------------------------------------------------------------ C05
add("C05", "fire", "class-level cursor store", "black_it/samplers/halton.py", "        self._sequence_index += nb_samples", "        self._sequence_index += nb_samples\n        HaltonSampler.last_index = self._sequence_index", "R2")
add("C05", "fire", "running best local across batches", CAL, "                new_losses = []\n", "                new_losses = [] if self.current_batch_index == 0 else new_losses[:0]\n", "R2")
add("C05", "fire", "getstate dropping position", "black_it/schedulers/round_robin.py", "    def get_next_sampler(self) -> BaseSampler:",
    "    def __getstate__(self):  # noqa: ANN204\n        d = dict(self.__dict__)\n        d.pop('_batch_id', None)\n        return d\n\n    def get_next_sampler(self) -> BaseSampler:", "R2")
add("C05", "silent", "rename batch counter local", "black_it/samplers/cors.py", "nb_seed_points", "n_seed")
# ------------------------------------------------------------------------------------------------ C06
add("C06", "fire", "commit before insert", "black_it/utils/sqlite3_checkpointing.py", "        cursor.execute(SQL_DELETE_QUERY)\n", "        cursor.execute(SQL_DELETE_QUERY)\n        connection.commit()\n", "R2")
add("C06", "fire", "rollback dropped", "black_it/utils/sqlite3_checkpointing.py", "        connection.rollback()\n        raise err from err", "        raise err from err", "R2")
add("C06", "fire", "load swallows errors", "black_it/utils/json_pandas_checkpointing.py", '    with (checkpoint_path / "scheduler_pickled.pickle").open("rb") as fb:\n        scheduler = pickle.load(fb)  # nosec B301',
    '    try:\n        with (checkpoint_path / "scheduler_pickled.pickle").open("rb") as fb:\n            scheduler = pickle.load(fb)  # nosec B301\n    except Exception:  # noqa: BLE001\n        scheduler = None', "R3")
add("C06", "silent", "comment after the version pragma", "black_it/utils/sqlite3_checkpointing.py", "cursor = connection.cursor()\n        cursor.execute(SQL_SAVE_USER_VERSION)", "cursor = connection.cursor()\n        cursor.execute(SQL_SAVE_USER_VERSION)  # version first")
# ------------------------------------------------------------------------------------------------ C07
add("C07", "fire", "gsl weight denominator", "black_it/loss_functions/gsl_div.py", "2 / (nb_word_lengths * (nb_word_lengths + 1))", "2 / (nb_word_lengths * (nb_word_lengths - 1))", "R3")
add("C07", "fire", "scott exponent", "black_it/loss_functions/likelihood.py", "return n ** (-1 / (d + 4))", "return n ** (-1 / (d + 2))", "R3")
add("C07", "fire", "fourier normalisation", "black_it/loss_functions/fourier.py", "/ ts_length)", "/ len(real_data))", "R3")
add("C07", "fire", "fourier filters dropped", "black_it/loss_functions/fourier.py", "super().__init__(coordinate_weights, coordinate_filters)", "super().__init__(coordinate_weights)", "R1")
add("C07", "fire", "default weights not normalised", "black_it/loss_functions/base.py", "np.ones(num_coords) / num_coords", "np.ones(num_coords)", "R4")
add("C07", "silent", "reassociated gsl weight", "black_it/loss_functions/gsl_div.py", "2 / (nb_word_lengths * (nb_word_lengths + 1))", "2 / (nb_word_lengths * nb_word_lengths + nb_word_lengths)")
add("C07", "silent", "silverman regrouped", "black_it/loss_functions/likelihood.py", "((n * (d + 2)) / 4) ** (-1 / (d + 4))", "(n * (d + 2) / 4) ** (-1 / (d + 4))")
# ------------------------------------------------------------------------------------------------ C08
add("C08", "fire", "in-place demeaning in a filter", "black_it/utils/time_series.py", "    log = np.log(time_series)\n    diff_log", "    time_series -= 0\n    log = np.log(time_series)\n    diff_log", "R1")
add("C08", "fire", "real moments memoised on self", "black_it/loss_functions/msm.py", "        real_mom_1d = self._moment_calculator(real_data)\n", "        real_mom_1d = self._moment_calculator(real_data)\n        self._last_real_mom = real_mom_1d\n", "R2")
add("C08", "fire", "first coordinate skipped", "black_it/loss_functions/base.py", "for i in range(num_coords):\n            loss +=", "for i in range(1, num_coords):\n            loss +=", "R3")
add("C08", "fire", "validation raises plain Exception", "black_it/loss_functions/base.py",
    "                    f\"to the number of coordinates, got {nb_coordinate_weights} and {num_coords}\"\n                ),\n                exception_class=ValueError,",
    "                    f\"to the number of coordinates, got {nb_coordinate_weights} and {num_coords}\"\n                ),\n                exception_class=Exception,", "R4")
add("C08", "silent", "other index name in the weighted sum", "black_it/loss_functions/base.py", "        for i in range(num_coords):\n            loss += self.compute_loss_1d(filtered_data[i], real_data[:, i]) * weights[i]",
    "        for k in range(num_coords):\n            loss += self.compute_loss_1d(filtered_data[k], real_data[:, k]) * weights[k]")
add("C08", "silent", "factor order in term", "black_it/loss_functions/base.py", "loss += self.compute_loss_1d(filtered_data[i], real_data[:, i]) * weights[i]", "loss += weights[i] * self.compute_loss_1d(filtered_data[i], real_data[:, i])")
# ------------------------------------------------------------------------------------------------ C09
add("C09", "fire", "round robin off by one", "black_it/schedulers/round_robin.py", "self._batch_id % len", "(self._batch_id + 1) % len", "R1")
add("C09", "fire", "two increments", "black_it/schedulers/round_robin.py", "        self._batch_id += 1", "        self._batch_id += 1\n        self._batch_id += 1", "R1")
add("C09", "fire", "bootstrap index off by one", "black_it/schedulers/rl/rl_scheduler.py", "[new_sampler])), len(", "[new_sampler])), -1 + len(", "R2")
add("C09", "fire", "validator or->and", CAL, "if both_none or both_not_none:", "if both_none and both_not_none:", "R3")
add("C09", "silent", "increment spelled out", "black_it/schedulers/round_robin.py", "        self._batch_id += 1", "        self._batch_id = self._batch_id + 1")
add("C09", "silent", "validator with xor form", CAL, "if both_none or both_not_none:", "if (samplers is None) == (scheduler is None):")
# ------------------------------------------------------------------------------------------------ C10
add("C10", "fire", "drain removed", "black_it/schedulers/rl/rl_scheduler.py", "        while not self._in_queue.empty():\n            self._in_queue.get_nowait()", "        pass", "P")
add("C10", "fire", "learn before truncated test", "black_it/schedulers/rl/rl_scheduler.py",
    "            if truncated:\n                # the session ended: the action was not executed, nothing to learn\n                break\n            # Learn from interaction\n            self._agent.learn(state, action, reward, next_state)",
    "            self._agent.learn(state, action, reward, next_state)\n            if truncated:\n                break", "P")
add("C10", "fire", "end marker after join", "black_it/schedulers/rl/rl_scheduler.py", "        self._out_queue.put(None)\n        cast(threading.Thread, self._agent_thread).join()",
    "        cast(threading.Thread, self._agent_thread).join()\n        self._out_queue.put(None)", "P")
add("C10", "silent", "rename local in step", "black_it/schedulers/rl/envs/base.py", "result", "message")
add("C10", "silent", "while-loop with flag variable", "black_it/schedulers/rl/rl_scheduler.py", "chosen_sampler_id = self._in_queue.get()\n        return self.samplers[chosen_sampler_id]", "sampler_index = self._in_queue.get()\n        return self.samplers[sampler_index]")
# ------------------------------------------------------------------------------------------------ C11
add("C11", "fire", "finally dropped from session", "black_it/schedulers/base.py", "        try:\n            yield\n        finally:\n            self.end_session()", "        yield\n        self.end_session()", "R1")
add("C11", "fire", "params recorded right after sampling", CAL, "                t_eval = time.time()\n", "                self.params_samp = np.vstack((self.params_samp, new_params))\n                t_eval = time.time()\n", "")
add("C11", "silent", "rename loop element", CAL, "sim_data_ensemble", "member_series")
# ------------------------------------------------------------------------------------------------ C12
add("C12", "fire", "one pass fewer", "black_it/samplers/base.py", "range(self.max_deduplication_passes)", "range(self.max_deduplication_passes - 1)", "D2")
add("C12", "fire", "finder arguments swapped", "black_it/samplers/base.py", "self.find_and_get_duplicates(samples, existing_points)", "self.find_and_get_duplicates(existing_points, samples)", "D3")
add("C12", "fire", "threshold count > 2", "black_it/samplers/base.py", "count > 1", "count > 2", "D7")
add("C12", "fire", "redraw of full batch", "black_it/samplers/base.py", "                num_duplicates,\n                search_space,", "                self.batch_size,\n                search_space,", "D4")
add("C12", "silent", "threshold count >= 2", "black_it/samplers/base.py", "count > 1", "count >= 2")
add("C12", "silent", "len test inline", "black_it/samplers/base.py", "            if num_duplicates == 0:", "            if len(duplicates) == 0:")
# ------------------------------------------------------------------------------------------------ C13
add("C13", "fire", "cursor advanced by n-1", "black_it/samplers/halton.py", "self._sequence_index += nb_samples", "self._sequence_index += nb_samples - 1", "R1")
add("C13", "fire", "start shifted by one", "black_it/samplers/halton.py", "n_start=self._sequence_index,", "n_start=self._sequence_index + 1,", "R1")
add("C13", "fire", "r cursor never written", "black_it/samplers/r_sequence.py", "        self._sequence_index = end_index\n", "", "R1")
add("C13", "fire", "alpha exponents from 0", "black_it/samplers/r_sequence.py", "np.arange(1, dims + 1)", "np.arange(0, dims)", "R4")
add("C13", "silent", "r cursor via local start", "black_it/samplers/r_sequence.py",
    "        end_index = self._sequence_index + nb_samples\n        indexes = np.arange(self._sequence_index, end_index).reshape((-1, 1))",
    "        start = self._sequence_index\n        indexes = np.arange(start, start + nb_samples).reshape((-1, 1))\n        end_index = start + nb_samples")
add("C13", "silent", "halton cursor spelled out", "black_it/samplers/halton.py", "self._sequence_index += nb_samples", "self._sequence_index = self._sequence_index + nb_samples")
# ------------------------------------------------------------------------------------------------ C14
add("C14", "fire", "break depends on verbose", CAL, "                    if converged:\n                        if self.verbose:", "                    if converged and self.verbose:\n                        if self.verbose:", "R1")
add("C14", "fire", "checkpoint call removed", CAL, "                if self.saving_folder is not None:\n                    self.create_checkpoint(self.saving_folder)\n\n                # check convergence",
    "                # check convergence", "R4")
add("C14", "fire", "checkpoint only when not converged", CAL, "                if self.saving_folder is not None:\n                    self.create_checkpoint(self.saving_folder)\n\n                # check convergence",
    "                if self.saving_folder is not None and self.convergence_precision is None:\n                    self.create_checkpoint(self.saving_folder)\n\n                # check convergence", "R4")
add("C14", "fire", "strict comparison instead of rounding", CAL, "np.round(np.min(losses_samp[:n_sampled_params]), convergence_precision) == 0", "np.min(losses_samp[:n_sampled_params]) == 0", "R3")
add("C14", "silent", "convergence test inline", CAL, "                    converged = self.check_convergence(\n                        self.losses_samp,\n                        self.n_sampled_params,\n                        self.convergence_precision,\n                    )\n                    if converged:",
    "                    if self.check_convergence(\n                        self.losses_samp,\n                        self.n_sampled_params,\n                        self.convergence_precision,\n                    ):")
add("C14", "silent", "rename converged", CAL, "converged", "has_converged")
# ------------------------------------------------------------------------------------------------ C15
add("C15", "fire", "equal-bounds check widened", "black_it/search_space.py", "if lower_bound == upper_bound:", "if lower_bound >= upper_bound:", "R1")
add("C15", "fire", "range check not strict", "black_it/search_space.py", "if precision > (upper_bound - lower_bound):", "if precision >= (upper_bound - lower_bound):", "R1")
add("C15", "fire", "payload swapped", "black_it/search_space.py", "raise LowerBoundGreaterThanUpperBoundError(i, lower_bound, upper_bound)", "raise LowerBoundGreaterThanUpperBoundError(i, upper_bound, lower_bound)", "R2")
add("C15", "fire", "slack dropped", "black_it/search_space.py", "parameters_bounds[1][i] + 0.0000001", "parameters_bounds[1][i]", "R3")
add("C15", "silent", "length compared with the other sub-list", "black_it/search_space.py", "if len(parameters_precision) != len(parameters_bounds[0]):", "if len(parameters_precision) != len(parameters_bounds[1]):")
add("C15", "silent", "negated equality for the pair test", "black_it/search_space.py", "if len(parameters_bounds) != 2:  # noqa: PLR2004", "if not len(parameters_bounds) == 2:  # noqa: PLR2004")
# ------------------------------------------------------------------------------------------------ C16
add("C16", "fire", "in-place normalisation of losses", "black_it/samplers/cors.py", "current_losses = existing_losses / fmax", "existing_losses /= fmax; current_losses = existing_losses", "R1")
add("C16", "fire", "gp centres y in place", "black_it/samplers/gaussian_process.py", "y = np.atleast_2d(y).T", "y = np.atleast_2d(y).T; y -= y.mean()", "R1")
add("C16", "fire", "worst instead of best candidates", "black_it/samplers/surrogate.py", "[:batch_size]", "[-batch_size:]", "R2")
add("C16", "fire", "shock size from zero", "black_it/samplers/best_batch.py", "1,\n                    self.perturbation_range,", "0,\n                    self.perturbation_range,", "R3")
add("C16", "silent", "copy before clipping kept", "black_it/samplers/xgboost.py", "y = np.copy(y)", "y = y.copy()")
add("C16", "silent", "rename pool", "black_it/samplers/surrogate.py", "candidates", "pool")
# ------------------------------------------------------------------------------------------------ C17
add("C17", "fire", "end mask removed", "black_it/utils/base.py", "(idxs == len(sorted_array)) | (", "(", "R3")
add("C17", "fire", "lower clamp removed", "black_it/utils/base.py", "np.maximum(idxs - 1, 0)", "idxs - 1", "R3")
add("C17", "fire", "first grid for every column", "black_it/utils/base.py", "get_closest(param_grid[i], data[:, i])", "get_closest(param_grid[0], data[:, i])", "R2")
add("C17", "fire", "returns the values", "black_it/utils/base.py", "return sorted_array[idxs]", "return values", "R1")
add("C17", "silent", "rename idxs", "black_it/utils/base.py", "idxs", "positions")
DD_OLD = '    for i in range(data.shape[1]):\n        digitalized_data[:, i] = get_closest(param_grid[i], data[:, i])\n'
add("C17", "silent", "digitize: enumerate over the grids", "black_it/utils/base.py", DD_OLD,
    "    for i, grid in enumerate(param_grid):\n        digitalized_data[:, i] = get_closest(grid, data[:, i])\n")
add("C17", "silent", "digitize: zip over grids and columns", "black_it/utils/base.py", DD_OLD,
    "    for i, (grid, column) in enumerate(zip(param_grid, data.T)):\n        digitalized_data[:, i] = get_closest(grid, column)\n")
add("C17", "silent", "digitize: local for the column", "black_it/utils/base.py", DD_OLD,
    "    for i in range(len(param_grid)):\n        column = data[:, i]\n        digitalized_data[:, i] = get_closest(param_grid[i], column)\n")
add("C17", "silent", "digitize: column_stack of a comprehension", "black_it/utils/base.py",
    DD_OLD + "\n    return digitalized_data\n",
    "    return np.column_stack([get_closest(grid, column) for grid, column in zip(param_grid, data.T)])\n")
add("C17", "fire", "digitize: enumerate with shifted grid", "black_it/utils/base.py", DD_OLD,
    "    for i, grid in enumerate(param_grid):\n        digitalized_data[:, i] = get_closest(grid, data[:, i - 1])\n", "R2")
add("C17", "fire", "digitize: zip pairs grids with rows", "black_it/utils/base.py", DD_OLD,
    "    for i, (grid, column) in enumerate(zip(param_grid, data)):\n        digitalized_data[:, i] = get_closest(grid, column)\n", "R2")
add("C17", "fire", "digitize: loop skips the last column", "black_it/utils/base.py", DD_OLD,
    "    for i in range(data.shape[1] - 1):\n        digitalized_data[:, i] = get_closest(param_grid[i], data[:, i])\n", "R2")
# ------------------------------------------------------------------------------------------------ C18
add("C18", "fire", "table rebuilt on set_samplers", CAL, "        self.update_samplers_id_table(samplers)\n", "        self.samplers_id_table = self._construct_samplers_id_table(list(samplers))\n", "R1")
add("C18", "fire", "next id is table size", CAL, "sampler_id = max(self.samplers_id_table.values()) + 1", "sampler_id = len(self.samplers_id_table) - 1", "R1")
add("C18", "silent", "other local name for the class name", CAL, "            sampler_name = type(sampler).__name__\n            if sampler_name in self.samplers_id_table:\n                continue\n\n            self.samplers_id_table[sampler_name] = sampler_id",
    "            cls_name = type(sampler).__name__\n            if cls_name in self.samplers_id_table:\n                continue\n\n            self.samplers_id_table[cls_name] = sampler_id")
# ------------------------------------------------------------------------------------------------ C19
add("C19", "fire", "explore on equality", "black_it/schedulers/rl/agents/epsilon_greedy.py", "if not random_e < self.eps:", "if not random_e <= self.eps:", "R3")
add("C19", "fire", "update sign flipped", "black_it/schedulers/rl/agents/epsilon_greedy.py", "(cast(float, reward) - self.Q[action])", "(self.Q[action] - cast(float, reward))", "R2")
add("C19", "fire", "reference overwritten first", "black_it/schedulers/rl/envs/mab.py",
    "            reward = (self._curr_best_loss - best_loss) / self._curr_best_loss\n            self._curr_best_loss = best_loss",
    "            self._curr_best_loss = best_loss\n            reward = (self._curr_best_loss - best_loss) / self._curr_best_loss", "R1")
add("C19", "fire", "count incremented after", "black_it/schedulers/rl/agents/epsilon_greedy.py", "        self.actions_count[action] += 1\n\n        step_size = self.get_step_size(action)",
    "        step_size = self.get_step_size(action)\n        self.actions_count[action] += 1", "R2")
add("C19", "silent", "greedy test as >=", "black_it/schedulers/rl/agents/epsilon_greedy.py", "if not random_e < self.eps:", "if random_e >= self.eps:")
add("C19", "silent", "reward regrouped", "black_it/schedulers/rl/envs/mab.py", "(self._curr_best_loss - best_loss) / self._curr_best_loss", "1 - best_loss / self._curr_best_loss")
# ------------------------------------------------------------------------------------------------ C20
add("C20", "fire", "trend and cycle swapped", "black_it/utils/time_series.py", "return cycle, trend", "return trend, cycle", "R1")
add("C20", "fire", "log filter uses the cycle", "black_it/utils/time_series.py", "hp_filter(np.log(time_series), lamb=1600)[1]", "hp_filter(np.log(time_series), lamb=1600)[0]", "R2")
add("C20", "fire", "nan_to_num on a discarded copy", "black_it/utils/time_series.py", "np.nan_to_num(avg_vec_mom, copy=False)", "np.nan_to_num(avg_vec_mom)", "R3")
add("C20", "fire", "second difference sign", "black_it/utils/time_series.py", "[[1.0], [-2.0], [1.0]]", "[[1.0], [2.0], [1.0]]", "R4")
add("C20", "silent", "nan_to_num result returned", "black_it/utils/time_series.py", "    np.nan_to_num(avg_vec_mom, copy=False)\n\n    return avg_vec_mom", "    return np.nan_to_num(avg_vec_mom)")
add("C20", "silent", "rename trend", "black_it/utils/time_series.py", "trend", "smooth")
