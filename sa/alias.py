"""Interprocedural alias ("lent array") analysis with in-place-mutation sinks.

A *role* tags memory the caller still owns (the calibrator's history arrays, a loss function's
inputs).  Roles enter at seeded parameters / attributes, flow through numpy *views* (basic
indexing, `.T`, `reshape`, `atleast_2d`, iteration over rows, `cast`, tuple packing, ...),
through resolved repository calls (arguments -> parameters, returned aliases back) and through
`self.attr` stores (class-level, flow-insensitive).  Copies (`np.copy`, arithmetic, advanced
indexing, `vstack`, ...) drop the role.  A finding is any in-place write through a value that
still carries a role.  Intra-procedurally the analysis is flow-sensitive over the CFG, so
`y = np.copy(y); y[i] = 0` is clean while `y[i] = 0` alone is not.
"""
from __future__ import annotations

import ast
from dataclasses import dataclass, field

from .cfg import CFG, Node
from .model import ClassInfo, FuncInfo, Program, dotted, mangle, src, walk_scope

VIEW_FUNCS = {
    "numpy.asarray", "numpy.asanyarray", "numpy.ascontiguousarray", "numpy.asfortranarray", "numpy.atleast_1d",
    "numpy.atleast_2d", "numpy.atleast_3d", "numpy.ravel", "numpy.reshape", "numpy.transpose", "numpy.squeeze",
    "numpy.expand_dims", "numpy.swapaxes", "numpy.moveaxis", "numpy.rollaxis", "numpy.broadcast_to", "numpy.diagonal",
    "numpy.split", "numpy.array_split", "numpy.hsplit", "numpy.vsplit", "numpy.flip", "numpy.flipud", "numpy.fliplr",
    "numpy.real", "numpy.imag", "numpy.lib.stride_tricks.as_strided", "numpy.lib.stride_tricks.sliding_window_view",
    "numpy.asmatrix", "numpy.require", "typing.cast", "cast", "zip", "enumerate", "reversed", "iter", "list", "tuple", "next",
    "numpy.nditer", "memoryview", "numpy.frombuffer",
}
VIEW_METHODS = {"reshape", "ravel", "view", "transpose", "squeeze", "swapaxes", "diagonal", "__getitem__", "values", "items"}
VIEW_ATTRS = {"T", "real", "imag", "flat", "base", "mT"}
INPLACE_METHODS = {"sort", "fill", "put", "resize", "itemset", "partition", "setfield", "byteswap", "append", "extend",
                   "insert", "pop", "remove", "clear", "reverse", "update", "setdefault", "popitem", "__setitem__", "__iadd__"}
#: function -> index of the argument that is modified in place
INPLACE_FUNCS = {
    "numpy.copyto": 0, "numpy.put": 0, "numpy.place": 0, "numpy.putmask": 0, "numpy.fill_diagonal": 0,
    "numpy.put_along_axis": 0, "numpy.random.shuffle": 0, "numpy.ndarray.sort": 0, "random.shuffle": 0,
}
SHUFFLE_METHODS = {"shuffle"}
ADVANCED_INDEX_FUNCS = {"argsort", "where", "nonzero", "argwhere", "flatnonzero", "arange", "array", "unique", "isnan",
                        "isfinite", "isinf", "logical_and", "logical_or", "logical_not", "permutation", "lexsort", "argpartition"}


@dataclass
class MutationFinding:
    role: str
    func: FuncInfo
    node: ast.AST
    what: str
    chain: list[str] = field(default_factory=list)


class AliasAnalysis:
    def __init__(self, prog: Program, param_seeds: dict[tuple[str, str], set[str]],
                 attr_seeds: dict[tuple[str, str], set[str]] | None = None,
                 scope: list[FuncInfo] | None = None) -> None:
        self.prog = prog
        self.param_tags: dict[tuple[str, str], set[str]] = {k: set(v) for k, v in param_seeds.items()}
        self.attr_tags: dict[tuple[str, str], set[str]] = {k: set(v) for k, v in (attr_seeds or {}).items()}
        self.ret_tags: dict[str, set[str]] = {}
        self.why: dict[tuple[str, str, str], str] = {}
        self.findings: dict[tuple[str, str, str], MutationFinding] = {}
        self.external_receivers: dict[str, set[str]] = {}
        self.funcs = scope if scope is not None else prog.all_functions()
        self.analysed: set[str] = set()
        self._cfgs: dict[str, CFG] = {}
        self._changed = True

    # ------------------------------------------------------------------ driver
    def run(self, max_rounds: int = 12) -> "AliasAnalysis":
        rounds = 0
        while self._changed and rounds < max_rounds:
            self._changed = False
            rounds += 1
            for f in self.funcs:
                if self._relevant(f):
                    self._analyse(f)
        self.rounds = rounds
        return self

    def _relevant(self, f: FuncInfo) -> bool:
        if any((f.qualname, p) in self.param_tags and self.param_tags[(f.qualname, p)] for p in [*f.params, *f.kwonly]):
            return True
        if f.cls is not None and f.self_name:
            for c in self.prog.mro(f.cls):
                if any(k[0] == c.name and v for k, v in self.attr_tags.items()):
                    return True
        return False

    def _cfg(self, f: FuncInfo) -> CFG:
        if f.qualname not in self._cfgs:
            self._cfgs[f.qualname] = CFG(f.node)
        return self._cfgs[f.qualname]

    # ------------------------------------------------------------------ tags helpers
    def _add_param(self, callee: FuncInfo, param: str, roles: set[str], reason: str) -> None:
        if not roles:
            return
        cur = self.param_tags.setdefault((callee.qualname, param), set())
        new = roles - cur
        if new:
            cur |= new
            self._changed = True
            for r in new:
                self.why.setdefault((callee.qualname, param, r), reason)

    def _add_attr(self, cls: ClassInfo, attr: str, roles: set[str], reason: str) -> None:
        if not roles:
            return
        cur = self.attr_tags.setdefault((cls.name, attr), set())
        new = roles - cur
        if new:
            cur |= new
            self._changed = True
            for r in new:
                self.why.setdefault((f"{cls.name}.{attr}", "", r), reason)

    def _attr_roles(self, f: FuncInfo, attr: str) -> set[str]:
        if f.cls is None:
            return set()
        out: set[str] = set()
        for c in [*self.prog.mro(f.cls), *self.prog.subclasses(f.cls, strict=True)]:
            out |= self.attr_tags.get((c.name, mangle(c.name, attr)), set())
            out |= self.attr_tags.get((c.name, attr), set())
        # property getter returning self._x
        g = self.prog.lookup_getter(f.cls, attr)
        if g is not None:
            out |= self.ret_tags.get(g.qualname, set())
        return out

    # ------------------------------------------------------------------ intra-procedural
    def _analyse(self, f: FuncInfo) -> None:
        self.analysed.add(f.qualname)
        g = self._cfg(f)
        entry: dict[str, frozenset[str]] = {}
        for p in [*f.params, *f.kwonly]:
            t = self.param_tags.get((f.qualname, p))
            if t:
                entry[p] = frozenset(t)
        instate: dict[Node, dict[str, frozenset[str]]] = {g.entry: entry}
        work = [g.entry]
        visits: dict[Node, int] = {}
        while work:
            n = work.pop()
            visits[n] = visits.get(n, 0) + 1
            if visits[n] > 40:
                continue
            st = dict(instate.get(n, {}))
            self._transfer(f, n, st)
            for t, lab in n.succ:
                old = instate.get(t)
                if old is None:
                    instate[t] = dict(st)
                    work.append(t)
                else:
                    merged = dict(old)
                    ch = False
                    for k, v in st.items():
                        nv = merged.get(k, frozenset()) | v
                        if nv != merged.get(k, frozenset()):
                            merged[k] = nv
                            ch = True
                    if ch:
                        instate[t] = merged
                        work.append(t)

    def _transfer(self, f: FuncInfo, n: Node, st: dict[str, frozenset[str]]) -> None:
        a = n.ast
        if a is None:
            return
        if n.kind == "for":
            stmt = n.stmt
            self._scan(f, stmt.iter, st)  # type: ignore[union-attr]
            self._bind_iter(f, stmt.target, stmt.iter, st)  # type: ignore[union-attr]
            return
        if n.kind in ("test", "with"):
            self._scan(f, a, st)
            if n.kind == "with":
                for item in n.stmt.items:  # type: ignore[union-attr]
                    if item.context_expr is a and item.optional_vars is not None:
                        self._bind(f, item.optional_vars, set(), st, None)
            return
        if n.kind == "handler":
            return
        s = a
        if isinstance(s, ast.Assign):
            self._scan(f, s.value, st)
            roles = self._roles(f, s.value, st)
            for t in s.targets:
                self._store(f, t, roles, st, s, s.value)
            return
        if isinstance(s, ast.AnnAssign):
            if s.value is not None:
                self._scan(f, s.value, st)
                self._store(f, s.target, self._roles(f, s.value, st), st, s, s.value)
            return
        if isinstance(s, ast.AugAssign):
            self._scan(f, s.value, st)
            tgt = s.target
            if isinstance(tgt, ast.Subscript):
                self._sink(f, tgt.value, st, s, f"in-place `{src(s)}`")
            else:
                self._sink(f, tgt, st, s, f"in-place `{src(s)}` (augmented assignment mutates an array operand)")
            return
        if isinstance(s, ast.Delete):
            for t in s.targets:
                if isinstance(t, ast.Subscript):
                    self._sink(f, t.value, st, s, f"`{src(s)}`")
            return
        if isinstance(s, ast.Return):
            if s.value is not None:
                self._scan(f, s.value, st)
                roles = self._roles(f, s.value, st)
                cur = self.ret_tags.setdefault(f.qualname, set())
                if roles - cur:
                    cur |= roles
                    self._changed = True
            return
        if isinstance(s, ast.Expr):
            self._scan(f, s.value, st)
            return
        if isinstance(s, (ast.FunctionDef, ast.AsyncFunctionDef)):
            # closure: its body sees the variables of the enclosing scope as they are now
            inner = dict(st)
            for p in [*s.args.posonlyargs, *s.args.args, *s.args.kwonlyargs]:
                inner.pop(p.arg, None)
            for stmt in s.body:
                for sub in ast.walk(stmt):
                    if isinstance(sub, ast.expr) and isinstance(getattr(sub, "_parent", None), ast.stmt):
                        self._scan(f, sub, inner)
                    if isinstance(sub, (ast.Assign, ast.AugAssign)):
                        tg = sub.targets[0] if isinstance(sub, ast.Assign) else sub.target
                        if isinstance(tg, ast.Subscript):
                            self._sink(f, tg.value, inner, sub, f"in-place `{src(sub)}` inside closure {s.name}")
            return
        if isinstance(s, (ast.Raise, ast.Assert)):
            for sub in ast.iter_child_nodes(s):
                if isinstance(sub, ast.expr):
                    self._scan(f, sub, st)

    # ------------------------------------------------------------------ stores
    def _store(self, f: FuncInfo, t: ast.expr, roles: set[str], st: dict[str, frozenset[str]], stmt: ast.stmt, value: ast.expr | None) -> None:
        if isinstance(t, (ast.Tuple, ast.List)):
            if isinstance(value, (ast.Tuple, ast.List)) and len(value.elts) == len(t.elts):
                for sub, v in zip(t.elts, value.elts):
                    self._store(f, sub, self._roles(f, v, st), st, stmt, v)
            else:
                for sub in t.elts:
                    self._store(f, sub.value if isinstance(sub, ast.Starred) else sub, roles, st, stmt, None)
            return
        if isinstance(t, ast.Name):
            st[t.id] = frozenset(roles)
            return
        if isinstance(t, ast.Subscript):
            self._sink(f, t.value, st, stmt, f"subscript store `{src(stmt).splitlines()[0][:100]}`")
            return
        if isinstance(t, ast.Attribute):
            if isinstance(t.value, ast.Name) and t.value.id == f.self_name and f.cls is not None:
                self._add_attr(f.cls, mangle(f.cls.name, t.attr), roles, f"{f.qualname}: `{src(stmt).splitlines()[0][:90]}`")
                st[f"{f.self_name}.{t.attr}"] = frozenset(roles)
                return
            # x.shape = ... / x.flags.writeable = ... on a lent array changes the caller's object
            base = t.value
            while isinstance(base, ast.Attribute):
                base = base.value
            if t.attr in ("shape", "dtype", "strides", "writeable") or isinstance(t.value, ast.Attribute):
                self._sink(f, base, st, stmt, f"attribute store `{src(stmt).splitlines()[0][:90]}` changes the lent array object")
            else:
                # storing an alias into another object's attribute: remember it on that object's class
                c = self.prog.expr_class(f, t.value)
                if c is not None:
                    self._add_attr(c, mangle(c.name, t.attr), roles, f"{f.qualname}: `{src(stmt).splitlines()[0][:90]}`")

    def _bind_iter(self, f: FuncInfo, target: ast.expr, it: ast.expr, st: dict[str, frozenset[str]]) -> None:
        """Bind a loop/comprehension target from its iterable: rows of an array are views of it."""
        if isinstance(it, ast.Call) and isinstance(target, (ast.Tuple, ast.List)):
            name = dotted(it.func)
            if name == "enumerate" and len(target.elts) == 2 and it.args:
                self._bind(f, target.elts[0], set(), st, None)
                self._bind_iter(f, target.elts[1], it.args[0], st)
                return
            if name == "zip" and len(target.elts) == len(it.args):
                for sub, a in zip(target.elts, it.args):
                    self._bind_iter(f, sub, a, st)
                return
        if isinstance(it, ast.Call) and dotted(it.func) == "range":
            self._bind(f, target, set(), st, None)
            return
        self._bind(f, target, self._roles(f, it, st), st, None)

    def _bind(self, f: FuncInfo, target: ast.expr, roles: set[str], st: dict[str, frozenset[str]], stmt: ast.stmt | None) -> None:
        for n in ast.walk(target):
            if isinstance(n, ast.Name):
                st[n.id] = frozenset(roles)

    # ------------------------------------------------------------------ sinks
    def _sink(self, f: FuncInfo, base: ast.expr, st: dict[str, frozenset[str]], node: ast.AST, what: str) -> None:
        roles = self._roles(f, base, st)
        for r in roles:
            key = (r, f.qualname, " ".join(src(node).split())[:120])
            if key not in self.findings:
                self.findings[key] = MutationFinding(r, f, node, what, self.chain(f, base, r, st))

    def chain(self, f: FuncInfo, base: ast.expr, role: str, st: dict[str, frozenset[str]]) -> list[str]:
        out = [f"{f.qualname}: `{src(base)}` carries {role}"]
        seen = set()
        cur = f.qualname
        # walk parameter provenance backwards
        for _ in range(8):
            hit = None
            for (q, p, r), reason in self.why.items():
                if q == cur and r == role and (q, p) not in seen:
                    hit = (q, p, reason)
                    break
            if hit is None:
                break
            seen.add((hit[0], hit[1]))
            out.append(f"parameter {hit[1]} of {hit[0]} <- {hit[2]}")
            cur = hit[2].split(": `")[0]
        return out

    # ------------------------------------------------------------------ expression semantics
    def _index_is_advanced(self, f: FuncInfo, idx: ast.expr, depth: int = 0) -> bool:
        """True iff the index certainly produces a copy (integer/boolean *array* index)."""
        if isinstance(idx, ast.Tuple):
            return any(self._index_is_advanced(f, e, depth) for e in idx.elts)
        if isinstance(idx, (ast.List, ast.ListComp, ast.Compare)):
            return True
        if isinstance(idx, ast.UnaryOp) and isinstance(idx.op, ast.Invert):
            return True
        if isinstance(idx, ast.BinOp) and isinstance(idx.op, (ast.BitAnd, ast.BitOr)):
            return True
        if isinstance(idx, ast.Subscript):
            # np.where(...)[0]
            return self._index_is_advanced(f, idx.value, depth)
        if isinstance(idx, ast.Call):
            name = (dotted(idx.func) or (idx.func.attr if isinstance(idx.func, ast.Attribute) else "")).split(".")[-1]
            if name in ADVANCED_INDEX_FUNCS:
                return True
            if name in ("integers", "choice", "randint"):
                return any(k.arg == "size" for k in idx.keywords) or (name == "choice" and len(idx.args) >= 2) or (name == "integers" and len(idx.args) >= 3)
            if name == "cast" and len(idx.args) == 2:
                return self._index_is_advanced(f, idx.args[1], depth)
            return False
        if isinstance(idx, ast.Name) and depth < 4:
            defs = []
            for n in walk_scope(f.node):
                if isinstance(n, ast.Assign) and any(isinstance(t, ast.Name) and t.id == idx.id for t in n.targets):
                    defs.append(n.value)
                elif isinstance(n, ast.AnnAssign) and isinstance(n.target, ast.Name) and n.target.id == idx.id and n.value is not None:
                    defs.append(n.value)
                elif isinstance(n, (ast.For, ast.comprehension)) and any(isinstance(x, ast.Name) and x.id == idx.id for x in ast.walk(n.target)):
                    return False
            return bool(defs) and all(self._index_is_advanced(f, d, depth + 1) for d in defs)
        return False

    def _roles(self, f: FuncInfo, e: ast.expr | None, st: dict[str, frozenset[str]]) -> set[str]:
        if e is None:
            return set()
        if isinstance(e, ast.Name):
            return set(st.get(e.id, frozenset()))
        if isinstance(e, ast.Attribute):
            if isinstance(e.value, ast.Name) and e.value.id == f.self_name:
                key = f"{f.self_name}.{e.attr}"
                local = set(st.get(key, frozenset()))
                return local | self._attr_roles(f, e.attr)
            if e.attr in VIEW_ATTRS:
                return self._roles(f, e.value, st)
            # attribute of another repository object
            c = self.prog.expr_class(f, e.value)
            if c is not None:
                out: set[str] = set()
                for k in self.prog.mro(c):
                    out |= self.attr_tags.get((k.name, mangle(k.name, e.attr)), set())
                g = self.prog.lookup_getter(c, e.attr)
                if g is not None:
                    out |= self.ret_tags.get(g.qualname, set())
                return out
            return set()
        if isinstance(e, ast.Subscript):
            base = self._roles(f, e.value, st)
            if not base:
                return set()
            if self._index_is_advanced(f, e.slice):
                return set()
            return base
        if isinstance(e, ast.Starred):
            return self._roles(f, e.value, st)
        if isinstance(e, (ast.Tuple, ast.List, ast.Set)):
            out = set()
            for x in e.elts:
                out |= self._roles(f, x, st)
            return out
        if isinstance(e, ast.Dict):
            out = set()
            for x in e.values:
                out |= self._roles(f, x, st)
            return out
        if isinstance(e, ast.IfExp):
            return self._roles(f, e.body, st) | self._roles(f, e.orelse, st)
        if isinstance(e, ast.BoolOp):
            out = set()
            for x in e.values:
                out |= self._roles(f, x, st)
            return out
        if isinstance(e, ast.NamedExpr):
            r = self._roles(f, e.value, st)
            st[e.target.id] = frozenset(r)
            return r
        if isinstance(e, (ast.ListComp, ast.GeneratorExp, ast.SetComp)):
            inner = dict(st)
            for gen in e.generators:
                self._bind_iter(f, gen.target, gen.iter, inner)
            return self._roles(f, e.elt, inner)
        if isinstance(e, ast.Call):
            return self._call_roles(f, e, st)
        return set()

    def _call_roles(self, f: FuncInfo, e: ast.Call, st: dict[str, frozenset[str]]) -> set[str]:
        fn = e.func
        d = dotted(fn)
        q = self.prog.qualify(f.module, d) if d else None
        targets = [t for t in self.prog.resolve_call(f, e) if isinstance(t, FuncInfo)]
        if targets:
            out: set[str] = set()
            for t in targets:
                if t.name == "__init__":
                    continue
                out |= self.ret_tags.get(t.qualname, set())
            return out
        if q in VIEW_FUNCS:
            out = set()
            args = e.args[1:] if q in ("typing.cast", "cast") else e.args
            for a in args:
                out |= self._roles(f, a, st)
            return out
        if q == "numpy.array":
            cp = [k.value for k in e.keywords if k.arg == "copy"]
            if cp and isinstance(cp[0], ast.Constant) and cp[0].value is False and e.args:
                return self._roles(f, e.args[0], st)
            return set()
        if q == "numpy.nan_to_num":
            cp = [k.value for k in e.keywords if k.arg == "copy"]
            if cp and isinstance(cp[0], ast.Constant) and cp[0].value is False and e.args:
                return self._roles(f, e.args[0], st)
            return set()
        for k in e.keywords:
            if k.arg == "out":
                return self._roles(f, k.value, st)
        if isinstance(fn, ast.Attribute) and fn.attr in VIEW_METHODS:
            return self._roles(f, fn.value, st)
        return set()

    # ------------------------------------------------------------------ scanning calls: argument binding and call sinks
    def _scan(self, f: FuncInfo, e: ast.expr, st: dict[str, frozenset[str]]) -> None:
        inner = st
        for n in _walk_expr(e):
            if isinstance(n, (ast.ListComp, ast.GeneratorExp, ast.SetComp, ast.DictComp)):
                inner = dict(inner)
                for gen in n.generators:
                    self._bind_iter(f, gen.target, gen.iter, inner)
            if isinstance(n, ast.Lambda):
                continue
            if not isinstance(n, ast.Call):
                continue
            self._scan_call(f, n, inner)

    def _scan_call(self, f: FuncInfo, c: ast.Call, st: dict[str, frozenset[str]]) -> None:
        fn = c.func
        d = dotted(fn)
        q = self.prog.qualify(f.module, d) if d else None
        # in-place methods on a lent value
        if isinstance(fn, ast.Attribute):
            if fn.attr in INPLACE_METHODS:
                self._sink(f, fn.value, st, c, f"in-place method `{src(c)[:90]}`")
            if fn.attr in SHUFFLE_METHODS and c.args:
                self._sink(f, c.args[0], st, c, f"in-place shuffle `{src(c)[:90]}`")
            if fn.attr == "clip":
                pass
        for k in c.keywords:
            if k.arg == "out":
                self._sink(f, k.value, st, c, f"`out=` argument of `{src(c)[:90]}`")
            if k.arg == "copy" and isinstance(k.value, ast.Constant) and k.value.value is False and q in ("numpy.nan_to_num",) and c.args:
                self._sink(f, c.args[0], st, c, f"`{src(c)[:90]}` rewrites its argument in place")
            if k.arg == "inplace" and isinstance(k.value, ast.Constant) and k.value.value is True:
                if isinstance(fn, ast.Attribute):
                    self._sink(f, fn.value, st, c, f"`{src(c)[:90]}` with inplace=True")
        if q in INPLACE_FUNCS and len(c.args) > INPLACE_FUNCS[q]:
            self._sink(f, c.args[INPLACE_FUNCS[q]], st, c, f"`{src(c)[:90]}` writes into its argument")
        # argument binding into repository callees
        targets = [t for t in self.prog.resolve_call(f, c) if isinstance(t, FuncInfo)]
        if targets:
            for t in targets:
                params = list(t.bound_params)
                # explicit Class.method(self, ...) call form
                if t.cls is not None and not t.is_static and not t.is_classmethod and isinstance(fn, ast.Attribute):
                    recv_cls = self.prog.class_of_name(f.module, dotted(fn.value) or "") if dotted(fn.value) else None
                    if recv_cls is not None and not (isinstance(fn.value, ast.Name) and fn.value.id == f.self_name):
                        params = list(t.params)
                for i, a in enumerate(c.args):
                    if isinstance(a, ast.Starred):
                        break
                    if i < len(params):
                        self._add_param(t, params[i], self._roles(f, a, st), f"{f.qualname}: `{src(c)[:80]}`")
                for k in c.keywords:
                    if k.arg and (k.arg in params or k.arg in t.kwonly):
                        self._add_param(t, k.arg, self._roles(f, k.value, st), f"{f.qualname}: `{src(c)[:80]}`")
        else:
            name = q or (f"<expr>.{fn.attr}" if isinstance(fn, ast.Attribute) else src(fn))
            got = set()
            for a in [*c.args, *[k.value for k in c.keywords]]:
                got |= self._roles(f, a, st)
            if isinstance(fn, ast.Attribute) and fn.attr not in VIEW_METHODS:
                got |= self._roles(f, fn.value, st) if fn.attr not in INPLACE_METHODS else set()
            if got:
                self.external_receivers.setdefault(name, set()).update(got)


def _walk_expr(e: ast.AST):
    """Pre-order walk that does not descend into lambdas."""
    stack = [e]
    while stack:
        n = stack.pop()
        yield n
        if isinstance(n, ast.Lambda):
            continue
        stack.extend(reversed(list(ast.iter_child_nodes(n))))
