"""Exceptions used by the engine."""


class AnalysisError(Exception):
    """The analysis itself cannot be carried out (vanished anchor, unparsable file, vacuous rule).

    Reported as `ANALYSIS-ERROR: ...` with exit code 2 -- never as a pass and never as a VIOLATION.
    """
