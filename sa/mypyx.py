"""Cross-check of the engine's call resolution against mypy's resolved program (thorough tier only).

mypy (as shipped in the repository's own environment, /venv) is used as a library with
`preserve_asts` / `export_types`; for every call expression of `black_it` it yields the callee's
full name (from the reference or from the callable type's definition).  The engine's
class-hierarchy resolution must contain mypy's static callee for every call edge a rule relied on;
a disagreement is an ANALYSIS-ERROR (the resolution is broken), never a verdict.  mypy is a
cross-check of the resolution, not the deciding step.
"""
from __future__ import annotations

import ast
import json
import subprocess
import sys

STRUCTURAL = (
    "defs", "body", "else_body", "expr", "rvalue", "lvalues", "lvalue", "args", "callee", "cond", "handlers", "finally_body", "items", "left", "right",
    "operands", "base", "index", "func", "decorators", "target", "generator", "left_expr", "sequences", "condlists", "indices", "if_expr", "else_expr",
    "begin_index", "end_index", "stride", "value", "from_expr", "msg", "key", "vars", "arguments", "initializer", "original_decorators",
)

_WORKER = r'''
import json, os, sys
from mypy import build
from mypy.options import Options
from mypy.find_sources import create_source_list
from mypy.nodes import CallExpr, Node, MypyFile
from mypy.types import CallableType, get_proper_type
STRUCTURAL = %r
os.chdir(sys.argv[1])
o = Options(); o.preserve_asts = True; o.export_types = True; o.incremental = False; o.cache_dir = os.devnull
o.ignore_missing_imports = True; o.follow_imports = "silent"
res = build.build(create_source_list(["black_it"], o), o)
out = {"errors": len(res.errors), "calls": {}}
def children(n):
    for name in STRUCTURAL:
        try:
            v = getattr(n, name)
        except Exception:
            continue
        if isinstance(v, Node):
            yield v
        elif isinstance(v, (list, tuple)):
            for x in v:
                if isinstance(x, Node):
                    yield x
                elif isinstance(x, (list, tuple)):
                    for y in x:
                        if isinstance(y, Node):
                            yield y
                elif x is not None and hasattr(x, "initializer"):
                    if isinstance(x.initializer, Node):
                        yield x.initializer
for modname, f in res.files.items():
    if not modname.startswith("black_it"):
        continue
    seen = set(); stack = [f]
    while stack:
        n = stack.pop()
        if id(n) in seen or (isinstance(n, MypyFile) and n is not f):
            continue
        seen.add(id(n))
        if isinstance(n, CallExpr) and n.line > 0:
            c = n.callee
            full = getattr(c, "fullname", None) or None
            ty = res.types.get(c)
            ty = get_proper_type(ty) if ty is not None else None
            d = None
            if isinstance(ty, CallableType) and ty.definition is not None:
                d = getattr(ty.definition, "fullname", None)
            out["calls"]["%%s:%%d:%%d:%%s:%%s" %% (modname, n.line, n.column, n.end_line, n.end_column)] = [full, d]
        stack.extend(children(n))
sys.stdout.write(json.dumps(out))
sys.stdout.flush()
os._exit(0)
''' % (STRUCTURAL,)


def mypy_call_table(repo: str = "/repo", timeout: int = 300) -> dict:
    """Run mypy in a child process (its teardown is slow and it must not pollute the checker's process)."""
    r = subprocess.run([sys.executable, "-c", _WORKER, repo], capture_output=True, text=True, timeout=timeout)
    if r.returncode != 0 or not r.stdout.startswith("{"):
        raise RuntimeError(f"mypy worker failed: {r.stderr[-400:]}")
    return json.loads(r.stdout)


def cross_check(prog, functions: list[str], table: dict) -> dict:
    """Compare the engine's resolution with mypy's for every call in `functions` that the engine resolved to repository code."""
    from .model import FuncInfo
    agree = disagree = unresolved_by_mypy = 0
    problems = []
    for q in functions:
        if q not in prog.funcs:
            continue
        f = prog.funcs[q]
        for c in ast.walk(f.node):
            if not isinstance(c, ast.Call):
                continue
            targets = [t for t in prog.resolve_call(f, c) if isinstance(t, FuncInfo)]
            if not targets:
                continue
            key = f"{f.module.name}:{c.lineno}:{c.col_offset}:{c.end_lineno}:{c.end_col_offset}"
            got = table["calls"].get(key)
            if got is None or not (got[0] or got[1]):
                unresolved_by_mypy += 1
                continue
            names = {x for x in got if x}
            mine = set()
            for t in targets:
                cls = f"{t.cls.qualname}." if t.cls is not None else f"{t.module.name}."
                mine.add(f"{cls}{t.name}")
                if t.name == "__init__" and t.cls is not None:
                    mine.add(t.cls.qualname)
                    # constructor of a subclass without its own __init__
                    for k in prog.subclasses(t.cls):
                        mine.add(k.qualname)
            if names & mine:
                agree += 1
            else:
                disagree += 1
                problems.append({"call": key, "source": ast.unparse(c.func)[:60], "engine": sorted(mine)[:4], "mypy": sorted(names)})
    return {"agree": agree, "disagree": disagree, "unresolved_by_mypy": unresolved_by_mypy, "problems": problems[:20], "mypy_errors": table.get("errors")}
