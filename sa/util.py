"""Small helpers shared by the property rules."""
from __future__ import annotations

import ast
from typing import Iterator

from .cfg import CFG, Node
from .errors import AnalysisError
from .model import ClassInfo, FuncInfo, Program, dotted, mangle, parent, src, walk_scope
from .poly import Normaliser, Rat, single_assignment_env


def calls_in(node: ast.AST, scope_only: bool = True) -> list[ast.Call]:
    it = walk_scope(node) if scope_only else ast.walk(node)
    return [n for n in it if isinstance(n, ast.Call)]


def returns_of(f: FuncInfo) -> list[ast.Return]:
    return [n for n in walk_scope(f.node) if isinstance(n, ast.Return)]


def is_self_attr(e: ast.AST, self_name: str | None, attr: str | None = None) -> bool:
    return (
        isinstance(e, ast.Attribute)
        and isinstance(e.value, ast.Name)
        and self_name is not None
        and e.value.id == self_name
        and (attr is None or e.attr == attr)
    )


def trivial_getter_env(prog: Program, cls: ClassInfo, self_name: str = "self") -> dict[str, ast.expr]:
    """`self.prop` -> expression returned by a getter whose body is a single `return self._x`."""
    env: dict[str, ast.expr] = {}
    for c in prog.mro(cls):
        for name, g in c.getters.items():
            body = [s for s in g.node.body if not (isinstance(s, ast.Expr) and isinstance(s.value, ast.Constant))]
            if len(body) == 1 and isinstance(body[0], ast.Return) and body[0].value is not None:
                d = dotted(body[0].value)
                if d and g.self_name and d.startswith(g.self_name + ".") and d.count(".") == 1:
                    key = f"{self_name}.{name}"
                    if key not in env:
                        env[key] = ast.parse(f"{self_name}.{mangle(c.name, d.split('.')[1])}", mode="eval").body
    return env


def normaliser(prog: Program, f: FuncInfo, inline_locals: bool = True, extra_env: dict[str, ast.expr] | None = None,
               inline_helpers: bool = True) -> Normaliser:
    env: dict[str, ast.expr] = {}
    if inline_locals:
        env.update(single_assignment_env(f.node))
    if f.cls is not None and f.self_name:
        env.update(trivial_getter_env(prog, f.cls, f.self_name))
    if extra_env:
        env.update(extra_env)
    nrm = Normaliser(lambda d: prog.qualify(f.module, d), env, f.self_name, inliner=_make_inliner(prog, f, 0) if inline_helpers else None)
    nrm.records = record_classes(prog)

    def signature(call: ast.Call) -> list[str] | None:
        try:
            ts = [t for t in prog.resolve_call(f, call) if isinstance(t, FuncInfo)]
        except AnalysisError:
            return None
        if len(ts) != 1:
            return None
        return list(ts[0].bound_params)
    nrm.signature = signature
    return nrm


def record_classes(prog: Program) -> dict[str, list[str]]:
    """Repository classes that only bundle values (NamedTuple / dataclass without methods): qualified name -> field names in order."""
    cached = prog.__dict__.get("_record_classes")
    if cached is None:
        cached = {}
        for q, c in prog.classes.items():
            bases = [ast.unparse(b).split(".")[-1] for b in c.node.bases]
            deco = [ast.unparse(d.func if isinstance(d, ast.Call) else d).split(".")[-1] for d in c.node.decorator_list]
            if "NamedTuple" not in bases and "dataclass" not in deco:
                continue
            if any(isinstance(st, (ast.FunctionDef, ast.AsyncFunctionDef)) for st in c.node.body):
                continue
            fields = [st.target.id for st in c.node.body if isinstance(st, ast.AnnAssign) and isinstance(st.target, ast.Name) and "ClassVar" not in ast.unparse(st.annotation)]
            if fields:
                cached[q] = fields
                cached[q.replace(":", ".")] = fields
        prog.__dict__["_record_classes"] = cached
    return cached


def straight_line_helper(g: FuncInfo) -> ast.expr | None:
    """The returned expression of a helper whose body is: docstring, single assignments to fresh locals, one final `return e`."""
    node = g.node
    if getattr(node, "decorator_list", None) and any(src(d) not in ("staticmethod",) for d in node.decorator_list):
        return None
    if node.args.vararg or node.args.kwarg:
        return None
    body = [s for s in node.body if not (isinstance(s, ast.Expr) and isinstance(s.value, ast.Constant))]
    if not body or not isinstance(body[-1], ast.Return) or body[-1].value is None:
        return None
    params = {a.arg for a in [*node.args.posonlyargs, *node.args.args, *node.args.kwonlyargs]}
    seen: set[str] = set()
    for s in body[:-1]:
        if not (isinstance(s, ast.Assign) and len(s.targets) == 1 and isinstance(s.targets[0], ast.Name)):
            return None
        name = s.targets[0].id
        if name in params or name in seen:
            return None
        seen.add(name)
    for n in ast.walk(node):
        if isinstance(n, (ast.Yield, ast.YieldFrom, ast.Await, ast.NamedExpr, ast.Lambda)):
            return None
    return body[-1].value


def _make_inliner(prog: Program, f: FuncInfo, depth: int):
    def inline(n: Normaliser, call: ast.Call) -> Rat | None:
        try:
            targets = prog.resolve_call(f, call)
        except AnalysisError:
            return None
        fis = [t for t in targets if isinstance(t, FuncInfo)]
        if not fis:
            return None
        names = sorted(t.qualname for t in fis)
        if len(fis) != 1 or len(targets) != 1 or depth >= 3 or fis[0].qualname == f.qualname or fis[0].name == "__init__":
            n.opaque.update(names)
            return None
        g = fis[0]
        ret = straight_line_helper(g)
        if ret is None or any(isinstance(a, ast.Starred) for a in call.args) or any(k.arg is None for k in call.keywords):
            n.opaque.update(names)
            return None
        pos = [a.arg for a in [*g.node.args.posonlyargs, *g.node.args.args]]
        env: dict = {}
        is_method = g.cls is not None and g.self_name is not None and pos and pos[0] == g.self_name
        if is_method:
            # only `self.helper(...)` on the caller's own object keeps `self.x` atoms meaningful
            fn = call.func
            if not (isinstance(fn, ast.Attribute) and isinstance(fn.value, ast.Name) and fn.value.id == f.self_name and f.self_name == g.self_name):
                n.opaque.update(names)
                return None
            pos = pos[1:]
        if len(call.args) > len(pos):
            n.opaque.update(names)
            return None
        for name, a in zip(pos, call.args):
            env[name] = n.rat(a)
        kwonly = [a.arg for a in g.node.args.kwonlyargs]
        for k in call.keywords:
            if k.arg not in pos and k.arg not in kwonly or k.arg in env:
                n.opaque.update(names)
                return None
            env[k.arg] = n.rat(k.value)
        defaults = dict(zip(reversed(pos), reversed(g.node.args.defaults)))
        defaults.update({a: d for a, d in zip(kwonly, g.node.args.kw_defaults) if d is not None})
        for name in [*pos, *kwonly]:
            if name not in env:
                if name not in defaults:
                    n.opaque.update(names)
                    return None
                env[name] = Normaliser(lambda d: prog.qualify(g.module, d)).rat(defaults[name])
        local = {k: v for k, v in single_assignment_env(g.node).items() if k not in env}
        if g.cls is not None and g.self_name:
            local.update(trivial_getter_env(prog, g.cls, g.self_name))
        local.update(env)
        n2 = Normaliser(lambda d: prog.qualify(g.module, d), local, g.self_name, inliner=_make_inliner(prog, g, depth + 1))
        n2.records = n.records
        n2.opaque = n.opaque
        return n2.rat(ret)
    return inline


def parse_expr(text: str) -> ast.expr:
    return ast.parse(text, mode="eval").body


def oracle_rat(prog: Program, f: FuncInfo, text: str) -> Rat:
    """Normalise an oracle formula written with the function's own names (no local inlining)."""
    n = normaliser(prog, f, inline_locals=True)
    return n.rat(parse_expr(text))


def attr_store_sites(prog: Program, attr: str, include_plot: bool = False) -> Iterator[tuple[FuncInfo, ast.stmt, ast.expr, ast.expr | None]]:
    """Every store `<recv>.<attr> = ...` / `+=` / annotated in the package: (func, stmt, receiver, value)."""
    for f in prog.all_functions(include_plot=include_plot):
        for n in walk_scope(f.node):
            targets: list[tuple[ast.expr, ast.expr | None]] = []
            if isinstance(n, ast.Assign):
                for t in n.targets:
                    for el in ([t] if not isinstance(t, (ast.Tuple, ast.List)) else list(ast.walk(t))):
                        targets.append((el, n.value))
            elif isinstance(n, ast.AugAssign):
                targets.append((n.target, n.value))
            elif isinstance(n, ast.AnnAssign) and n.value is not None:
                targets.append((n.target, n.value))
            for t, v in targets:
                if isinstance(t, ast.Attribute) and isinstance(t.ctx, ast.Store):
                    name = t.attr
                    if f.cls is not None and isinstance(t.value, ast.Name) and t.value.id == f.self_name:
                        name = mangle(f.cls.name, name)
                    if name == attr:
                        yield f, n, t.value, v


def stmt_of(node: ast.AST) -> ast.stmt:
    cur: ast.AST | None = node
    while cur is not None and not isinstance(cur, ast.stmt):
        cur = parent(cur)
    if cur is None:
        raise AnalysisError("expression without statement")
    return cur


def node_for(cfg: CFG, node: ast.AST) -> list[Node]:
    """CFG nodes that evaluate `node` (the node itself, or the simple statement/test containing it)."""
    hits = cfg.nodes_of(node)
    if hits:
        return hits
    return cfg.nodes_containing(node)


def path_text(f: FuncInfo, path: list[Node] | None) -> list[str]:
    if not path:
        return []
    out = []
    for n in path:
        if n.ast is not None:
            out.append(f"{f.module.relpath}:{n.lineno} [{n.kind}] {src(n.ast).splitlines()[0][:90]}")
        else:
            out.append(f"[{n.kind}]")
    return out


def exactly_once_between(cfg: CFG, start: Node, ends: set[Node], marks: set[Node], labels: set[str] | None = None) -> tuple[list[Node] | None, list[Node] | None]:
    """(path start->end avoiding all marks, path mark->mark not passing start) - both None iff every
    path from `start` to an end passes through exactly one mark."""
    miss = cfg.path_avoiding(start, ends, marks, labels=labels)
    twice = None
    for m in marks:
        p = cfg.path_avoiding(m, marks, {start} | ends, labels=labels)
        if p is not None:
            twice = p
            break
    return miss, twice


def const_value(e: ast.expr | None) -> object:
    if isinstance(e, ast.Constant):
        return e.value
    if isinstance(e, ast.UnaryOp) and isinstance(e.op, ast.USub) and isinstance(e.operand, ast.Constant):
        return -e.operand.value
    return NotImplemented


def kwarg(call: ast.Call, name: str, pos: int | None = None) -> ast.expr | None:
    for k in call.keywords:
        if k.arg == name:
            return k.value
    if pos is not None and len(call.args) > pos and not any(isinstance(a, ast.Starred) for a in call.args[: pos + 1]):
        return call.args[pos]
    return None


# ---------------------------------------------------------------------------------------------- reaching definitions
def name_events(cfg: CFG, name: str) -> dict[Node, tuple[str, ast.AST]]:
    """CFG nodes that define or mutate local `name`: kind in assign|for|with|sub|aug|del|call-mutate."""
    out: dict[Node, tuple[str, ast.AST]] = {}
    for n in cfg.live:
        a = n.ast
        if a is None:
            continue
        if n.kind == "for":
            if any(isinstance(x, ast.Name) and x.id == name for x in ast.walk(n.stmt.target)):  # type: ignore[union-attr]
                out[n] = ("for", n.stmt)  # type: ignore[arg-type]
            continue
        if n.kind == "with":
            for item in n.stmt.items:  # type: ignore[union-attr]
                if item.context_expr is a and item.optional_vars is not None and any(isinstance(x, ast.Name) and x.id == name for x in ast.walk(item.optional_vars)):
                    out[n] = ("with", a)
            continue
        if isinstance(a, ast.Assign):
            for t in a.targets:
                for el in ([t] if not isinstance(t, (ast.Tuple, ast.List)) else t.elts):
                    if isinstance(el, ast.Starred):
                        el = el.value
                    if isinstance(el, ast.Name) and el.id == name:
                        out[n] = ("assign", a)
                    elif isinstance(el, ast.Subscript) and _base_name(el) == name:
                        out[n] = ("sub", a)
        elif isinstance(a, ast.AnnAssign):
            if isinstance(a.target, ast.Name) and a.target.id == name and a.value is not None:
                out[n] = ("assign", a)
            elif isinstance(a.target, ast.Subscript) and _base_name(a.target) == name:
                out[n] = ("sub", a)
        elif isinstance(a, ast.AugAssign):
            if isinstance(a.target, ast.Name) and a.target.id == name:
                out[n] = ("aug", a)
            elif isinstance(a.target, ast.Subscript) and _base_name(a.target) == name:
                out[n] = ("augsub", a)
        elif isinstance(a, ast.Delete):
            if any(_base_name(t) == name for t in a.targets):
                out[n] = ("del", a)
    return out


def _base_name(e: ast.AST) -> str | None:
    while isinstance(e, (ast.Subscript, ast.Attribute)):
        e = e.value
    return e.id if isinstance(e, ast.Name) else None


def reaching_events(cfg: CFG, name: str, at: Node) -> list[tuple[Node, str, ast.AST]]:
    """Definition / mutation events of `name` that may reach node `at` (assignments kill earlier events)."""
    events = name_events(cfg, name)
    killers = {n for n, (k, _) in events.items() if k in ("assign", "for", "with")}
    out = []
    for n, (kind, a) in events.items():
        if n is at:
            continue
        # does n reach `at` without passing another killing definition?
        p = cfg.path_avoiding(n, {at}, (killers - {n, at}) if kind in ("assign", "for", "with") else (killers - {at}))
        if p is not None:
            out.append((n, kind, a))
    # parameter / undefined on some path: a path entry->at avoiding all killers
    if cfg.path_avoiding(cfg.entry, {at}, killers - {at}) is not None:
        out.append((cfg.entry, "entry", cfg.func))
    return out


def dep_leaves(prog: Program, f: FuncInfo, e: ast.expr, _seen: set[str] | None = None) -> set[str]:
    """Flow-insensitive data-dependence leaves of an expression inside f: `param:x`, `self.a.b`, `call:name`."""
    seen = _seen if _seen is not None else set()
    out: set[str] = set()
    params = set(f.params) | set(f.kwonly)
    for n in ast.walk(e):
        if isinstance(n, ast.Attribute):
            d = dotted(n)
            if d and f.self_name and d.startswith(f.self_name + "."):
                par = parent(n)
                if not (isinstance(par, ast.Attribute) and dotted(par)):
                    out.add(d)
        elif isinstance(n, ast.Name) and isinstance(n.ctx, ast.Load):
            if n.id == f.self_name:
                continue
            if n.id in params:
                out.add(f"param:{n.id}")
                # a parameter may also be rebound locally
            if n.id in seen:
                continue
            defs = _local_defs(f, n.id)
            if defs:
                seen.add(n.id)
                for d_ in defs:
                    out |= dep_leaves(prog, f, d_, seen)
        elif isinstance(n, ast.Call):
            d = dotted(n.func)
            if d:
                out.add(f"call:{d}")
    return out


def _local_defs(f: FuncInfo, name: str) -> list[ast.expr]:
    out: list[ast.expr] = []
    for n in walk_scope(f.node):
        if isinstance(n, ast.Assign):
            for t in n.targets:
                if any(isinstance(x, ast.Name) and x.id == name for x in ast.walk(t)):
                    out.append(n.value)
        elif isinstance(n, ast.AnnAssign) and n.value is not None and any(isinstance(x, ast.Name) and x.id == name for x in ast.walk(n.target)):
            out.append(n.value)
        elif isinstance(n, ast.AugAssign) and any(isinstance(x, ast.Name) and x.id == name for x in ast.walk(n.target)):
            out.append(n.value)
        elif isinstance(n, ast.For) and any(isinstance(x, ast.Name) and x.id == name for x in ast.walk(n.target)):
            out.append(n.iter)
        elif isinstance(n, ast.NamedExpr) and n.target.id == name:
            out.append(n.value)
    for n in ast.walk(f.node):
        if isinstance(n, ast.comprehension) and any(isinstance(x, ast.Name) and x.id == name for x in ast.walk(n.target)):
            out.append(n.iter)
    return out


def expand_forms(prog: Program, f: FuncInfo, g: CFG, e: ast.expr, at: Node, limit: int = 24, _depth: int = 0) -> list[ast.expr]:
    """All expressions `e` may denote at CFG node `at`, with non-parameter locals replaced by their reaching definitions
    (each definition expanded at its own program point, so sequential re-assignments of one name are followed correctly)."""
    if _depth > 8:
        return [e]
    params = set(f.params) | set(f.kwonly)
    names = []
    for x in ast.walk(e):
        if isinstance(x, ast.Name) and isinstance(x.ctx, ast.Load) and x.id not in params and x.id not in names and x.id != f.self_name:
            names.append(x.id)
    outs = [e]
    for nm in names:
        evs = reaching_events(g, nm, at)
        if not evs or any(k != "assign" for _, k, _ in evs):
            continue
        repls: list[ast.expr] = []
        for node_d, _, a in evs:
            tgt = a.targets[0] if isinstance(a, ast.Assign) else getattr(a, "target", None)
            if not isinstance(tgt, ast.Name) or getattr(a, "value", None) is None:
                repls = []
                break
            repls.extend(expand_forms(prog, f, g, a.value, node_d, limit, _depth + 1))  # type: ignore[union-attr]
        if not repls:
            continue
        new = []
        for cur in outs:
            for r in repls:
                new.append(_substitute(cur, nm, r))
                if len(new) >= limit:
                    break
            if len(new) >= limit:
                break
        outs = new
    return outs


def _substitute(e: ast.expr, name: str, repl: ast.expr) -> ast.expr:
    class T(ast.NodeTransformer):
        def visit_Name(self, node: ast.Name):  # noqa: N802
            if node.id == name and isinstance(node.ctx, ast.Load):
                return ast.parse(ast.unparse(repl), mode="eval").body
            return node
    import copy as _copy
    return T().visit(_copy.deepcopy(e))     # (a slice tuple such as `:, i` cannot be re-parsed on its own)


def _is_set_expr(f: FuncInfo, e: ast.expr, depth: int = 0) -> bool:
    """Expression whose value is certainly a set (iteration order = hash order, randomised per process for str)."""
    if depth > 4:
        return False
    if isinstance(e, (ast.Set, ast.SetComp)):
        return True
    if isinstance(e, ast.Call):
        fn = dotted(e.func) or ""
        if fn in ("set", "frozenset"):
            return True
        if isinstance(e.func, ast.Attribute) and e.func.attr in ("union", "intersection", "difference", "symmetric_difference") and _is_set_expr(f, e.func.value, depth + 1):
            return True
    if isinstance(e, ast.BinOp) and isinstance(e.op, (ast.Sub, ast.BitOr, ast.BitAnd, ast.BitXor)):
        if _is_set_expr(f, e.left, depth + 1) or _is_set_expr(f, e.right, depth + 1):
            return True
        # dict views combine to sets: d.keys() - other
        for side in (e.left, e.right):
            if isinstance(side, ast.Call) and isinstance(side.func, ast.Attribute) and side.func.attr in ("keys", "items"):
                return True
    if isinstance(e, ast.Name):
        plain = []
        for n in walk_scope(f.node):
            if isinstance(n, ast.Assign) and any(isinstance(t, ast.Name) and t.id == e.id for t in n.targets):
                plain.append(n.value)
            elif isinstance(n, ast.AnnAssign) and isinstance(n.target, ast.Name) and n.target.id == e.id and n.value is not None:
                plain.append(n.value)
        return bool(plain) and all(_is_set_expr(f, d, depth + 1) for d in plain)
    return False


def set_iteration_sites(prog: Program, funcs: list[FuncInfo]) -> list[tuple[FuncInfo, ast.AST, str]]:
    """Places where the iteration order of a set leaks into ordered output (for loops, comprehensions, enumerate/list/tuple)."""
    out = []
    for f in funcs:
        for n in ast.walk(f.node):
            it = None
            if isinstance(n, ast.For):
                it = n.iter
            elif isinstance(n, ast.comprehension):
                par = getattr(n, "_parent", None)
                if isinstance(par, ast.SetComp):
                    continue  # building another set: order irrelevant
                it = n.iter
            elif isinstance(n, ast.Call) and (dotted(n.func) or "") in ("enumerate", "list", "tuple", "next", "iter", "zip", "numpy.array", "np.array", "np.asarray", "np.fromiter") and n.args:
                it = n.args[0]
            if it is None:
                continue
            inner = it
            if isinstance(inner, ast.Call) and (dotted(inner.func) or "") == "enumerate" and inner.args:
                inner = inner.args[0]
            if isinstance(inner, ast.Call) and (dotted(inner.func) or "") == "sorted":
                continue
            if _is_set_expr(f, inner):
                out.append((f, n, src(inner)[:60]))
    return out


LIKE_ALLOCATORS = {"zeros_like", "empty_like", "ones_like", "full_like"}


def dtype_inheritance_sites(prog: Program, funcs: list[FuncInfo]) -> list[tuple[FuncInfo, ast.AST, str]]:
    """Computed values stored into an array whose dtype is inherited from a caller-supplied array.

    `out = np.empty_like(x)` / `np.zeros_like(x)` / `x.copy()` / `np.copy(x)` / `np.moveaxis(x, ..).copy()` (x rooted in a parameter or
    attribute, no dtype= given) followed by `out[...] = <call result>`: for integer (or lower-precision) input the stored values are
    silently truncated, although the same code is exact for float64 input.
    """
    out = []
    for f in funcs:
        params = set(f.params) | set(f.kwonly)
        inherited: dict[str, tuple[str, ast.AST]] = {}
        for n in walk_scope(f.node):
            if isinstance(n, (ast.Assign, ast.AnnAssign)) and n.value is not None:
                tgt = n.targets[0] if isinstance(n, ast.Assign) else n.target
                if not isinstance(tgt, ast.Name):
                    continue
                v = n.value
                src_arr = None
                if isinstance(v, ast.Call):
                    fn = (dotted(v.func) or "")
                    short = fn.split(".")[-1]
                    if short in LIKE_ALLOCATORS and v.args and not any(k.arg == "dtype" for k in v.keywords):
                        src_arr = v.args[0]
                    elif short in (*LIKE_ALLOCATORS, "zeros", "empty", "ones", "full") and any(k.arg == "dtype" for k in v.keywords):
                        # an explicit dtype that is itself read off a caller-supplied array: `np.empty(shape, dtype=grid.dtype)`
                        dt = next(k.value for k in v.keywords if k.arg == "dtype")
                        seen_: set[str] = set()

                        def _expand(e_: ast.expr, depth: int = 0) -> list[ast.expr]:
                            if isinstance(e_, ast.Name) and e_.id not in params and e_.id not in seen_ and depth < 4:
                                seen_.add(e_.id)
                                defs = _local_defs(f, e_.id)
                                return [y for d_ in defs for y in _expand(d_, depth + 1)] or [e_]
                            if isinstance(e_, ast.IfExp):
                                return _expand(e_.body, depth + 1) + _expand(e_.orelse, depth + 1)
                            return [e_]
                        alts = _expand(dt)
                        plain = [a_ for a_ in alts if isinstance(a_, ast.Attribute) and a_.attr == "dtype"]
                        if plain and len(plain) == len(alts):
                            src_arr = plain[0].value
                    elif short == "copy" and fn.startswith(("np.", "numpy.")) and v.args:
                        src_arr = v.args[0]
                    elif isinstance(v.func, ast.Attribute) and v.func.attr == "copy" and not v.args:
                        src_arr = v.func.value
                    elif short in ("array", "asarray") and v.args and isinstance(v.args[0], ast.Name) and not any(k.arg == "dtype" for k in v.keywords):
                        src_arr = v.args[0]
                if src_arr is None:
                    continue
                roots = {x.id for x in ast.walk(src_arr) if isinstance(x, ast.Name)}
                attr_root = any(isinstance(x, ast.Attribute) and isinstance(x.value, ast.Name) and x.value.id == f.self_name for x in ast.walk(src_arr))
                derived = set()
                for r in roots - params:
                    for d_ in _local_defs(f, r):
                        derived |= {x.id for x in ast.walk(d_) if isinstance(x, ast.Name)} & params
                if roots & params or derived or attr_root:
                    inherited[tgt.id] = (src(src_arr)[:40], n)
        if not inherited:
            continue
        for n in walk_scope(f.node):
            if isinstance(n, ast.Assign) and isinstance(n.targets[0], ast.Subscript):
                base = n.targets[0].value
                while isinstance(base, ast.Subscript):
                    base = base.value
                computed = isinstance(n.value, (ast.Call, ast.BinOp)) or (isinstance(n.value, ast.Name) and any(isinstance(d_, (ast.Call, ast.BinOp)) for d_ in _local_defs(f, n.value.id)))
                if isinstance(base, ast.Name) and base.id in inherited and computed:
                    # storing values taken from the same array (permutation/copy) is exact
                    names = {x.id for x in ast.walk(n.value) if isinstance(x, ast.Name)}
                    if isinstance(n.value, ast.Subscript):
                        continue
                    out.append((f, n, f"`{src(n)[:70]}` stores a computed value into `{base.id}`, whose dtype is inherited from `{inherited[base.id][0]}`"))
    return out


# ---------------------------------------------------------------------------------------------------------------
# canonical reading of loop headers: every name bound by `for <target> in <iter>` (or a comprehension generator) is
# expressed through one induction symbol, so that `for i in range(n)`, `for i, g in enumerate(G)`,
# `for g, c in zip(G, D.T)` ... give the same normal forms for the loop body.
IDX = "_I_"


def _elem(it: ast.expr):
    """(structure, counts): the element produced at iteration `_I_` (an expression, or a tuple of structures) and the candidate trip counts."""
    I = ast.Name(id=IDX, ctx=ast.Load())  # noqa: E741
    if isinstance(it, ast.Call):
        fn = dotted(it.func) or ""
        if fn == "range" and not it.keywords and 1 <= len(it.args) <= 2:
            if len(it.args) == 1:
                return I, [it.args[0]]
            lo, hi = it.args
            return ast.BinOp(left=I, op=ast.Add(), right=lo), [ast.BinOp(left=hi, op=ast.Sub(), right=lo)]
        if fn == "enumerate" and it.args:
            inner, cnt = _elem(it.args[0])
            start = it.args[1] if len(it.args) > 1 else kwarg(it, "start")
            idx = I if start is None or (isinstance(start, ast.Constant) and start.value == 0) else ast.BinOp(left=I, op=ast.Add(), right=start)
            return (idx, inner), cnt
        if fn == "zip" and it.args:
            parts, cnts = [], []
            for a in it.args:
                st, c = _elem(a)
                parts.append(st)
                cnts.extend(c)
            return tuple(parts), cnts
        if fn in ("list", "tuple", "iter") and len(it.args) == 1:
            return _elem(it.args[0])
        if fn in ("repeat", "itertools.repeat") and len(it.args) == 1 and not it.keywords:
            return it.args[0], []       # the same value at every iteration, as many as the other operands of a zip ask for
        if isinstance(it.func, ast.Attribute) and it.func.attr in ("tolist",) and not it.args:
            return _elem(it.func.value)
        if fn in ("reversed", "sorted", "set", "map", "filter"):
            raise AnalysisError(f"loop over `{src(it)}` has no canonical index reading")
    if isinstance(it, ast.Attribute) and it.attr == "T":
        base = it.value
        col = ast.Subscript(value=base, slice=ast.Tuple(elts=[ast.Slice(lower=None, upper=None, step=None), I], ctx=ast.Load()), ctx=ast.Load())
        shp = ast.Subscript(value=ast.Attribute(value=base, attr="shape", ctx=ast.Load()), slice=ast.Constant(value=1), ctx=ast.Load())
        return col, [shp]
    return ast.Subscript(value=it, slice=I, ctx=ast.Load()), [ast.Call(func=ast.Name(id="len", ctx=ast.Load()), args=[it], keywords=[])]


def _destructure(target: ast.expr, st, out: dict[str, ast.expr]) -> bool:
    if isinstance(target, ast.Name):
        if isinstance(st, tuple):
            return False
        out[target.id] = st
        return True
    if isinstance(target, (ast.Tuple, ast.List)):
        if not isinstance(st, tuple) or len(st) != len(target.elts):
            return False
        return all(_destructure(t, s, out) for t, s in zip(target.elts, st))
    return False


def loop_binding(target: ast.expr, it: ast.expr) -> tuple[dict[str, ast.expr], list[ast.expr]]:
    """Names bound by a loop header in terms of the induction symbol `_I_` (0-based), and the candidate trip counts."""
    st, counts = _elem(it)
    env: dict[str, ast.expr] = {}
    if not _destructure(target, st, env):
        raise AnalysisError(f"cannot read loop header `for {src(target)} in {src(it)}`")
    for e in list(env.values()) + counts:
        ast.fix_missing_locations(e)
    return env, counts


# ---------------------------------------------------------------------------------------------------------------
# if/else trees read back as conditional expressions (the loader reads `x = a if c else b` as an if/else statement;
# guard clauses and if/else chains are the same thing to the rules)
def _has_return(stmts: list[ast.stmt]) -> bool:
    return any(isinstance(n, ast.Return) for s in stmts for n in ast.walk(s) if not isinstance(s, (ast.FunctionDef, ast.ClassDef)))


def returned_value(stmts: list[ast.stmt]) -> ast.expr | None:
    """The value a block returns, as one (possibly nested) conditional expression; None when returns sit in loops/try or a path falls through."""
    for i, s in enumerate(stmts):
        if isinstance(s, ast.Return):
            return s.value if s.value is not None else ast.Constant(value=None)
        if isinstance(s, ast.If):
            if not _has_return([s]):
                continue
            a = returned_value(s.body)
            b = returned_value([*s.orelse, *stmts[i + 1:]]) if a is not None else None
            if a is None:
                # `if c: <no return> else: return` - swap roles
                b2 = returned_value(s.orelse) if s.orelse else None
                a2 = returned_value([*s.body, *stmts[i + 1:]]) if b2 is not None else None
                if a2 is not None and b2 is not None:
                    return ast.fix_missing_locations(ast.copy_location(ast.IfExp(test=s.test, body=a2, orelse=b2), s))
                return None
            if b is None:
                return None
            return ast.fix_missing_locations(ast.copy_location(ast.IfExp(test=s.test, body=a, orelse=b), s))
        if isinstance(s, (ast.For, ast.While, ast.Try, ast.With)) and _has_return([s]):
            return None
        if isinstance(s, ast.Raise):
            return None
    return None


def assigned_value(stmts: list[ast.stmt], is_target) -> ast.expr | None:
    """The value a block leaves in a target (`is_target(expr) -> bool`), as one conditional expression over the if/else that assigns it; None if not decidable."""
    val: ast.expr | None = None
    for s in stmts:
        if isinstance(s, ast.Assign) and len(s.targets) == 1 and is_target(s.targets[0]):
            val = s.value
        elif isinstance(s, ast.If) and any(isinstance(n, ast.Assign) and any(is_target(t) for t in n.targets) for n in ast.walk(s)):
            a = assigned_value(s.body, is_target)
            b = assigned_value(s.orelse, is_target) if s.orelse else val
            if a is None:
                a = val
            if a is None or b is None:
                return None
            val = ast.fix_missing_locations(ast.copy_location(ast.IfExp(test=s.test, body=a, orelse=b), s))
        elif isinstance(s, (ast.For, ast.While, ast.Try, ast.With)) and any(isinstance(n, ast.Assign) and any(is_target(t) for t in n.targets) for n in ast.walk(s)):
            return None
    return val


def return_leaves(f: FuncInfo, limit: int = 32) -> list[tuple[list[tuple[ast.expr, bool]], ast.expr]] | None:
    """The function's result as a decision list: [(conditions as (test, truth) pairs, returned expression with locals expanded)].
    None when the body is not an if/else tree of returns over locals assigned by plain statements / if-trees."""
    body = [s for s in f.node.body if not (isinstance(s, ast.Expr) and isinstance(s.value, ast.Constant))]
    rv = returned_value(body)
    if rv is None:
        return None
    params = set(f.params) | set(f.kwonly)

    def expand(e: ast.expr, depth: int = 0) -> ast.expr:
        if depth > 4:
            return e
        names = {n.id for n in ast.walk(e) if isinstance(n, ast.Name) and isinstance(n.ctx, ast.Load) and n.id not in params and n.id != f.self_name}
        for nm in sorted(names):
            av = assigned_value(body, lambda t, nm=nm: isinstance(t, ast.Name) and t.id == nm)
            if av is not None:
                e = _substitute(e, nm, expand(av, depth + 1))
        return e

    rv = expand(rv)
    out: list[tuple[list[tuple[ast.expr, bool]], ast.expr]] = []

    def first_ifexp(e: ast.expr) -> ast.IfExp | None:
        for n in ast.walk(e):
            if isinstance(n, ast.IfExp):
                return n
        return None

    def split(e: ast.expr, conds: list[tuple[ast.expr, bool]]) -> None:
        if len(out) > limit:
            return
        ie = first_ifexp(e)
        if ie is None:
            out.append((conds, e))
            return
        text = ast.unparse(e)
        it = ast.unparse(ie)
        for branch, truth in ((ie.body, True), (ie.orelse, False)):
            new = ast.parse(text.replace(it, f"({ast.unparse(branch)})", 1), mode="eval").body
            split(new, [*conds, (ie.test, truth)])
    split(rv, [])
    return out


# ------------------------------------------------------------------------------------------ `a[-k:]` with k possibly 0
def _same(e: ast.expr, text: str) -> bool:
    return ast.unparse(e) == text


def _positivity_test(test: ast.expr, name: str) -> bool | None:
    """True: the test holding proves `name > 0` (or != 0); False: the test *failing* proves it; None: says nothing."""
    if _same(test, name):
        return True
    if isinstance(test, ast.UnaryOp) and isinstance(test.op, ast.Not):
        r = _positivity_test(test.operand, name)
        return None if r is None else not r
    if isinstance(test, ast.BoolOp) and isinstance(test.op, ast.And):
        return True if any(_positivity_test(v, name) is True for v in test.values) else None
    if isinstance(test, ast.BoolOp) and isinstance(test.op, ast.Or):
        return False if any(_positivity_test(v, name) is False for v in test.values) else None
    if isinstance(test, ast.Compare) and len(test.ops) == 1:
        a, op, b = test.left, test.ops[0], test.comparators[0]
        if _same(b, name) and isinstance(a, ast.Constant):
            flip = {ast.Lt: ast.Gt, ast.LtE: ast.GtE, ast.Gt: ast.Lt, ast.GtE: ast.LtE, ast.Eq: ast.Eq, ast.NotEq: ast.NotEq}
            if type(op) not in flip:
                return None
            a, op, b = b, flip[type(op)](), a
        if _same(a, name) and isinstance(b, ast.Constant) and isinstance(b.value, (int, float)) and not isinstance(b.value, bool):
            c = b.value
            if (isinstance(op, ast.Gt) and c >= 0) or (isinstance(op, ast.GtE) and c >= 1) or (isinstance(op, ast.NotEq) and c == 0):
                return True
            if (isinstance(op, ast.LtE) and c >= 0) or (isinstance(op, ast.Lt) and c >= 1) or (isinstance(op, ast.Eq) and c == 0):
                return False
    return None


def _leaves(stmts: list[ast.stmt]) -> bool:
    return bool(stmts) and isinstance(stmts[-1], (ast.Return, ast.Raise, ast.Continue, ast.Break))


def negative_count_slices(fn: ast.AST) -> list[tuple[ast.Subscript, str, bool]]:
    """Every `a[-k:]` with a non-literal count k in `fn`: (node, text of k, k proven non-zero by an enclosing / preceding guard).
    For k == 0 the slice is the *whole* array, not the empty suffix - the idiom is equivalent to `a[len(a) - k:]` only for k > 0."""
    out = []
    for n in ast.walk(fn):
        if not (isinstance(n, ast.Subscript) and isinstance(n.slice, ast.Slice) and n.slice.upper is None and n.slice.step is None):
            continue
        lo = n.slice.lower
        if not (isinstance(lo, ast.UnaryOp) and isinstance(lo.op, ast.USub)) or isinstance(lo.operand, ast.Constant):
            continue
        k = lo.operand
        proven = False
        kt = ast.unparse(k)
        if True:
            cur: ast.AST = n
            while cur is not fn and cur is not None and not proven:
                par = getattr(cur, "_parent", None)
                if isinstance(par, (ast.If, ast.While)):
                    r = _positivity_test(par.test, kt)
                    if (r is True and cur in par.body) or (r is False and cur in par.orelse):
                        proven = True
                if isinstance(par, ast.IfExp):
                    r = _positivity_test(par.test, kt)
                    if (r is True and cur is par.body) or (r is False and cur is par.orelse):
                        proven = True
                # guard clauses earlier in the same block: `if k <= 0: return`
                for field_ in ("body", "orelse", "finalbody"):
                    block = getattr(par, field_, None)
                    if isinstance(block, list) and cur in block:
                        for s_ in block[:block.index(cur)]:
                            if isinstance(s_, ast.If):
                                r = _positivity_test(s_.test, kt)
                                if (r is False and _leaves(s_.body)) or (r is True and _leaves(s_.orelse)):
                                    proven = True
                cur = par
        out.append((n, ast.unparse(k), proven))
    return out


# ------------------------------------------------------------------------------------------ path-sensitive forward substitution
def path_forms(f: FuncInfo, g: CFG, e: ast.expr, at: Node, max_paths: int = 256) -> list[tuple[tuple[str, ...], ast.expr]]:
    """`e` at CFG node `at`, once per acyclic normal path entry -> `at`, with the plain local assignments met on that path substituted
    forward (so two re-assignments under one `if` stay correlated - unlike `expand_forms`, which takes the cross product of reaching
    definitions).  Returns [(branch decisions on the path, expression over parameters / self / unassigned names)].
    Raises AnalysisError when a path re-binds a name of `e` in a way that is not a plain assignment (loop target, augmented, unpacking)."""
    params = set(f.params) | set(f.kwonly)
    out: list[tuple[tuple[str, ...], ast.expr]] = []
    normal = {"next", "true", "false", "loop", "exhaust", "enter", "body"}

    class Sub(ast.NodeTransformer):
        def __init__(self, env: dict[str, ast.expr]) -> None:
            self.env = env

        def visit_Name(self, node: ast.Name):  # noqa: N802
            if isinstance(node.ctx, ast.Load) and node.id in self.env:
                return copy_expr(self.env[node.id])
            return node

        def visit_ListComp(self, node):  # noqa: N802 - comprehension variables shadow
            return self._comp(node)

        visit_GeneratorExp = visit_SetComp = visit_DictComp = visit_ListComp  # noqa: N815

        def _comp(self, node):
            bound = {x.id for gen in node.generators for x in ast.walk(gen.target) if isinstance(x, ast.Name)}
            inner = Sub({k: v for k, v in self.env.items() if k not in bound})
            return inner.generic_visit(node)

    def copy_expr(x: ast.expr) -> ast.expr:
        return ast.parse(ast.unparse(x), mode="eval").body

    def subst(x: ast.expr, env: dict[str, ast.expr]) -> ast.expr:
        return Sub(env).visit(copy_expr(x))

    def walk(n: Node, env: dict[str, ast.expr], seen: frozenset[int], decisions: tuple[str, ...]) -> None:
        if len(out) >= max_paths:
            raise AnalysisError(f"{f.qualname}: more than {max_paths} paths to the anchored statement")
        if n is at:
            out.append((decisions, subst(e, env)))
            return
        if n.idx in seen:
            return
        seen = seen | {n.idx}
        env2 = env
        a = n.ast
        if n.kind == "stmt" and isinstance(a, (ast.Assign, ast.AnnAssign)) and getattr(a, "value", None) is not None:
            tgts = a.targets if isinstance(a, ast.Assign) else [a.target]
            env2 = dict(env)
            val = subst(a.value, env)
            for t in tgts:
                if isinstance(t, ast.Name):
                    env2[t.id] = val
                elif isinstance(t, (ast.Tuple, ast.List)) and isinstance(val, (ast.Tuple, ast.List)) and len(t.elts) == len(val.elts) and all(isinstance(x, ast.Name) for x in t.elts):
                    for x, v_ in zip(t.elts, val.elts):
                        env2[x.id] = v_
                elif isinstance(t, (ast.Tuple, ast.List)) and all(isinstance(x, ast.Name) for x in t.elts) and isinstance(val, (ast.Name, ast.Attribute, ast.Subscript)):
                    for i_, x in enumerate(t.elts):      # `r, s, d = x.shape`
                        env2[x.id] = ast.fix_missing_locations(ast.copy_location(ast.Subscript(value=val, slice=ast.Constant(value=i_), ctx=ast.Load()), a))
                else:
                    for x in ast.walk(t):
                        if isinstance(x, ast.Name) and isinstance(x.ctx, ast.Store):
                            env2[x.id] = ast.Name(id=f"unk__{x.id}__L{getattr(a, 'lineno', 0)}", ctx=ast.Load())
        elif n.kind == "stmt" and isinstance(a, ast.AugAssign) and isinstance(a.target, ast.Name):
            env2 = dict(env)
            cur = env.get(a.target.id, ast.Name(id=a.target.id, ctx=ast.Load()))
            env2[a.target.id] = ast.BinOp(left=copy_expr(cur), op=a.op, right=subst(a.value, env))
        elif n.kind in ("for", "with") and a is not None:
            tgt = getattr(a, "target", None)
            names = [x.id for x in ast.walk(tgt) if isinstance(x, ast.Name)] if tgt is not None else []
            for it in getattr(a, "items", []) or []:
                if it.optional_vars is not None:
                    names += [x.id for x in ast.walk(it.optional_vars) if isinstance(x, ast.Name)]
            if names:
                env2 = dict(env)
                for nm in names:
                    env2[nm] = ast.Name(id=f"unk__{nm}__L{getattr(a, 'lineno', 0)}", ctx=ast.Load())
        for t, lab in n.succ:
            if lab not in normal and lab != "next":
                continue
            d = decisions + ((f"{ast.unparse(a)[:60]}={lab}",) if n.kind == "test" and a is not None else ())
            walk(t, env2, seen, d)

    walk(g.entry, {p: ast.Name(id=p, ctx=ast.Load()) for p in ()}, frozenset(), ())
    _ = params
    return out


# ------------------------------------------------------------------------------------------ per-path summaries of a small function
class PathSummary:
    """One acyclic normal path of a function: the branch decisions taken (tests with the locals substituted forward), how it ends
    (`ret` expression / `raised` expression / falls off the end) and the `self.<attr>` stores met, all expressed over the parameters and
    the attribute values *at entry* (`self.a`); a read after the k-th store to `self.a` on that path is spelled `self__a__v<k>`."""

    def __init__(self) -> None:
        self.decisions: list[tuple[ast.expr, str]] = []
        self.ret: ast.expr | None = None
        self.raised: ast.expr | None = None
        self.ends: str = "end"
        self.stores: list[tuple[str, ast.expr, ast.stmt]] = []
        self.calls: list[ast.Call] = []

    def text(self) -> str:
        return "; ".join(f"{ast.unparse(t)[:50]}={lab}" for t, lab in self.decisions)


def path_summaries(f: FuncInfo, g: CFG | None = None, max_paths: int = 512) -> list[PathSummary]:
    g = g or CFG(f.node)
    me = f.self_name
    stored_attrs = {t.attr for s in walk_scope(f.node) if isinstance(s, (ast.Assign, ast.AugAssign, ast.AnnAssign))
                    for t in (s.targets if isinstance(s, ast.Assign) else [s.target]) for t in ([t] if not isinstance(t, (ast.Tuple, ast.List)) else t.elts)
                    if isinstance(t, ast.Attribute) and isinstance(t.value, ast.Name) and t.value.id == me}
    out: list[PathSummary] = []

    def cp(x: ast.expr) -> ast.expr:
        return ast.parse(ast.unparse(x), mode="eval").body

    class Sub(ast.NodeTransformer):
        def __init__(self, env: dict[str, ast.expr], ver: dict[str, int]) -> None:
            self.env, self.ver = env, ver

        def visit_Name(self, node: ast.Name):  # noqa: N802
            if isinstance(node.ctx, ast.Load) and node.id in self.env:
                return cp(self.env[node.id])
            return node

        def visit_Attribute(self, node: ast.Attribute):  # noqa: N802
            if isinstance(node.value, ast.Name) and node.value.id == me and node.attr in stored_attrs and self.ver.get(node.attr, 0) > 0 and isinstance(node.ctx, ast.Load):
                return ast.Name(id=f"self__{node.attr}__v{self.ver[node.attr]}", ctx=ast.Load())
            return self.generic_visit(node)

        def _comp(self, node):
            bound = {x.id for gen in node.generators for x in ast.walk(gen.target) if isinstance(x, ast.Name)}
            return Sub({k: v for k, v in self.env.items() if k not in bound}, self.ver).generic_visit(node)

        visit_ListComp = visit_GeneratorExp = visit_SetComp = visit_DictComp = _comp  # noqa: N815

    def subst(x: ast.expr, env, ver) -> ast.expr:
        return Sub(env, ver).visit(cp(x))

    def walk(n: Node, env: dict, ver: dict, seen: frozenset, ps: PathSummary) -> None:
        if len(out) >= max_paths:
            raise AnalysisError(f"{f.qualname}: more than {max_paths} paths")
        if n is g.exit or n is g.raise_exit:
            out.append(ps)
            return
        if n.idx in seen:
            return
        seen = seen | {n.idx}
        a = n.ast

        def fork() -> PathSummary:
            q = PathSummary()
            q.decisions, q.stores, q.calls = list(ps.decisions), list(ps.stores), list(ps.calls)
            return q

        if n.kind == "test" and a is not None:
            t = subst(a, env, ver)  # type: ignore[arg-type]
            for tgt, lab in n.succ:
                if lab == "exc":
                    continue
                q = fork()
                q.decisions.append((t, lab))
                walk(tgt, env, ver, seen, q)
            return
        env2, ver2 = env, ver
        if n.kind == "return":
            ps.ends = "return"
            ps.ret = subst(a.value, env, ver) if getattr(a, "value", None) is not None else ast.Constant(value=None)  # type: ignore[union-attr]
        elif n.kind == "raise":
            ps.ends = "raise"
            ps.raised = subst(a.exc, env, ver) if getattr(a, "exc", None) is not None else None  # type: ignore[union-attr]
        elif n.kind == "stmt" and isinstance(a, (ast.Assign, ast.AnnAssign, ast.AugAssign)) and getattr(a, "value", None) is not None:
            env2, ver2 = dict(env), dict(ver)
            tgts = a.targets if isinstance(a, ast.Assign) else [a.target]
            val = subst(a.value, env, ver)
            if isinstance(a, ast.AugAssign):
                val = ast.BinOp(left=subst(ast.parse(ast.unparse(a.target), mode="eval").body, env, ver), op=a.op, right=val)
            pairs: list[tuple[ast.expr, ast.expr]] = []
            for t in tgts:
                if isinstance(t, (ast.Tuple, ast.List)) and isinstance(a.value, (ast.Tuple, ast.List)) and len(t.elts) == len(a.value.elts) and not isinstance(a, ast.AugAssign):
                    pairs.extend((te, subst(ve, env, ver)) for te, ve in zip(t.elts, a.value.elts))  # right-hand sides are evaluated before any binding
                elif isinstance(t, (ast.Tuple, ast.List)) and isinstance(val, (ast.Tuple, ast.List)) and len(t.elts) == len(val.elts) and not isinstance(a, ast.AugAssign):
                    pairs.extend(zip(t.elts, val.elts))  # unpacking of a local that holds a tuple display
                elif isinstance(t, (ast.Tuple, ast.List)) and all(isinstance(te, ast.Name) for te in t.elts) and isinstance(val, (ast.Name, ast.Attribute, ast.Subscript)) \
                        and not isinstance(a, ast.AugAssign):
                    # `r, s, d = x.shape`: element i of a value that is read without effects
                    pairs.extend((te, ast.fix_missing_locations(ast.copy_location(ast.Subscript(value=val, slice=ast.Constant(value=i_), ctx=ast.Load()), a))) for i_, te in enumerate(t.elts))
                else:
                    pairs.append((t, val))
            for t, val in pairs:
                if isinstance(t, ast.Name):
                    env2[t.id] = val
                elif isinstance(t, ast.Attribute) and isinstance(t.value, ast.Name) and t.value.id == me:
                    ps.stores.append((t.attr, val, a))
                    ver2[t.attr] = ver2.get(t.attr, 0) + 1
                elif isinstance(t, ast.Subscript):
                    base = t
                    while isinstance(base, ast.Subscript):
                        base = base.value
                    if isinstance(base, ast.Attribute) and isinstance(base.value, ast.Name) and base.value.id == me:
                        ps.stores.append((f"{base.attr}[{ast.unparse(subst(t.slice, env, ver))}]", val, a))
                        ver2[base.attr] = ver2.get(base.attr, 0) + 1
                        stored_attrs.add(base.attr)
                    elif isinstance(base, ast.Name):
                        env2[base.id] = ast.Name(id=f"unk__{base.id}__L{a.lineno}", ctx=ast.Load())
                else:
                    for x in ast.walk(t):
                        if isinstance(x, ast.Name) and isinstance(x.ctx, ast.Store):
                            env2[x.id] = ast.Name(id=f"unk__{x.id}__L{a.lineno}", ctx=ast.Load())
        elif n.kind == "for" and a is not None:
            env2 = dict(env)
            for x in ast.walk(getattr(n.stmt, "target", a)):
                if isinstance(x, ast.Name):
                    env2[x.id] = ast.Name(id=f"unk__{x.id}__L{getattr(a, 'lineno', 0)}", ctx=ast.Load())
        if a is not None and n.kind in ("stmt", "return", "raise"):
            for c in ast.walk(a):
                if isinstance(c, ast.Call):
                    ps.calls.append(c)
        succ = [(t, lab) for t, lab in n.succ if lab != "exc" or n.kind == "raise"]
        for i, (tgt, lab) in enumerate(succ):
            walk(tgt, env2, ver2, seen, ps if i == len(succ) - 1 else fork())

    walk(g.entry, {}, {}, frozenset(), PathSummary())
    return out


# ------------------------------------------------------------------------------------------ helpers the front end could not read in place
def unread_helpers(prog: Program, f: FuncInfo) -> list[str]:
    """Names of the *new* repository functions (unknown to the reference inventory, i.e. introduced by the change under analysis) that `f` still calls after
    canonicalisation - helpers that could not be inlined (generators, returns inside loops, try/except bodies).  Whatever a rule looks for in `f` may sit there."""
    new = set((getattr(prog, "alignment", None) or {}).get("new_helpers", []))
    out = []
    for c in calls_in(f.node, scope_only=False):
        try:
            ts = prog.resolve_call(f, c)
        except AnalysisError:
            continue
        known = [t for t in ts if isinstance(t, FuncInfo) and t.qualname not in new]
        for t in ts:
            if isinstance(t, FuncInfo) and t.qualname in new and t.qualname != f.qualname:
                # a new *implementation of a known interface* (an override in a new subclass, reached by the dynamic dispatch the reference tree
                # already had at this call) is not a helper that hides part of `f`: the rules treat the call as they treat its siblings
                if known and t.cls is not None and any(k.cls is not None and k.name == t.name and k.cls in prog.mro(t.cls)[1:] for k in known):
                    continue
                out.append(t.qualname.split(":")[1])
    return sorted(set(out))


def require_readable(prog: Program, *funcs: FuncInfo, closures: bool = True) -> None:
    for f in funcs:
        if closures:
            inner = [x for x in ast.walk(f.node) if isinstance(x, (ast.FunctionDef, ast.AsyncFunctionDef, ast.Lambda)) and x is not f.node]
            if inner:
                nm = getattr(inner[0], "name", "<lambda>")
                raise AnalysisError(f"{f.loc(inner[0])}: {f.qualname.split(':')[1]} keeps part of its logic in the local function `{nm}` (used as a value, so it could not be read in place); "
                                    "the rule cannot be decided")
        hidden = unread_helpers(prog, f)
        if hidden:
            raise AnalysisError(f"{f.loc(f.node)}: {f.qualname.split(':')[1]} delegates to the new helper(s) {hidden[:4]}, which could not be read in place; the rule cannot be decided")


# ---------------------------------------------------------------------------------------------- closures that capture an iteration variable late
def late_binding_closures(f: FuncInfo) -> list[tuple[ast.AST, str, ast.AST]]:
    """(closure, variable, loop) for every lambda / nested function that is created once per iteration of a loop or comprehension of `f`, reads the
    iteration variable (or a name assigned in the loop body) as a *free* variable and outlives the iteration (it is an element of the comprehension's
    result, appended, stored, returned or yielded).  Python closures look the name up when they run: all of them then see the last iteration's value."""
    out: list[tuple[ast.AST, str, ast.AST]] = []

    def target_names(t: ast.AST) -> set[str]:
        return {x.id for x in ast.walk(t) if isinstance(x, ast.Name)}

    def free_reads(c: ast.AST) -> set[str]:
        if isinstance(c, ast.Lambda):
            params = {a.arg for a in [*c.args.posonlyargs, *c.args.args, *c.args.kwonlyargs]} | ({c.args.vararg.arg} if c.args.vararg else set()) | ({c.args.kwarg.arg} if c.args.kwarg else set())
            body: list[ast.AST] = [c.body]
        else:
            params = {a.arg for a in [*c.args.posonlyargs, *c.args.args, *c.args.kwonlyargs]} | ({c.args.vararg.arg} if c.args.vararg else set()) | ({c.args.kwarg.arg} if c.args.kwarg else set())
            body = list(c.body)
        local = set(params)
        for b in body:
            for x in ast.walk(b):
                if isinstance(x, ast.Name) and isinstance(x.ctx, ast.Store):
                    local.add(x.id)
                if isinstance(x, ast.comprehension):
                    local |= target_names(x.target)
        return {x.id for b in body for x in ast.walk(b) if isinstance(x, ast.Name) and isinstance(x.ctx, ast.Load)} - local

    def escapes(c: ast.AST, loop: ast.AST) -> bool:
        par = getattr(c, "_parent", None)
        if isinstance(loop, (ast.ListComp, ast.SetComp, ast.GeneratorExp, ast.DictComp)):
            # an element (or part of a display that is the element) of the result
            cur, up = c, par
            while up is not None and up is not loop:
                if isinstance(up, ast.Call) and cur is not up.func and not (isinstance(up.func, ast.Attribute) and up.func.attr in ("append", "add", "insert", "setdefault")):
                    return False        # handed to a call evaluated during the iteration
                cur, up = up, getattr(up, "_parent", None)
            return up is loop
        if isinstance(c, (ast.FunctionDef, ast.AsyncFunctionDef)):
            # a nested def in a loop body: escapes if its name is appended / stored / returned / yielded
            nm = c.name
            for x in ast.walk(loop):
                if isinstance(x, ast.Name) and x.id == nm and isinstance(x.ctx, ast.Load):
                    up = getattr(x, "_parent", None)
                    if isinstance(up, ast.Call) and up.func is x:
                        continue
                    return True
            return False
        cur, up = c, par
        while up is not None and not isinstance(up, ast.stmt):
            if isinstance(up, ast.Call) and cur is not up.func:
                return isinstance(up.func, ast.Attribute) and up.func.attr in ("append", "add", "insert", "setdefault", "extend")
            cur, up = up, getattr(up, "_parent", None)
        if isinstance(up, (ast.Return, ast.Expr)) and (isinstance(up, ast.Return) or isinstance(getattr(up, "value", None), (ast.Yield, ast.YieldFrom))):
            return True
        if isinstance(up, (ast.Assign, ast.AnnAssign)):
            tg = up.targets[0] if isinstance(up, ast.Assign) else up.target
            if isinstance(tg, (ast.Subscript, ast.Attribute)):
                return True
            # bound to a plain local: escapes if that local does (appended / stored / returned later in the loop)
            if isinstance(tg, ast.Name):
                for x in ast.walk(loop):
                    if isinstance(x, ast.Name) and x.id == tg.id and isinstance(x.ctx, ast.Load):
                        u2 = getattr(x, "_parent", None)
                        if isinstance(u2, ast.Call) and u2.func is x:
                            continue
                        return True
        return False

    for loop in ast.walk(f.node):
        if isinstance(loop, (ast.For, ast.AsyncFor)):
            itervars = target_names(loop.target)
            body_nodes = [x for b in loop.body for x in ast.walk(b)]
            itervars |= {x.id for x in body_nodes if isinstance(x, ast.Name) and isinstance(x.ctx, ast.Store)}
        elif isinstance(loop, (ast.ListComp, ast.SetComp, ast.GeneratorExp, ast.DictComp)):
            itervars = set()
            for gen in loop.generators:
                itervars |= target_names(gen.target)
            elts = [loop.key, loop.value] if isinstance(loop, ast.DictComp) else [loop.elt]
            body_nodes = [x for e in elts for x in ast.walk(e)]
        elif isinstance(loop, ast.While):
            body_nodes = [x for b in loop.body for x in ast.walk(b)]
            itervars = {x.id for x in body_nodes if isinstance(x, ast.Name) and isinstance(x.ctx, ast.Store)}
        else:
            continue
        for c in body_nodes:
            if not isinstance(c, (ast.Lambda, ast.FunctionDef, ast.AsyncFunctionDef)):
                continue
            # innermost enclosing loop only
            cur = getattr(c, "_parent", None)
            inner = None
            while cur is not None and cur is not f.node:
                if isinstance(cur, (ast.For, ast.AsyncFor, ast.While, ast.ListComp, ast.SetComp, ast.GeneratorExp, ast.DictComp)):
                    inner = cur
                    break
                if isinstance(cur, (ast.Lambda, ast.FunctionDef, ast.AsyncFunctionDef)):
                    break
                cur = getattr(cur, "_parent", None)
            if inner is not loop:
                continue
            captured = sorted(free_reads(c) & itervars)
            if captured and escapes(c, loop):
                out.append((c, captured[0], loop))
    return out


# ---------------------------------------------------------------------------------------------- constructor chaining
def misrouted_super_arguments(prog: Program, base_name: str) -> tuple[int, list[tuple[FuncInfo, ast.Call, str]]]:
    """For every `super().__init__(...)` / `Base.__init__(self, ...)` call in the hierarchy below `base_name`: a *name* passed positionally that lands on a
    parameter of a different name, although the callee has a parameter of exactly that name elsewhere, is forwarded to the wrong parameter (the usual
    way this happens: a parameter inserted in the middle of the base-class signature).  Returns (number of forwarding calls seen, findings)."""
    base = prog.find_class(base_name)
    out: list[tuple[FuncInfo, ast.Call, str]] = []
    n = 0
    for c in prog.subclasses(base):
        for m in c.methods.values():
            for call in calls_in(m.node):
                fn = call.func
                if not (isinstance(fn, ast.Attribute) and fn.attr == m.name == "__init__"):
                    continue
                tg = [t for t in prog.resolve_call(m, call) if isinstance(t, FuncInfo)]
                if len(tg) != 1:
                    continue
                callee = tg[0]
                n += 1
                params = list(callee.bound_params)
                args = list(call.args)
                if not (isinstance(fn.value, ast.Call) and dotted(fn.value.func) == "super") and args and isinstance(args[0], ast.Name) and args[0].id == m.self_name:
                    args = args[1:]     # Base.__init__(self, ...)
                for i, a in enumerate(args):
                    if isinstance(a, ast.Starred) or i >= len(params):
                        break
                    if isinstance(a, ast.Name) and a.id != params[i] and a.id in params and a.id in m.params:
                        out.append((m, call, f"`{a.id}` is passed in position {i}, which is the parameter `{params[i]}` of {callee.qualname.split(':')[1]} - not its parameter `{a.id}`"))
    return n, out


# ---------------------------------------------------------------------------------------------- process-wide numeric state
def unrestored_fp_state(prog: Program) -> tuple[int, list[tuple[FuncInfo, ast.Call, str]]]:
    """`np.seterr(...)` / `np.seterrcall(...)` change how *every later* numpy operation of the process treats division by zero / invalid values.  A function
    that changes the mode must put it back on every exit, exceptional ones included: the restoring call sits in a `finally:` (or the code uses the
    `np.errstate` context manager, which does that itself).  Returns (functions scanned, findings)."""
    out: list[tuple[FuncInfo, ast.Call, str]] = []
    n = 0
    for f in prog.all_functions():
        if f.module.name.startswith("black_it.plot"):
            continue
        n += 1
        sets = [c for c in calls_in(f.node, scope_only=False) if (prog.qualify(f.module, dotted(c.func) or "") or "") in ("numpy.seterr", "numpy.seterrcall", "numpy.setbufsize")]
        if not sets:
            continue
        in_finally = [c for c in sets if any(isinstance(t, ast.Try) and any(any(x is c for x in ast.walk(b)) for b in t.finalbody) for t in ast.walk(f.node))]
        changing = [c for c in sets if c not in in_finally]
        if changing and not in_finally:
            out.append((f, changing[0], f"`{' '.join(src(changing[0]).split())[:60]}` changes numpy's process-wide floating-point error mode and nothing restores it in a `finally:`: after an "
                        "exception raised while the mode is changed, every later computation of the process runs under it (use `with np.errstate(...)`)"))
    return n, out


# ---------------------------------------------------------------------------------------------- value memos
def _closed_function(prog: Program, f: FuncInfo, depth: int = 0) -> bool:
    """`f` computes its result from its arguments alone: a module-level function or staticmethod that reads no instance / module state that can change,
    stores nothing outside its locals and draws nothing at random (repository callees must be closed too)."""
    import builtins
    if depth > 2 or f.self_name is not None:
        return False
    node = f.node
    local = set(f.params) | set(f.kwonly) | {x.id for x in ast.walk(node) if isinstance(x, ast.Name) and isinstance(x.ctx, ast.Store)}
    consts = prog.module_consts.get(f.module.name, {})
    for x in ast.walk(node):
        if isinstance(x, (ast.Global, ast.Nonlocal, ast.Yield, ast.YieldFrom)):
            return False
        if isinstance(x, (ast.Attribute, ast.Subscript)) and isinstance(x.ctx, ast.Store):
            root = x.value
            while isinstance(root, (ast.Attribute, ast.Subscript)):
                root = root.value
            if not (isinstance(root, ast.Name) and root.id in local and root.id not in f.params):
                return False
        if isinstance(x, ast.Name) and isinstance(x.ctx, ast.Load) and x.id not in local and x.id not in dir(builtins):
            q = prog.qualify(f.module, x.id) or ""
            if x.id in consts:
                v = consts[x.id]
                if isinstance(v, (ast.Dict, ast.List, ast.Set)) and not isinstance(v, ast.Tuple):
                    return False    # mutable module-level container
                continue
            if not q:
                return False
        if isinstance(x, ast.Call):
            d = dotted(x.func) or ""
            q = prog.qualify(f.module, d) or ""
            if "random" in q or q.startswith(("time.", "os.", "uuid.")):
                return False
            for t in prog.resolve_call(f, x):
                if isinstance(t, FuncInfo) and t.qualname != f.qualname and not _closed_function(prog, t, depth + 1):
                    return False
    return True


def is_pure_cached_function(prog: Program, f: FuncInfo) -> bool:
    """An `lru_cache` / `cache` on `f` cannot be observed: `f` is closed (see above) and the cached object it hands out is only ever read - no caller writes into
    it, stores it in an attribute or container, or passes it on to code that could (followed through `return f(...)` two levels up)."""
    if not _closed_function(prog, f):
        return False
    # the cached array is frozen before it is handed out (`x.setflags(write=False)` on every returned local): nobody can write into it
    rets = [r for r in ast.walk(f.node) if isinstance(r, ast.Return) and r.value is not None]
    if rets and all(isinstance(r.value, ast.Name) and any(
            isinstance(c, ast.Call) and isinstance(c.func, ast.Attribute) and c.func.attr == "setflags" and isinstance(c.func.value, ast.Name) and c.func.value.id == r.value.id
            and any(k.arg == "write" and isinstance(k.value, ast.Constant) and k.value.value is False for k in c.keywords) for c in ast.walk(f.node)) for r in rets):
        return True
    return _result_only_read(prog, f, 0)


READ_ATTRS = ("copy", "dot", "shape", "T", "sum", "mean", "items", "keys", "values", "get", "tolist", "astype", "size", "ndim", "dtype", "min", "max", "todense", "toarray", "tocsc", "tocsr")
PURE_CONSUMERS = ("len", "list", "tuple", "dict", "sorted", "sum", "min", "max", "enumerate", "zip", "iter", "next", "float", "int", "str", "repr", "isinstance", "print", "any", "all", "set", "frozenset")


def _value_only_read(prog: Program, g: FuncInfo, node: ast.AST, depth: int) -> bool:
    """How the value of expression `node` (inside `g`) is used."""
    par = getattr(node, "_parent", None)
    if isinstance(par, ast.Attribute) and par.value is node:
        if par.attr in READ_ATTRS:
            return True
        call = getattr(par, "_parent", None)
        if isinstance(call, ast.Call) and call.func is par:
            return False
        # a component of the cached object (`ws.buffer`): what happens to it happens to the cached object
        return isinstance(par.ctx, ast.Load) and _value_only_read(prog, g, par, depth)
    if isinstance(par, ast.Subscript) and par.value is node:
        return isinstance(par.ctx, ast.Load)
    if isinstance(par, (ast.BinOp, ast.UnaryOp, ast.Compare, ast.BoolOp, ast.IfExp, ast.JoinedStr, ast.FormattedValue, ast.comprehension, ast.For, ast.If, ast.While, ast.Expr, ast.Starred)):
        return not (isinstance(par, ast.IfExp) and par.test is not node) or _value_only_read(prog, g, par, depth)
    if isinstance(par, ast.keyword):
        par = getattr(par, "_parent", None)
    if isinstance(par, ast.Call):
        d = dotted(par.func) or ""
        q = prog.qualify(g.module, d) or d
        if isinstance(par.func, ast.Attribute) and par.func.attr in ("choice",) and par.func.value is not node:
            return True         # Generator.choice(options, ...) reads its population
        if d in PURE_CONSUMERS or q.startswith(("numpy.", "scipy.", "math.")) and not q.endswith((".put", ".copyto", ".place", ".putmask", ".fill_diagonal")) and not any(k.arg == "out" for k in par.keywords):
            return True
        return False
    if isinstance(par, (ast.Assign, ast.AnnAssign)):
        tgs = par.targets if isinstance(par, ast.Assign) else [par.target]
        if not all(isinstance(t, ast.Name) for t in tgs):
            return False
        for t in tgs:
            if _written_through(g, t.id):
                return False
            for u in ast.walk(g.node):
                if isinstance(u, ast.Name) and u.id == t.id and isinstance(u.ctx, ast.Load) and not _value_only_read(prog, g, u, depth):
                    return False
        return True
    if isinstance(par, ast.Return):
        return _result_only_read(prog, g, depth + 1)
    return False


def _result_only_read(prog: Program, f: FuncInfo, depth: int) -> bool:
    if depth > 2:
        return False
    for g, call in prog.callers_of(f):
        if not _value_only_read(prog, g, call, depth):
            return False
    return True


def _written_through(g: FuncInfo, name: str) -> bool:
    for x in ast.walk(g.node):
        if isinstance(x, (ast.Subscript, ast.Attribute)) and isinstance(x.ctx, (ast.Store, ast.Del)):
            root = x.value
            while isinstance(root, (ast.Subscript, ast.Attribute)):
                root = root.value
            if isinstance(root, ast.Name) and root.id == name:
                return True
        if isinstance(x, ast.AugAssign) and isinstance(x.target, ast.Name) and x.target.id == name:
            return True
        if isinstance(x, ast.Call) and isinstance(x.func, ast.Attribute) and isinstance(x.func.value, ast.Name) and x.func.value.id == name \
                and x.func.attr in ("sort", "fill", "resize", "put", "itemset", "setflags", "setdiag", "append", "extend", "update", "clear", "pop"):
            if x.func.attr == "setflags" and any(k.arg == "write" and isinstance(k.value, ast.Constant) and k.value.value is False for k in x.keywords):
                continue
            return True
    return False


def is_value_memo_store(prog: Program, f: FuncInfo, stmt: ast.stmt, cache: str) -> bool:
    """`CACHE[K] = V` where everything V was computed from is what K is made of (and constants): the entry is a function of its key, so whether it was
    computed now, earlier in the process or in an earlier process makes no difference to what is read back."""
    if not isinstance(stmt, ast.Assign):
        return False
    # `cache` is the source text of the container: a module-level name, or an attribute of the object (`self._cache`)
    subs = [t for t in stmt.targets if isinstance(t, ast.Subscript) and src(t.value) == cache]
    if len(subs) != 1:
        return False
    if not _injective_key(f, subs[0].slice):
        return False
    kl = {x for x in dep_leaves(prog, f, subs[0].slice) if not x.startswith("call:")}
    vl = dep_leaves(prog, f, stmt.value)
    me = f.self_name or "self"
    on_object = cache.startswith(me + ".")
    for x in vl:
        if x.startswith(("self.", me + ".")) and x not in kl:
            # what the value reads from the object must be part of the key - or, for a memo kept on that same object, configuration (stored by the constructor only)
            attr = x.split(".", 1)[1].split(".")[0].split("[")[0]
            stores = prog.attr_stores(f.cls, inherited=True).get(attr, []) if (on_object and f.cls is not None) else None
            if stores is None or not stores or any(g.name != "__init__" for g, _s, _v in stores):
                return False
    for x in vl:
        if x.startswith("call:"):
            q = prog.qualify(f.module, x[5:]) or x[5:]
            if "random" in q or q.startswith(("time.", "os.", "uuid.")):
                return False
    data = {x for x in vl if not x.startswith("call:") and not x.startswith(("self.", me + "."))}
    if not (bool(kl) and data <= kl):
        return False
    return not memo_value_written(prog, f, stmt, cache)


def _injective_key(f: FuncInfo, key: ast.expr, depth: int = 0) -> bool:
    """Two different values of what the key is made of give two different keys: names, attributes, constants, tuples of those, and the exact renderings
    `.tobytes()`, `.tolist()`, `.shape`, `.dtype`, tuple(), str(), repr(), bytes(), float(), id-free.  `hash(...)`, `round(...)`, `int(...)`, arithmetic and
    anything else can map different inputs to the same key - the entry is then not a function of the inputs."""
    if depth > 6:
        return False
    if isinstance(key, ast.Constant):
        return True
    if isinstance(key, ast.Name):
        env = single_assignment_env(f.node)
        if key.id in env and key.id not in f.params:
            return _injective_key(f, env[key.id], depth + 1)
        return True
    if isinstance(key, ast.Attribute):
        return _injective_key(f, key.value, depth + 1)
    if isinstance(key, (ast.Tuple, ast.List)):
        return all(_injective_key(f, e, depth + 1) for e in key.elts)
    if isinstance(key, ast.Call) and not key.keywords:
        if isinstance(key.func, ast.Attribute) and key.func.attr in ("tobytes", "tolist") and not key.args:
            return _injective_key(f, key.func.value, depth + 1)
        d = dotted(key.func) or ""
        if d in ("tuple", "str", "repr", "bytes", "float", "np.ascontiguousarray", "numpy.ascontiguousarray", "np.asarray", "numpy.asarray", "frozenset") and len(key.args) == 1:
            return _injective_key(f, key.args[0], depth + 1)
    if isinstance(key, ast.Call) and (dotted(key.func) or "") in ("np.ascontiguousarray", "numpy.ascontiguousarray", "np.asarray", "numpy.asarray") and len(key.args) == 1 \
            and all(k.arg == "dtype" for k in key.keywords):
        return _injective_key(f, key.args[0], depth + 1)
    if isinstance(key, ast.GeneratorExp) and len(key.generators) == 1 and not key.generators[0].ifs:
        return _injective_key(f, key.generators[0].iter, depth + 1) and isinstance(key.elt, (ast.Name, ast.Call, ast.Attribute))
    return False


ARRAY_MAKERS = ("asarray", "array", "ascontiguousarray", "zeros", "ones", "empty", "full", "stack", "vstack", "hstack", "concatenate", "copy")


def memo_value_written(prog: Program, f: FuncInfo, stmt: ast.Assign, cache: str) -> bool:
    """The entry of a value-keyed memo is only a function of its key as long as nobody writes *into* the object that was stored: a reader that standardises,
    sorts or fills the array it was handed changes what every later reader of the same key gets.  Followed: the names bound in `f` to the stored value or to
    reads of the memo, `f`'s return value at its callers, and one level of callers handing it on."""
    held: set[str] = set()
    if isinstance(stmt.value, ast.Name):
        held.add(stmt.value.id)
    for t in stmt.targets:
        if isinstance(t, ast.Name):
            held.add(t.id)
    for x in ast.walk(f.node):
        if isinstance(x, (ast.Assign, ast.AnnAssign)) and x.value is not None:
            v = x.value
            reads = (isinstance(v, ast.Subscript) and src(v.value) == cache) or (
                isinstance(v, ast.Call) and isinstance(v.func, ast.Attribute) and src(v.func.value) == cache and v.func.attr in ("get", "setdefault", "pop"))
            if isinstance(v, ast.NamedExpr):
                reads = reads or False
            if reads:
                for t in (x.targets if isinstance(x, ast.Assign) else [x.target]):
                    if isinstance(t, ast.Name):
                        held.add(t.id)
    arrayish = any(isinstance(a, ast.Assign) and any(isinstance(t, ast.Name) and t.id in held for t in a.targets) and isinstance(a.value, ast.Call)
                   and (dotted(a.value.func) or "").split(".")[-1] in ARRAY_MAKERS for a in ast.walk(f.node)) or (
        isinstance(stmt.value, ast.Call) and (dotted(stmt.value.func) or "").split(".")[-1] in ARRAY_MAKERS)

    def written(g: FuncInfo, name: str) -> bool:
        if not _written_through(g, name):
            # handed to code that may write into it (anything but a reader the tables know): the entry may change behind the memo's back
            for u in ast.walk(g.node):
                if isinstance(u, ast.Name) and u.id == name and isinstance(u.ctx, ast.Load):
                    par = getattr(u, "_parent", None)
                    if isinstance(par, ast.keyword):
                        par = getattr(par, "_parent", None)
                    if isinstance(par, ast.Call) and u is not par.func and not _value_only_read(prog, g, u, 0):
                        return True
            return False
        only_aug = not any(isinstance(x, (ast.Subscript, ast.Attribute)) and isinstance(x.ctx, (ast.Store, ast.Del)) and _root_name(x) == name for x in ast.walk(g.node)) and not any(
            isinstance(x, ast.Call) and isinstance(x.func, ast.Attribute) and isinstance(x.func.value, ast.Name) and x.func.value.id == name for x in ast.walk(g.node))
        if only_aug and not arrayish:
            raise AnalysisError(f"{g.qualname}: `{name} op= ...` on a value read from the memo `{cache}`: in place for an array, a rebinding for a scalar; the stored value's kind is not readable")
        return True
    for h in held:
        if written(f, h):
            return True
    returns_held = any(isinstance(r, ast.Return) and r.value is not None and any(isinstance(n, ast.Name) and n.id in (held | {cache}) for n in ast.walk(r.value)) for r in ast.walk(f.node))
    if returns_held:
        for g, call in prog.callers_of(f):
            par = getattr(call, "_parent", None)
            if isinstance(par, (ast.Assign, ast.AnnAssign)):
                tg = par.targets[0] if isinstance(par, ast.Assign) else par.target
                if isinstance(tg, ast.Name) and written(g, tg.id):
                    return True
            elif isinstance(par, ast.Return):
                for g2, c2 in prog.callers_of(g):
                    p2 = getattr(c2, "_parent", None)
                    if isinstance(p2, (ast.Assign, ast.AnnAssign)):
                        tg = p2.targets[0] if isinstance(p2, ast.Assign) else p2.target
                        if isinstance(tg, ast.Name) and written(g2, tg.id):
                            return True
    return False


def _root_name(x: ast.expr) -> str | None:
    r = x.value if isinstance(x, (ast.Subscript, ast.Attribute)) else x
    while isinstance(r, (ast.Subscript, ast.Attribute)):
        r = r.value
    return r.id if isinstance(r, ast.Name) else None
