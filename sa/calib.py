"""Shared view of `Calibrator.calibrate`: batch loop, history writes, the calls that matter."""
from __future__ import annotations

import ast
from functools import cached_property

from .cfg import CFG, Node
from .errors import AnalysisError
from .model import FuncInfo, Program, dotted, src, walk_scope
from .util import calls_in, expand_forms, is_self_attr, node_for, reaching_events

CAL = "black_it.calibrator:Calibrator"
HISTORY = ["params_samp", "losses_samp", "series_samp", "batch_num_samp", "method_samp"]
COUNTERS = ["n_sampled_params", "current_batch_index"]
NORMAL = {"next", "true", "false", "loop", "exhaust"}


class CalibrateView:
    def __init__(self, prog: Program) -> None:
        self.prog = prog
        self.cal = prog.func(f"{CAL}.calibrate")
        self.g = CFG(self.cal.node)
        self.sn = self.cal.self_name
        # The rules read one batch of the calibration loop *in* calibrate().  Helpers introduced by a refactoring are inlined by the front end (sa/align.py);
        # one that could not be (a generator of batches, returns inside loops, recursion) hides mutations, checkpoints and exits from every path query:
        # nothing about the loop can then be decided - say so instead of reporting what merely moved out of sight.
        new = set((getattr(prog, "alignment", None) or {}).get("new_helpers", []))
        hidden = []
        for c in calls_in(self.cal.node, scope_only=False):
            for t in prog.resolve_call(self.cal, c):
                if isinstance(t, FuncInfo) and t.qualname in new and t.module is self.cal.module:
                    hidden.append(t.qualname.split(":")[1])
        # checked by Context.rule for every rule group that is handed this view: that group is then undecided (the other groups of the check still run)
        self.unreadable = (f"{self.cal.loc(self.cal.node)}: Calibrator.calibrate delegates to the new helper(s) {sorted(set(hidden))[:4]}, which could not be read in place; "
                           "the batch loop cannot be analysed") if hidden else None

    @cached_property
    def gx(self) -> CFG:
        return CFG(self.cal.node, exc_edges=True)

    @cached_property
    def head(self) -> Node:
        return self._head(self.g)

    def _head(self, g: CFG) -> Node:
        heads = [n for n in g.live if n.kind == "for" and any(isinstance(x, ast.Name) and x.id == "n_batches" for x in ast.walk(n.ast))]
        if len(heads) != 1:
            raise AnalysisError(f"anchor vanished: batch loop over n_batches in Calibrator.calibrate ({len(heads)} candidates)")
        return heads[0]

    @cached_property
    def loop_nodes(self) -> set[Node]:
        return self.loop_nodes_of(self.g)

    def loop_nodes_of(self, g: CFG) -> set[Node]:
        """Header plus every CFG node that syntactically belongs to the loop body."""
        head = self._head(g)
        body_ids = {id(x) for st in head.stmt.body for x in ast.walk(st)}  # type: ignore[union-attr]
        out = {head}
        for n in g.live:
            a = n.ast if n.ast is not None else n.stmt
            if a is not None and id(a) in body_ids:
                out.add(n)
        return out

    @cached_property
    def loop_stmt(self) -> ast.For:
        return self.head.stmt  # type: ignore[return-value]

    @cached_property
    def exits(self) -> set[Node]:
        """First nodes outside the loop reached from inside it on non-exceptional edges."""
        return {n for n in self.g.live if n not in self.loop_nodes
                and any(p in self.loop_nodes for p, lab in n.pred if lab != "exc")}

    def in_loop(self, node: ast.AST) -> bool:
        cur = node
        while cur is not None:
            if cur is self.loop_stmt:
                return True
            cur = getattr(cur, "_parent", None)
        return False

    # ------------------------------------------------------------------ calls
    def calls_resolving_to(self, cls_name: str, method: str) -> list[ast.Call]:
        out = []
        for c in calls_in(self.cal.node):
            for t in self.prog.resolve_call(self.cal, c):
                if isinstance(t, FuncInfo) and t.name == method and t.cls is not None and any(k.name == cls_name for k in self.prog.mro(t.cls)):
                    out.append(c)
                    break
        return out

    @cached_property
    def get_next(self) -> list[ast.Call]:
        return self.calls_resolving_to("BaseScheduler", "get_next_sampler")

    @cached_property
    def update(self) -> list[ast.Call]:
        return self.calls_resolving_to("BaseScheduler", "update")

    @cached_property
    def sample(self) -> list[ast.Call]:
        return self.calls_resolving_to("BaseSampler", "sample")

    @cached_property
    def simulate(self) -> list[ast.Call]:
        return self.calls_resolving_to("Calibrator", "simulate_model")

    @cached_property
    def compute_loss(self) -> list[ast.Call]:
        return self.calls_resolving_to("BaseLoss", "compute_loss")

    @cached_property
    def checkpoint(self) -> list[ast.Call]:
        return self.calls_resolving_to("Calibrator", "create_checkpoint")

    @cached_property
    def convergence(self) -> list[ast.Call]:
        return self.calls_resolving_to("Calibrator", "check_convergence")

    @cached_property
    def session(self) -> list[ast.Call]:
        return self.calls_resolving_to("BaseScheduler", "session")

    def nodes(self, asts: list[ast.AST], g: CFG | None = None) -> set[Node]:
        g = g or self.g
        return {n for a in asts for n in node_for(g, a)}

    # ------------------------------------------------------------------ writes
    @cached_property
    def writes(self) -> dict[str, list[ast.stmt]]:
        out: dict[str, list[ast.stmt]] = {a: [] for a in [*HISTORY, *COUNTERS]}
        for n in walk_scope(self.cal.node):
            targets: list[ast.expr] = []
            if isinstance(n, ast.Assign):
                for t in n.targets:
                    targets.extend(list(ast.walk(t)) if isinstance(t, (ast.Tuple, ast.List)) else [t])
            elif isinstance(n, (ast.AugAssign, ast.AnnAssign)):
                targets.append(n.target)
            for t in targets:
                # self.X = / self.X[...] = / self.X += ...
                base = t
                while isinstance(base, ast.Subscript):
                    base = base.value
                if is_self_attr(base, self.sn) and base.attr in out:  # type: ignore[union-attr]
                    out[base.attr].append(n)  # type: ignore[union-attr]
        return out

    def write_nodes(self, attrs: list[str], g: CFG | None = None) -> set[Node]:
        g = g or self.g
        return {n for a in attrs for s in self.writes[a] for n in g.nodes_of(s)}

    # ------------------------------------------------------------------ local dependence
    def local_defs(self, name: str) -> list[ast.expr]:
        out = []
        for n in walk_scope(self.cal.node):
            if isinstance(n, ast.Assign):
                for t in n.targets:
                    if isinstance(t, ast.Name) and t.id == name:
                        out.append(n.value)
                    elif isinstance(t, (ast.Tuple, ast.List)) and any(isinstance(x, ast.Name) and x.id == name for x in ast.walk(t)):
                        out.append(n.value)
            elif isinstance(n, ast.AnnAssign) and isinstance(n.target, ast.Name) and n.target.id == name and n.value is not None:
                out.append(n.value)
            elif isinstance(n, ast.AugAssign) and isinstance(n.target, ast.Name) and n.target.id == name:
                out.append(n.value)
            elif isinstance(n, (ast.For,)) and any(isinstance(x, ast.Name) and x.id == name for x in ast.walk(n.target)):
                out.append(n.iter)
            elif isinstance(n, ast.NamedExpr) and isinstance(n.target, ast.Name) and n.target.id == name:
                out.append(n.value)
        return out

    def leaves(self, e: ast.expr, _seen: set[str] | None = None) -> set[str]:
        """Data-dependence leaves of an expression: self attributes, parameters, callee names, constants are dropped."""
        seen = _seen if _seen is not None else set()
        out: set[str] = set()
        for n in ast.walk(e):
            if isinstance(n, ast.Attribute):
                d = dotted(n)
                if d and self.sn and d.startswith(self.sn + "."):
                    par = getattr(n, "_parent", None)
                    if not (isinstance(par, ast.Attribute) and dotted(par)):
                        out.add(d)
            elif isinstance(n, ast.Name) and isinstance(n.ctx, ast.Load):
                if n.id == self.sn:
                    continue
                if n.id in self.cal.params:
                    out.add(f"param:{n.id}")
                    continue
                defs = self.local_defs(n.id)
                if defs:
                    if n.id in seen:
                        continue
                    seen.add(n.id)
                    for d_ in defs:
                        out |= self.leaves(d_, seen)
                else:
                    par = getattr(n, "_parent", None)
                    if isinstance(par, ast.Call) and par.func is n:
                        out.add(f"call:{n.id}")
                    elif isinstance(par, ast.Attribute):
                        pass
                    else:
                        out.add(f"name:{n.id}")
        for n in ast.walk(e):
            if isinstance(n, ast.Call):
                d = dotted(n.func)
                if d:
                    out.add(f"call:{d}")
        return out


    # ------------------------------------------------------------------ forms of expressions at a statement (locals expanded)
    def forms(self, e: ast.expr, stmt: ast.stmt) -> list[ast.expr]:
        nodes = self.g.nodes_of(stmt)
        if not nodes:
            return [e]
        return expand_forms(self.prog, self.cal, self.g, e, nodes[0])

    def form_texts(self, e: "ast.expr | str", stmt: ast.stmt) -> set[str]:
        if isinstance(e, str):
            e = ast.parse(e, mode="eval").body
        return {" ".join(ast.unparse(f).split()) for f in self.forms(e, stmt)}

    def read_nodes(self, e: ast.expr, stmt: ast.stmt, mention: str) -> set[Node]:
        """CFG nodes at which `self.<mention>` is actually read on behalf of `e` evaluated at `stmt`
        (the statement itself, or the definitions of the locals `e` is built from)."""
        out: set[Node] = set()
        seen: set[int] = set()

        def visit(expr: ast.expr, at: Node) -> None:
            if any(isinstance(x, ast.Attribute) and x.attr == mention for x in ast.walk(expr)):
                out.add(at)
            for x in ast.walk(expr):
                if isinstance(x, ast.Name) and isinstance(x.ctx, ast.Load) and x.id not in self.cal.params and x.id != self.sn:
                    for node_d, kind, a in reaching_events(self.g, x.id, at):
                        if kind == "assign" and getattr(a, "value", None) is not None and id(a) not in seen:
                            seen.add(id(a))
                            visit(a.value, node_d)  # type: ignore[union-attr]
        for n in self.g.nodes_of(stmt):
            visit(e, n)
        return out

    def label_parts(self, chunk: ast.expr, stmt: ast.stmt) -> list[tuple[ast.expr, ast.expr]]:
        """(label, multiplicity) readings of a label chunk `[LAB] * M` / `M * [LAB]` / `np.full(M, LAB)` / `np.repeat(LAB, M)`, through locals."""
        out = []
        cands = [chunk]
        if isinstance(chunk, ast.Name):
            for node_d, kind, a in [ev for n in self.g.nodes_of(stmt) for ev in reaching_events(self.g, chunk.id, n)]:
                if kind == "assign" and getattr(a, "value", None) is not None:
                    cands.append(a.value)  # type: ignore[union-attr]
        for c in cands:
            if isinstance(c, ast.BinOp) and isinstance(c.op, ast.Mult):
                factors: list[ast.expr] = []

                def flat(e: ast.expr) -> None:
                    if isinstance(e, ast.BinOp) and isinstance(e.op, ast.Mult):
                        flat(e.left)
                        flat(e.right)
                    else:
                        factors.append(e)
                flat(c)
                lists = [f for f in factors if isinstance(f, (ast.List, ast.Tuple)) and len(f.elts) == 1]
                rest = [f for f in factors if f not in lists]
                if len(lists) == 1 and rest:
                    m = rest[0]
                    for r in rest[1:]:
                        m = ast.fix_missing_locations(ast.copy_location(ast.BinOp(left=m, op=ast.Mult(), right=r), c))
                    out.append((lists[0].elts[0], m))
            elif isinstance(c, ast.Call) and (dotted(c.func) or "").split(".")[-1] == "full" and len(c.args) >= 2:
                out.append((c.args[1], c.args[0]))
            elif isinstance(c, ast.Call) and (dotted(c.func) or "").split(".")[-1] == "repeat" and len(c.args) >= 2:
                out.append((c.args[0], c.args[1]))
        return out


# ---------------------------------------------------------------------------------------------- abstract iterations
def iteration_table(v: "CalibrateView", assignment: dict[str, bool]):
    """Abstract paths through one iteration of the batch loop under a truth assignment of the atoms
    P (convergence_precision is not None), C (check_convergence(...) is true), S (saving_folder is not None), V (verbose)."""
    from .pathval import AtomTable, iteration_paths
    conv, chk = {id(c) for c in v.convergence}, {id(c) for c in v.checkpoint}
    others = {"update": v.update, "get_next": v.get_next, "sample": v.sample, "simulate": v.simulate, "loss": v.compute_loss}
    by_id = {id(c): name for name, cs in others.items() for c in cs}

    def call_atom(c: ast.Call):
        if id(c) in conv:
            return "C", "conv"
        if id(c) in chk:
            return None, "checkpoint"
        if id(c) in by_id:
            return None, by_id[id(c)]
        return None, None

    def write_event(s: ast.stmt) -> list[str]:
        return [f"write:{a}" for a, stmts in v.writes.items() if any(x is s for x in stmts)]

    atoms = AtomTable(v.sn, {"convergence_precision": "P", "saving_folder": "S"}, {"verbose": "V"}, call_atom)
    return iteration_paths(v.g, v.head, v.loop_nodes, atoms, assignment, write_event)
