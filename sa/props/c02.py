"""C02 - the recorded history is aligned, truthful and append-only (structural clauses)."""
from __future__ import annotations

import ast

from ..alias import AliasAnalysis
from ..calib import COUNTERS, HISTORY, NORMAL, CalibrateView
from ..cfg import CFG
from ..errors import AnalysisError
from ..model import FuncInfo, dotted, src, walk_scope
from ..report import Context
from ..util import attr_store_sites, calls_in, is_self_attr, kwarg, node_for, normaliser, parse_expr, path_text, returns_of
from . import c08, c16

LEVEL_TEXT = (
    "Static analysis of Calibrator.calibrate / simulate_model and everything the history arrays are lent to (no "
    "execution): (R1) the five history arrays and two counters are written only in __init__, calibrate and "
    "restore_from_checkpoint, in calibrate only in the append form X = stack((X, NEW)); (R2) the five extensions and the "
    "counter update form one commit region with no call into sampler, model, loss or scheduler in between, and their "
    "chunk lengths fall in one class under the single axiom len(sample()) == batch_size; (R3) ensemble replication is "
    "row-major per parameter (np.repeat axis 0) and the reshape leads with (rows, ensemble, N, D); the model receives "
    "(row, N, seed); (R4) one loss per element of the new series in order, compute_loss(sim, real); (R5) batch label is "
    "current_batch_index read before its single increment, sampler label is the id of the class of the very sampler "
    "that produced the batch; (R6) both returned arrays are indexed by the same ascending argsort of the losses; (R7) "
    "interprocedural alias analysis: nothing the history arrays, the new series or the real data are lent to "
    "(samplers, losses, filters, checkpoint writer) writes into them in place. Re-running the model / recomputing a "
    "loss to compare values is a runtime clause and is not decided."
    " Included: the shape-preservation rules of the deduplication wrapper (C12: sample() hands back exactly batch_size rows - the labels are written for batch_size samples), and the user's model receives a private copy of the proposed batch (it is the one callee not assumed to leave its argument alone)."
    ' An id, once handed out, keeps designating the same sampler class (id-table rules of C18); sample() never re-binds the history it was passed.'
    " The evaluation-state rule of C08 is included (a loss evaluation leaves nothing behind for the next: the loss recorded for a row is the loss of that row's simulation)."
)
TECHNIQUE = "who-may-write + append-form rules, CFG region queries, normal forms, interprocedural alias/mutation analysis"

STACKERS = {"numpy.vstack", "numpy.hstack", "numpy.concatenate", "numpy.append", "numpy.row_stack"}


def run(ctx: Context) -> None:
    v = CalibrateView(ctx.prog)
    ctx.analysed(v.cal)
    ctx.rule(r1_writers, v)
    ctx.rule(r2_aligned, v)
    ctx.rule(r3_layout)
    ctx.rule(r4_loss_association, v)
    ctx.rule(r5_labels, v)
    ctx.rule(r6_sorted_return, v)
    ctx.rule(r7_lent_arrays)
    # every per-sample record has one row per proposed point only if sample() hands back exactly batch_size rows: the labels are written for
    # `batch_size` samples whatever the sampler returned (shape-preservation rules of the deduplication wrapper, shared with C12)
    from . import c12
    ctx.rule(c12.sample_rules)
    # "the id of the sampler the scheduler designated": an id, once handed out, keeps designating the same sampler class (id-table rules of C18)
    from . import c18
    ctx.rule_any(c18.r1_semantic, c18.r1_monotone)
    ctx.rule(c18.r1_writers)
    # "the loss recorded for a row is the loss of that row's simulation": an evaluation leaves nothing behind for the next one (state rule of C08 / C07)
    from . import c08 as _c08
    ctx.rule(_c08.r2_no_state)


# ---------------------------------------------------------------------------------------------- R1
def new_chunk(v: CalibrateView, stmt: ast.stmt, attr: str) -> ast.expr | None:
    """For `self.X = stack((self.X, NEW))` return NEW, else None."""
    if not (isinstance(stmt, ast.Assign) and len(stmt.targets) == 1 and is_self_attr(stmt.targets[0], v.sn, attr)):
        return None
    c = stmt.value
    if not isinstance(c, ast.Call):
        return None
    q = v.prog.qualify(v.cal.module, dotted(c.func) or "")
    if q not in STACKERS or not c.args:
        return None
    if q == "numpy.append":
        if len(c.args) >= 2 and is_self_attr(c.args[0], v.sn, attr):
            return c.args[1]
        return None
    seq = c.args[0]
    if isinstance(seq, (ast.Tuple, ast.List)) and len(seq.elts) == 2 and is_self_attr(seq.elts[0], v.sn, attr):
        ax = kwarg(c, "axis", 1)
        if ax is not None and not (isinstance(ax, ast.Constant) and ax.value == 0):
            return None
        return seq.elts[1]
    return None


def r1_writers(ctx: Context, v: CalibrateView) -> None:
    prog = ctx.prog
    allowed = {"__init__", "calibrate", "restore_from_checkpoint"}
    roots = {f"black_it.calibrator:Calibrator.{a}" for a in allowed}
    n_sites = 0
    for attr in [*HISTORY, *COUNTERS]:
        for f, stmt, recv, value in attr_store_sites(prog, attr, include_plot=True):
            n_sites += 1
            # the three entry points, or a private helper that is called from nowhere else (who-may-call closure over the resolved call graph)
            ok = f.cls is not None and f.cls.name == "Calibrator" and (f.name in allowed or prog.only_reached_from(f, roots))
            ctx.check(ok, "R1.who-may-write", f"{f.qualname.split(':')[1]}:{attr}", f"{attr} written in Calibrator.{f.name}",
                      f"`{src(stmt)[:80]}` writes the history attribute {attr} outside __init__/calibrate/restore_from_checkpoint", f, stmt)
    ctx.floor("R1", "stores to history attributes and counters", n_sites, 7 * 3)
    # append form inside calibrate
    for attr in HISTORY:
        ws = v.writes[attr]
        ctx.floor("R1", f"writes of {attr} in calibrate", len(ws), 1)
        for s in ws:
            chunk = new_chunk(v, s, attr)
            ctx.check(chunk is not None, "R1.append-form", f"Calibrator.calibrate:{attr}:append", f"{attr} is extended as {attr} = stack(({attr}, NEW)) - earlier rows are kept in place",
                      f"`{src(s)[:90]}` is not an append of new rows after the recorded ones (prepend, overwrite or in-place edit)", v.cal, s)
        ctx.check(len(ws) == 1, "R1.append-form", f"Calibrator.calibrate:{attr}:once", f"{attr} is extended once per batch", f"{attr} is written {len(ws)} times in calibrate", v.cal, ws[0])
    n = normaliser(prog, v.cal, inline_locals=False)
    for s in v.writes["current_batch_index"]:
        ok = (isinstance(s, ast.AugAssign) and isinstance(s.op, ast.Add) and isinstance(s.value, ast.Constant) and s.value.value == 1) or \
            (isinstance(s, ast.Assign) and n.rat(s.value).equals(n.rat(parse_expr("self.current_batch_index + 1"))))
        ctx.check(ok, "R1.counters", "Calibrator.calibrate:current_batch_index", "batch index advances by 1", f"batch index updated by `{src(s)}`", v.cal, s)
    ctx.check(len(v.writes["current_batch_index"]) == 1, "R1.counters", "Calibrator.calibrate:current_batch_index:once", "one increment statement", f"{len(v.writes['current_batch_index'])} writes", v.cal, v.cal.node)
    # initial values
    init = ctx.func("black_it.calibrator:Calibrator.__init__")
    for attr, want in (("n_sampled_params", 0), ("current_batch_index", 0)):
        st = [val for f, s, val in prog.attr_stores(prog.find_class("Calibrator"), inherited=False).get(attr, []) if f is init]
        ctx.check(len(st) == 1 and isinstance(st[0], ast.Constant) and st[0].value == want, "R1.counters", f"Calibrator.__init__:{attr}", f"{attr} starts at {want} (zero-based, consecutive batch labels)",
                  f"{attr} starts as `{src(st[0]) if st else '?'}`", init, init.node)


# ---------------------------------------------------------------------------------------------- R2
def r2_aligned(ctx: Context, v: CalibrateView) -> None:
    g, head = v.g, v.head
    n = normaliser(ctx.prog, v.cal, inline_locals=False)
    chunks = {a: new_chunk(v, v.writes[a][0], a) for a in HISTORY if v.writes[a]}
    # sources of the chunks
    def single_def(name: str) -> ast.expr | None:
        d = v.local_defs(name)
        return d[0] if len(d) == 1 else None

    p = chunks.get("params_samp")
    p_name = p.id if isinstance(p, ast.Name) else None
    ok = p_name is not None and single_def(p_name) in v.sample
    ctx.check(ok, "R2.sources", "Calibrator.calibrate:params-chunk", "the recorded parameters are the value returned by <designated sampler>.sample()",
              f"params chunk is `{src(p) if p is not None else '?'}`", v.cal, v.writes["params_samp"][0])
    s_ = chunks.get("series_samp")
    s_name = s_.id if isinstance(s_, ast.Name) else None
    sd = single_def(s_name) if s_name else None
    ok = sd in v.simulate and len(sd.args) == 1 and src(sd.args[0]) == p_name  # type: ignore[union-attr]
    ctx.check(ok, "R2.sources", "Calibrator.calibrate:series-chunk", "the recorded series are simulate_model(<the recorded parameters>)",
              f"series chunk is `{src(s_) if s_ is not None else '?'}` = `{src(sd) if sd is not None else '?'}`", v.cal, v.writes["series_samp"][0])
    l_ = chunks.get("losses_samp")
    l_name = l_.id if isinstance(l_, ast.Name) else None
    ctx.check(l_name is not None, "R2.sources", "Calibrator.calibrate:losses-chunk", "the recorded losses are the per-row list built in this iteration",
              f"losses chunk is `{src(l_) if l_ is not None else '?'}`", v.cal, v.writes["losses_samp"][0])
    # label multiplicities and counter increment: one length class
    meth = None
    for c in v.sample:
        if isinstance(c.func, ast.Attribute) and isinstance(c.func.value, ast.Name):
            meth = c.func.value.id
    len_texts = [f"{meth}.batch_size", f"len({p_name})", f"{p_name}.shape[0]", f"len({s_name})", f"len({l_name})", f"{s_name}.shape[0]"]
    len_class = set(len_texts)
    for attr in ("batch_num_samp", "method_samp"):
        c = chunks.get(attr)
        st_ = v.writes[attr][0] if v.writes[attr] else None
        parts = v.label_parts(c, st_) if c is not None and st_ is not None else []
        if c is not None and st_ is not None and not parts:
            raise AnalysisError(f"{v.cal.loc(st_)}: the {attr} chunk `{src(c)[:60]}` is not a repeated label ([label] * n, np.full, np.repeat); cannot decide R2.lengths")
        want = set().union(*[v.form_texts(t, st_) for t in len_texts if "None" not in t]) if st_ is not None else set()
        ok = bool(parts) and any(v.form_texts(m, st_) & want for _, m in parts)
        mult = parts[0][1] if parts else None
        ctx.check(ok, "R2.lengths", f"Calibrator.calibrate:{attr}:multiplicity", f"{attr} grows by the number of rows of the batch (batch_size == len(sample()))",
                  f"{attr} grows by `{src(mult) if mult is not None else src(c) if c is not None else '?'}` labels - not the number of rows recorded for this batch", v.cal, v.writes[attr][0] if v.writes[attr] else v.cal.node)
    for s in v.writes["n_sampled_params"]:
        val = n.rat(s.value) if isinstance(s, ast.Assign) else None
        if isinstance(s, ast.AugAssign) and isinstance(s.op, ast.Add):
            val = n.rat(parse_expr("self.n_sampled_params")) + n.rat(s.value)
        ok = val is not None and any(val.equals(n.rat(parse_expr(f"self.n_sampled_params + {t}"))) for t in len_class if "None" not in t)
        if not ok and isinstance(s, (ast.Assign, ast.AugAssign)):
            # through locals: `n = len(new_params); self.n_sampled_params += n`
            inc_forms = v.form_texts(s.value, s)
            want_inc = set().union(*[v.form_texts(t, s) for t in len_texts if "None" not in t])
            if isinstance(s, ast.AugAssign) and isinstance(s.op, ast.Add):
                ok = bool(inc_forms & want_inc)
            else:
                ok = any(f in (f"self.n_sampled_params + {w}", f"{w} + self.n_sampled_params") for f in inc_forms for w in want_inc)
        ctx.check(ok, "R2.lengths", "Calibrator.calibrate:n_sampled_params", "the sample counter grows by the number of rows of the batch",
                  f"sample counter updated by `{src(s)}`", v.cal, s)
    # commit region: between the first and the last record write nothing that can raise in user code
    recs = v.write_nodes([*HISTORY, "n_sampled_params"])
    recs = {r for r in recs if r in v.loop_nodes}
    user = v.nodes([*v.sample, *v.simulate, *v.compute_loss, *v.get_next])
    worst = None
    for r in sorted(recs, key=lambda x: x.idx):
        for u in user:
            # user code reachable after a record write, before the iteration ends, with another record write still to come
            pth = g.path_avoiding(r, {u}, {head}, labels=NORMAL)
            if pth is not None:
                after = [x for x in recs if x is not r and g.path_avoiding(u, {x}, {head}, labels=NORMAL) is not None]
                if after:
                    worst = (r, u, pth)
                    break
        if worst:
            break
    ctx.check(worst is None, "R2.commit-region", "Calibrator.calibrate:records-after-user-code",
              "all records of a batch are written after sampler, model and loss have finished for the whole batch (a fault cannot leave them misaligned)",
              f"`{src(worst[0].ast)[:60] if worst else ''}` is recorded before `{src(worst[1].ast)[:60] if worst else ''}` runs: a fault there leaves the records with different lengths",
              v.cal, worst[0].ast if worst else None, path_text(v.cal, worst[2]) if worst else None)
    # every iteration that records one array records all of them
    for a in [*HISTORY, "n_sampled_params"]:
        wn = v.write_nodes([a])
        for other in [*HISTORY, "n_sampled_params"]:
            if other == a:
                continue
            on = v.write_nodes([other])
            for w in wn:
                p1 = g.path_avoiding(w, {head} | v.exits, on, labels=NORMAL)
                p2 = g.path_avoiding(head, {w}, on, labels=NORMAL)
                if p1 is not None and p2 is not None:
                    ctx.fail("R2.all-or-none", f"Calibrator.calibrate:{a}-without-{other}", f"an iteration can extend {a} without extending {other}", v.cal, w.ast, path_text(v.cal, p1))
    ctx.ok("R2.all-or-none", "Calibrator.calibrate:all-records", "every iteration that extends one record extends all of them")


# ---------------------------------------------------------------------------------------------- R3
def r3_layout(ctx: Context) -> None:
    prog = ctx.prog
    f = ctx.func("black_it.calibrator:Calibrator.simulate_model")
    n = normaliser(prog, f)
    p = f.bound_params[0]
    rets = returns_of(f)
    ctx.floor("R3", "return in simulate_model", len(rets), 1)
    par_calls = [c for c in calls_in(f.node, scope_only=False) if isinstance(c.func, ast.Call) and (dotted(c.func.func) or "").split(".")[-1] == "Parallel"]
    ctx.floor("R3", "Parallel(...)(...) dispatch in simulate_model", len(par_calls), 1)
    pc = par_calls[0]
    gen = pc.args[0] if pc.args else None
    if not isinstance(gen, (ast.GeneratorExp, ast.ListComp)) or len(gen.generators) != 1:
        raise AnalysisError(f"{f.loc(pc)}: the parallel dispatch is not a single comprehension over the replicated parameters; cannot decide R3")
    rebound = [x for x in walk_scope(f.node) if isinstance(x, (ast.Assign, ast.AugAssign, ast.AnnAssign)) and any(
        isinstance(t, ast.Name) and t.id == p for t in ast.walk(x.targets[0] if isinstance(x, ast.Assign) else x.target))]
    ctx.check(not rebound, "R3.model-call", "Calibrator.simulate_model:params-not-rebound", "the model is run on exactly the vectors that are recorded (the argument is not transformed)",
              f"`{src(rebound[0])[:80] if rebound else ''}` transforms the parameter array inside simulate_model: the model runs on other vectors than the ones calibrate() records", f, rebound[0] if rebound else None)
    it = gen.generators[0].iter
    tgt = gen.generators[0].target
    it_n = str(n.rat(it))
    rep = str(n.rat(parse_expr(f"np.repeat({p}, self.ensemble_size, axis=0)")))
    enum_form = f"enumerate({rep})"
    ok = it_n in (rep, enum_form) and not gen.generators[0].ifs
    bad_tile = "tile" in it_n
    ctx.check(ok, "R3.replication", "Calibrator.simulate_model:replication", "each parameter row is replicated ensemble_size times consecutively (np.repeat along axis 0), in order",
              f"replication is `{it_n[:120]}`" + (" - np.tile interleaves rows: row i of the batch no longer sits with its E series" if bad_tile else ""), f, it)
    row = None
    if it_n == enum_form and isinstance(tgt, ast.Tuple) and len(tgt.elts) == 2:
        row = src(tgt.elts[1])
    elif isinstance(tgt, ast.Name):
        row = tgt.id
    e = gen.elt
    ok = isinstance(e, ast.Call) and isinstance(e.func, ast.Call) and (dotted(e.func.func) or "").split(".")[-1] == "delayed" and len(e.func.args) == 1 and src(e.func.args[0]) == "self.model"
    ctx.check(ok, "R3.model-call", "Calibrator.simulate_model:delayed-model", "the dispatched callable is the user's model", f"dispatched element is `{src(e)[:80]}`", f, e)
    if ok:
        args = [src(a) for a in e.args]
        ok2 = len(args) == 3 and args[0] == row and args[1] == "self.N" and args[2] in ("self._get_random_seed()",) and not e.keywords
        ctx.check(ok2, "R3.model-call", "Calibrator.simulate_model:model-args", "the model receives (that row, the configured simulation length, a fresh seed)",
                  f"the model is called with {args} for row variable `{row}`", f, e)
    want = {str(n.rat(parse_expr(t.replace("P", p)))) for t in (
        "np.reshape(np.array(PAR), (P.shape[0], self.ensemble_size, self.N, self.D))".replace("PAR", "X"),)}
    for r in rets:
        v = r.value
        ok = isinstance(v, ast.Call) and ((dotted(v.func) or "").split(".")[-1] == "reshape" or (isinstance(v.func, ast.Attribute) and v.func.attr == "reshape"))
        shape = None
        data = None
        if ok:
            if isinstance(v.func, ast.Attribute) and not (dotted(v.func) or "").startswith(("np.", "numpy.")):
                data, shape = v.func.value, (v.args[0] if len(v.args) == 1 else ast.Tuple(elts=list(v.args), ctx=ast.Load()))
            else:
                data, shape = v.args[0], (v.args[1] if len(v.args) > 1 else kwarg(v, "newshape") or kwarg(v, "shape"))
        shp = str(n.rat(shape)) if shape is not None else "?"
        want_shape = str(n.rat(parse_expr(f"({p}.shape[0], self.ensemble_size, self.N, self.D)")))
        alt_shape = str(n.rat(parse_expr(f"(len({p}), self.ensemble_size, self.N, self.D)")))
        ctx.check(ok and shp in (want_shape, alt_shape), "R3.reshape", "Calibrator.simulate_model:reshape", "the results are reshaped to (rows, ensemble_size, N, D) - row-major, matching the replication",
                  f"results are reshaped to `{shp}` (expected {want_shape})", f, r)
        if data is not None:
            dn = str(n.rat(data))
            ok = dn in (f"numpy.array({n.rat(pc)})", f"numpy.asarray({n.rat(pc)})", f"numpy.stack({n.rat(pc)})")
            ctx.check(ok, "R3.reshape", "Calibrator.simulate_model:results-in-order", "the reshaped data are the dispatch results in submission order",
                      f"reshaped data are `{dn[:120]}`", f, r)
        order = kwarg(v, "order") if isinstance(v, ast.Call) else None
        ctx.check(order is None or (isinstance(order, ast.Constant) and order.value == "C"), "R3.reshape", "Calibrator.simulate_model:reshape-order", "C (row-major) order", f"reshape order {src(order)}", f, r)
    ra = kwarg(pc.func, "return_as")
    ctx.check(ra is None or (isinstance(ra, ast.Constant) and ra.value == "list"), "R3.results-order", "Calibrator.simulate_model:return_as", "joblib returns results in submission order (no unordered generator)",
              f"Parallel(return_as={src(ra)}) does not keep submission order", f, pc)


# ---------------------------------------------------------------------------------------------- R4
def r4_loss_association(ctx: Context, v: CalibrateView) -> None:
    calls = v.compute_loss
    ctx.floor("R4", "compute_loss call in calibrate", len(calls), 1)
    series_chunk = new_chunk(v, v.writes["series_samp"][0], "series_samp") if v.writes["series_samp"] else None
    loss_chunk = new_chunk(v, v.writes["losses_samp"][0], "losses_samp") if v.writes["losses_samp"] else None
    s_name = src(series_chunk) if series_chunk is not None else "?"
    l_name = src(loss_chunk) if loss_chunk is not None else "?"
    for c in calls:
        # enclosing iteration over the new series
        cur = getattr(c, "_parent", None)
        loop = None
        comp = None
        while cur is not None and cur is not v.loop_stmt:
            if isinstance(cur, ast.For) and loop is None:
                loop = cur
            if isinstance(cur, (ast.ListComp, ast.GeneratorExp)) and comp is None:
                comp = cur
            cur = getattr(cur, "_parent", None)
        if comp is not None and len(comp.generators) == 1:
            elem, it = src(comp.generators[0].target), comp.generators[0].iter
            guarded = bool(comp.generators[0].ifs)
        elif loop is not None:
            elem, it = src(loop.target), loop.iter
            guarded = any(isinstance(x, (ast.If, ast.Break, ast.Continue)) for x in ast.walk(loop))
        else:
            raise AnalysisError(f"{v.cal.loc(c)}: compute_loss is not called inside an iteration over the new series; cannot decide R4")
        # the header is read canonically (util.loop_binding): `for s in S`, `for i, s in enumerate(S)`, `for i in range(len(S))` bind the element S[_I_]
        from ..util import IDX, loop_binding
        tgt_node = comp.generators[0].target if comp is not None and len(comp.generators) == 1 else loop.target
        elem_forms = {elem}
        iter_ok = src(it) == s_name
        try:
            benv, counts = loop_binding(tgt_node, it)
        except AnalysisError:
            benv, counts = {}, []
        want_elem = f"{s_name}[{IDX}]"
        for nm, ve in benv.items():
            if src(ve).replace(" ", "") == want_elem.replace(" ", ""):
                elem_forms.add(nm)
                iter_ok = iter_ok or any(src(c_).replace(" ", "") in (f"len({s_name})", f"{s_name}.shape[0]") for c_ in counts)
        if benv and not iter_ok and any(src(c_).replace(" ", "") in (f"len({s_name})", f"{s_name}.shape[0]") for c_ in counts):
            iter_ok = True      # index loop over the series: the element is spelled S[i] at the call
            elem_forms |= {f"{s_name}[{nm}]" for nm, ve in benv.items() if src(ve) == IDX}
        # a local bound (once) inside the loop to the element is the element
        if loop is not None:
            for s_ in ast.walk(loop):
                if isinstance(s_, ast.Assign) and len(s_.targets) == 1 and isinstance(s_.targets[0], ast.Name) and src(s_.value) in elem_forms \
                        and sum(1 for x in ast.walk(loop) if isinstance(x, ast.Name) and x.id == s_.targets[0].id and isinstance(x.ctx, ast.Store)) == 1:
                    elem_forms.add(s_.targets[0].id)
        ctx.check(iter_ok, "R4.iteration", "Calibrator.calibrate:loss-iteration", f"one loss per element of {s_name}, in order",
                  f"losses are computed while iterating `{src(it)}`, the recorded series are `{s_name}`", v.cal, it)
        # only a guard that can skip the loss call itself matters (a re-raising handler or a log line inside the loop does not)
        if loop is not None and comp is None:
            guarded = any(isinstance(x, (ast.Break, ast.Continue)) for x in ast.walk(loop)) or any(
                isinstance(x, ast.If) and any(y is c for y in ast.walk(x)) for x in ast.walk(loop))
        ctx.check(not guarded, "R4.iteration", "Calibrator.calibrate:loss-unconditional", "every element gets a loss", "some elements can be skipped in the loss loop", v.cal, c)
        # names bound by the header that stand for something else than the element (`for s, r in zip(S, repeat(self.real_data))`) are read through the binding
        from ..util import _substitute

        def through(e_: ast.expr) -> str:
            for nm_, ve_ in benv.items():
                if nm_ not in elem_forms and src(ve_) != IDX:
                    e_ = _substitute(e_, nm_, ve_)
            return src(e_)
        args = [through(a) for a in c.args] + [f"{k.arg}={through(k.value)}" for k in c.keywords]
        ok = any(args in ([el, "self.real_data"], [f"sim_data_ensemble={el}", "real_data=self.real_data"]) for el in elem_forms)
        ctx.check(ok, "R4.roles", "Calibrator.calibrate:compute_loss-args", "compute_loss(<this row's series>, self.real_data)",
                  f"compute_loss called with {args}", v.cal, c)
        ctx.check(isinstance(c.func, ast.Attribute) and src(c.func.value) == "self.loss_function", "R4.roles", "Calibrator.calibrate:configured-loss", "the configured loss function is used",
                  f"loss computed by `{src(c.func)}`", v.cal, c)
        # the result is appended to the list that is recorded
        if loop is not None and comp is None:
            apps = [x for x in ast.walk(loop) if isinstance(x, ast.Call) and isinstance(x.func, ast.Attribute) and x.func.attr == "append" and src(x.func.value) == l_name]
            ok = len(apps) == 1 and (apps[0].args[0] is c or (isinstance(apps[0].args[0], ast.Name) and any(d is c for d in v.local_defs(apps[0].args[0].id))))
            ctx.check(ok, "R4.collect", "Calibrator.calibrate:loss-append", f"each loss is appended once to {l_name}", f"the computed loss is not appended (once) to `{l_name}`", v.cal, loop)
            inits = [d for d in v.local_defs(l_name) if isinstance(d, ast.List) and not d.elts]
            ctx.check(len(v.local_defs(l_name)) == 1 and len(inits) == 1, "R4.collect", "Calibrator.calibrate:loss-list-fresh", f"{l_name} starts empty in every iteration",
                      f"{l_name} is not a fresh empty list per batch", v.cal, loop)
            for d in v.local_defs(l_name):
                pass


# ---------------------------------------------------------------------------------------------- R5
def r5_labels(ctx: Context, v: CalibrateView) -> None:
    g, head = v.g, v.head
    st_b = v.writes["batch_num_samp"][0] if v.writes["batch_num_samp"] else None
    chunk = new_chunk(v, st_b, "batch_num_samp") if st_b is not None else None
    parts = v.label_parts(chunk, st_b) if chunk is not None else []
    if chunk is not None and not parts:
        raise AnalysisError(f"{v.cal.loc(st_b)}: the batch label chunk `{src(chunk)[:60]}` is not a repeated label; cannot decide R5.batch-label")
    lab = parts[0][0] if parts else None
    ok = lab is not None and "self.current_batch_index" in v.form_texts(lab, st_b)
    ctx.check(ok, "R5.batch-label", "Calibrator.calibrate:batch-label", "the batch label is current_batch_index",
              f"batch label is `{src(lab) if lab is not None else src(chunk) if chunk is not None else '?'}`", v.cal, st_b if st_b is not None else v.cal.node)
    inc = v.write_nodes(["current_batch_index"])
    # where the counter is actually read for the label (the record statement, or the local the label was put in)
    labn = v.read_nodes(chunk, st_b, "current_batch_index") if chunk is not None and st_b is not None else set()
    labn = labn or v.write_nodes(["batch_num_samp"])
    for i in inc:
        p = g.path_avoiding(i, labn, {head}, labels=NORMAL)
        ctx.check(p is None, "R5.batch-label", "Calibrator.calibrate:label-before-increment", "the label is read before the index is incremented (zero-based)",
                  "the batch index is incremented before the label is recorded (labels start at 1 / skip)", v.cal, i.ast, path_text(v.cal, p))
    ends = {head} | v.exits
    miss = g.path_avoiding(head, ends, inc | {n for n in v.exits}, labels={"loop", "next", "true", "false"})
    body_start = [t for t, l_ in head.succ if l_ == "loop"][0]
    miss = None if body_start in inc else g.path_avoiding(body_start, ends, inc, labels=NORMAL, include_start=False)
    ctx.check(miss is None, "R5.batch-label", "Calibrator.calibrate:increment-every-iteration", "every completed iteration increments the batch index once",
              "an iteration can complete without incrementing the batch index", v.cal, head.ast, path_text(v.cal, miss))
    # sampler label
    st_m = v.writes["method_samp"][0] if v.writes["method_samp"] else None
    chunk = new_chunk(v, st_m, "method_samp") if st_m is not None else None
    parts = v.label_parts(chunk, st_m) if chunk is not None else []
    if chunk is not None and not parts:
        raise AnalysisError(f"{v.cal.loc(st_m)}: the sampler label chunk `{src(chunk)[:60]}` is not a repeated label; cannot decide R5.sampler-label")
    lab = parts[0][0] if parts else None
    meth = None
    for c in v.sample:
        if isinstance(c.func, ast.Attribute) and isinstance(c.func.value, ast.Name):
            meth = c.func.value.id
    want = set()
    if st_m is not None and meth is not None:
        for t in (f"self.samplers_id_table[type({meth}).__name__]", f"self.samplers_id_table[{meth}.__class__.__name__]"):
            want |= v.form_texts(t, st_m)
    ok = lab is not None and bool(v.form_texts(lab, st_m) & want)
    ctx.check(ok, "R5.sampler-label", "Calibrator.calibrate:sampler-label", "the sampler label is the id of the class of the sampler that produced the batch",
              f"sampler label is `{src(lab) if lab is not None else '?'}` while the batch was produced by `{meth}`", v.cal, st_m if st_m is not None else v.cal.node)
    ok = meth is not None and len(v.local_defs(meth)) == 1 and v.local_defs(meth)[0] in v.get_next
    ctx.check(ok, "R5.sampler-label", "Calibrator.calibrate:designated-sampler", "that sampler is the one returned by scheduler.get_next_sampler() in this iteration",
              "the sampling object is not the scheduler's designated sampler", v.cal, v.cal.node)


# ---------------------------------------------------------------------------------------------- R6
def r6_sorted_return(ctx: Context, v: CalibrateView) -> None:
    n = normaliser(ctx.prog, v.cal)
    rets = returns_of(v.cal)
    ctx.floor("R6", "return in calibrate", len(rets), 1)
    idx = str(n.rat(parse_expr("np.argsort(self.losses_samp)")))
    alt = str(n.rat(parse_expr("self.losses_samp.argsort()")))
    for r in rets:
        val = r.value
        ok = isinstance(val, ast.Tuple) and len(val.elts) == 2
        if ok:
            a, b = val.elts
            # a component bound once to a local (`sorted_losses = losses[idx]`, necessarily after `idx`) is read as what it is bound to
            a = n.env.get(a.id, a) if isinstance(a, ast.Name) else a
            b = n.env.get(b.id, b) if isinstance(b, ast.Name) else b
            # np.take(v, idx) without an axis is v[idx] for the one-dimensional loss vector (it would flatten the two-dimensional parameters)
            if isinstance(b, ast.Call) and (dotted(b.func) or "") in ("np.take", "numpy.take") and len(b.args) == 2 and not b.keywords and src(b.args[0]) == "self.losses_samp":
                b = ast.Subscript(value=b.args[0], slice=b.args[1], ctx=ast.Load())
            ok = isinstance(a, ast.Subscript) and isinstance(b, ast.Subscript) and src(a.value) == "self.params_samp" and src(b.value) == "self.losses_samp" \
                and str(n.rat(a.slice)) == str(n.rat(b.slice)) and str(n.rat(a.slice)) in (idx, alt)
        ctx.check(ok, "R6.sorted-return", "Calibrator.calibrate:return", "returns (params[idx], losses[idx]) with the same idx = argsort(losses), ascending",
                  f"calibrate returns `{src(val)}` (index normal form {str(n.rat(val.elts[0].slice))[:80] if isinstance(val, ast.Tuple) and isinstance(val.elts[0], ast.Subscript) else '?'})", v.cal, r)
    # the index is computed after the last batch (not before the loop)
    g = v.g
    for r in rets:
        if isinstance(r.value, ast.Tuple) and isinstance(r.value.elts[0], ast.Subscript) and isinstance(r.value.elts[0].slice, ast.Name):
            nm = r.value.elts[0].slice.id
            for s in walk_scope(v.cal.node):
                if isinstance(s, ast.Assign) and isinstance(s.targets[0], ast.Name) and s.targets[0].id == nm:
                    for sn in g.nodes_of(s):
                        p = g.path_avoiding(sn, v.write_nodes(["losses_samp", "params_samp"]), set(), labels=NORMAL)
                        ctx.check(p is None, "R6.sorted-return", "Calibrator.calibrate:index-after-loop", "the sort index is computed from the final history",
                                  "the sort index is computed before the history is complete", v.cal, s, path_text(v.cal, p))


# ---------------------------------------------------------------------------------------------- R7
def r7_lent_arrays(ctx: Context, only: tuple[str, ...] | None = None, where: tuple[str, ...] | None = None) -> None:
    """`only`: report in-place writes into these roles only (other checks borrow the rule for the part of the history they depend on)."""
    prog = ctx.prog
    attr_seeds = {("Calibrator", a): {f"history.{a}"} for a in HISTORY}
    attr_seeds[("Calibrator", "real_data")] = {"real_data"}
    param_seeds = {}
    for (q, p), roles in c08.purity_seeds(ctx).items():
        if "loss.sim" in roles:
            param_seeds[(q, p)] = {"batch.series"}
        elif "loss.real" in roles:
            param_seeds[(q, p)] = {"real_data"}
    for k, roles in c16.sampler_seeds(ctx).items():
        param_seeds[k] = {"history.params_samp" if "points" in next(iter(roles)) else "history.losses_samp"}
    save = prog.func("black_it.utils.json_pandas_checkpointing:save_calibrator_state")
    for a in [*HISTORY, "real_data"]:
        if a in save.params:
            param_seeds[(save.qualname, a)] = {f"history.{a}" if a != "real_data" else "real_data"}
    # the freshly proposed batch on its way to the model: the user's model is the one callee that is *not* assumed to leave its argument alone
    # (it receives a private copy today - np.repeat - and models that normalise / clip their parameter vector in place exist)
    sim = prog.func("black_it.calibrator:Calibrator.simulate_model")
    if len(sim.params) > 1:
        param_seeds[(sim.qualname, sim.params[1])] = {"batch.params"}
    aa = AliasAnalysis(prog, param_seeds, attr_seeds).run()
    for q in aa.analysed:
        ctx.functions.add(q)
    for name, roles in sorted(aa.external_receivers.items()):
        if "batch.params" in roles and "model" in name and (only is None or "batch.params" in only):
            ctx.fail("R7.lent-arrays", f"Calibrator.simulate_model:model-receives-batch:{name[:40]}", f"the user's model is called as `{name}` with (a view of) the proposed batch itself: a model that "
                     "modifies its parameter vector in place changes the parameters that are then recorded (and the other ensemble members' input)", sim, sim.node)
    shown = {k: fd for k, fd in aa.findings.items() if (only is None or k[0] in only) and (where is None or any(w in k[1] for w in where))}
    for (role, q, text), fd in sorted(shown.items()):
        ctx.fail("R7.lent-arrays", f"{q.split(':')[1]}:{role}:{text}", f"{fd.what} modifies recorded data ({role}) in place", fd.func, fd.node, fd.chain)
    if not shown:
        ctx.ok("R7.lent-arrays", "calibrator:lent-arrays", f"no in-place write through an alias of history / new series / real data in {len(aa.analysed)} functions")
    ctx.floor("R7", "functions receiving an alias of recorded data", len([1 for v_ in aa.param_tags.values() if v_]), 30)
    ctx.tables["C02.R7.alias_flow"] = {
        "parameters": sorted(f"{q}({p})" for (q, p), v_ in aa.param_tags.items() if v_)[:80],
        "attributes": sorted(f"{c}.{a}" for (c, a), v_ in aa.attr_tags.items() if v_),
        "third_party_callees_receiving_an_alias (assumed pure)": sorted(aa.external_receivers),
    }
    for k in sorted(aa.external_receivers):
        ctx.assume(f"third-party / user callee {k} does not modify the recorded array it receives")
