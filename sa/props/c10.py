"""C10 - the RL scheduler-agent exchange is correct under every thread interleaving."""
from __future__ import annotations

import itertools
import os
import time

from ..errors import AnalysisError
from ..report import Context
from ..sync import SyncModel, explore

LEVEL_TEXT = (
    "Static effect analysis (no execution, no hand-written model): the synchronisation behaviour of the two threads - the "
    "calibration loop through Calibrator.calibrate / BaseScheduler.session / RLScheduler.{start_session,get_next_sampler,"
    "update,end_session}, and RLScheduler._train through CalibrationEnv.step / get_reward - is summarised from their "
    "control-flow graphs by an abstract small-step semantics that keeps only queue put/get/get_nowait/empty (queues up to "
    "the aliasing created by the constructors), Thread start/join, accesses to the shared attributes, policy/learn, "
    "None-ness and tuple constants of messages, and abstracts everything else to unknown values / nondeterministic "
    "branches. The product of the two summaries is explored exhaustively (all interleavings at the synchronisation "
    "points, FIFO queues) for every plan of calibrate() calls within the bound, and checked for: deadlock; messages left "
    "over or a live thread when a session ends; learn() only on a fresh batch outcome, for the action that batch "
    "executed, exactly once, never after the end marker; reward derived from that outcome; identical batch->action map "
    "and learn history before every policy() call on all interleavings (schedule independence); no state in which both "
    "threads are about to access the same shared attribute with one writing (race candidates). A violation is reported "
    "as the source statements along the offending product path."
    ' The calibrate loop hands the outcome of every executed batch to the scheduler (update once per iteration, C09-R1) - the product analysis takes the loop as it finds it, this rule pins it.'
    ' The action put on the queue is a valid index into the line-up (policy rule of C19).'
    " A queue / thread / agent operation nested inside a larger expression is hoisted when it is the expression's only call, otherwise the statement is outside the vocabulary (undecided); starred arguments carry their dependencies."
)
TECHNIQUE = "effect analysis: extraction of communicating thread summaries from CFGs + exhaustive product exploration (interleaving semantics, FIFO queues)"
LEVEL_NOTE = ("Trusted base: Python semantics of the statement kinds handled by sa/cfg.py and sa/sync.py (generator-based context managers, try/finally, "
              "exception propagation), FIFO blocking semantics of queue.Queue and Thread.join; user code (model, loss, samplers) interacts with the scheduler only "
              "through the calls visible in Calibrator.calibrate; the bound on sessions and batches stated in the evidence.")


def plans(max_sessions: int, max_batches: int) -> list[tuple[int, ...]]:
    out = []
    for s in range(1, max_sessions + 1):
        out.extend(itertools.product(range(1, max_batches + 1), repeat=s))
    return out


def run_product(ctx: Context, props: tuple[str, ...], faults: bool, pl: list[tuple[int, ...]], label: str, also: tuple[str, ...] = ()) -> None:
    t0 = time.time()
    res = explore(ctx.prog, pl, faults=faults)
    mine = {k: v for k, v in res.violations.items() if v[0] in props or (also and k.startswith(also))}
    for key, (prop, msg, trace, plan) in sorted(mine.items()):
        k2 = key.split(":(")[0] if key.startswith("schedule-dependence") else key
        ctx.fail(f"P.{label}", k2, f"{msg} [plan of calibrate() calls: {plan}]", None, None, trace[-40:])
    families = {"P1.deadlock": ("deadlock",), "P2.session-end-clean": ("leftover", "thread-left-running", "session-flag", "second-agent-thread", "agent-thread-dies"),
                "P3.learn-discipline": ("learn-", "reward-", "action-"), "P4.schedule-independence": ("schedule-dependence", "later-batch"), "P5.race-free": ("race:",),
                "E.exception-discipline": ("calibrate-raises-other", "fault-swallowed", "thread-op-on-unset")}
    for plan in pl:
        for fam, prefixes in families.items():
            bad = [k for k, v in mine.items() if v[3] == plan and k.startswith(prefixes)]
            if not bad:
                ctx.ok(f"{fam}", f"{label}:plan={plan}", f"{fam} holds on every interleaving of plan {plan}" + (" with one injected fault" if faults else ""))
    ctx.notes.setdefault("product", {})[label] = {
        "plans": [list(p) for p in pl], "states": res.states, "transitions": res.transitions, "terminal_states": res.terminal,
        "faults_injected": faults, "exhaustive": True, "wall_s": round(time.time() - t0, 2),
        "other_property_violations_seen": sorted(k for k, v in res.violations.items() if v[0] not in props),
    }
    ctx.notes["states"] = ctx.notes.get("states", 0) + res.states
    ctx.notes["transitions"] = ctx.notes.get("transitions", 0) + res.transitions
    for tr in res.sample_traces[:1]:
        ctx.sample({"product_path": tr[:30]})


def run(ctx: Context) -> None:
    model = SyncModel(ctx.prog)
    for q in sorted(model.relevant):
        ctx.functions.add(q)
    ctx.tables["C10.vocabulary"] = {"queues": {f"{o}.{a}": q for (o, a), q in model.queue_of.items()}, "inlined_functions": sorted(model.relevant),
                                    "shared_attributes": sorted(f"{o}.{a}" for o, a in model.mutable), "session_flag": model.session_flag,
                                    "initial_constants": {f"{o}.{a}": str(v[1]) for (o, a), v in sorted(model.init_heap.items())}}
    # the agent's generator must be (re)seeded before its thread exists: the seed cascade precedes the session
    from ..calib import CalibrateView
    from . import c05
    ctx.rule(c05.r1_seed_guard, CalibrateView(ctx.prog), "S")
    # "the agent learns exactly once for each batch it chose" starts in calibrate: the outcome of every executed batch is handed to the scheduler
    # (update on every iteration, once) - the product analysis takes the calibrate loop as it finds it, this rule pins it (shared with C09-R1)
    from . import c09
    ctx.rule(c09.r1_calibrate_pairing)
    # the action put on the queue indexes the line-up: the agent only ever returns valid action indices (C19-R3), else get_next_sampler raises in the
    # calibration thread while the agent waits for an outcome
    from . import c19
    ctx.rule(c19.policy)
    thorough = ctx.tier == "thorough"
    pl = plans(3, 3) if thorough else plans(2, 2)
    ctx.rule(run_product, ("C10", "C09"), False, pl, "fault-free")
    if thorough:
        ctx.rule(run_product, ("C10", "C09"), True, plans(2, 2), "with-faults")
