"""C01 - a calibration run is a pure function of its configuration and seed (determinism discipline)."""
from __future__ import annotations

import ast

from ..calib import CalibrateView
from ..cfg import CFG
from ..errors import AnalysisError
from ..model import ClassInfo, FuncInfo, dotted, mangle, src, walk_scope
from ..report import Context
from ..util import calls_in, dep_leaves, is_self_attr, kwarg, node_for, path_text
from . import c02, c05

LEVEL_TEXT = (
    "Static analysis (no execution) of the determinism discipline: (R1) the seed cascade is triggered iff "
    "current_batch_index == 0, before the session, from calibrate only; (R2) every owner of seedable components "
    "(scheduler -> samplers, RL scheduler -> agent and environment) re-seeds each of them on every path of its "
    "_set_random_state with a fresh draw of its own generator taken inside the loop (one stream per sampler); (R3) every "
    "override re-seeds the base first with the unmodified seed; (R4) every attribute drawn at construction is re-drawn by "
    "_set_random_state (no constructor seed survives); (R5) randomness sources: no global numpy/stdlib RNG, os.urandom, "
    "uuid, hash/id anywhere outside plot/, default_rng only in BaseSeedable._set_random_state with the seed, every "
    "stochastic third-party object receives a seed drawn from the owner's generator; (R6) simulation seeds are drawn in "
    "the parent as arguments of the dispatched call, in order, and no generator object is shipped to a worker; (R7) "
    "non-interference: verbosity, saving folder, n_jobs and the wall clock reach only prints, the Parallel n_jobs "
    "argument, and the checkpoint - never history, counters, draws, calls into scheduler/sampler/loss/model or loop "
    "exits; create_checkpoint writes no calibrator state and draws nothing. Bit-identity of two runs and determinism of "
    "third-party libraries are not decided."
    " Also (R4b) an attribute that keeps an object which captured the sampler's generator (a frozen scipy distribution, a bound method of the generator) is rebuilt in code reachable from _set_random_state, so that a reseed is not bypassed by a cached object."
    ' The checkpoint writer only reads the history it is lent (alias analysis of C02-R7 restricted to the save path): a run with a saving folder equals a run without.'
    " The module-state rule of C05 (R2) is included: a second run in the same process is the same run only if nothing in the stateful modules survives the first (a memo keyed injectively by value, whose entries nobody writes into, is not observable and exempt)."
)
TECHNIQUE = "who-may-call tables, seed-provenance dataflow, must-pass-through CFG queries, control/data non-interference (taint) analysis"

GLOBAL_RNG = {"rand", "randn", "random", "random_sample", "randint", "choice", "shuffle", "permutation", "seed", "normal", "uniform", "sample",
              "standard_normal", "beta", "binomial", "poisson", "exponential", "RandomState", "get_state", "set_state", "bytes"}
STOCHASTIC_CTORS = {"RandomForestClassifier": "random_state", "RandomForestRegressor": "random_state", "XGBRegressor": "random_state", "XGBClassifier": "random_state",
                    "GaussianProcessRegressor": "random_state", "RandomUniformSampler": "random_state", "KMeans": "random_state", "ExtraTreesRegressor": "random_state",
                    "GradientBoostingRegressor": "random_state", "MLPRegressor": "random_state"}
FROZEN_RV = {"betabinom", "norm", "binom", "poisson", "uniform", "randint", "beta", "gamma", "expon"}


def run(ctx: Context) -> None:
    _run(ctx)
    # a run with a saving folder equals a run without: the checkpoint writer only reads the history it is lent (alias analysis of C02-R7, writer side)
    ctx.rule(c02.r7_lent_arrays, None, ("save_calibrator_state", "create_checkpoint", "checkpointing"))


def _run(ctx: Context) -> None:
    v = CalibrateView(ctx.prog)
    ctx.analysed(v.cal)
    ctx.rule(c05.r1_seed_guard, v, "R1")
    ctx.rule(r2_cascade)
    ctx.rule(r3_super_first)
    ctx.rule(r4_constructor_draws)
    ctx.rule(r4b_captured_generator)
    ctx.rule(r5_sources)
    ctx.rule(r6_parent_seeds)
    ctx.rule(c02.r3_layout)
    ctx.rule(r7_non_interference, v)
    ctx.rule(c05.r2a_global_state)


def _is_fresh_draw(f: FuncInfo, e: ast.expr | None) -> bool:
    """`self._get_random_seed()` evaluated right here (not a value computed earlier)."""
    return isinstance(e, ast.Call) and isinstance(e.func, ast.Attribute) and e.func.attr == "_get_random_seed" and isinstance(e.func.value, ast.Name) and e.func.value.id == f.self_name and not e.args


def seedable_components(ctx: Context, c: ClassInfo) -> dict[str, tuple[str, str]]:
    """attribute -> (kind, constructor parameter) for seedable things stored *as such* by instances of c."""
    prog = ctx.prog
    seedable = prog.find_class("BaseSeedable")
    out: dict[str, tuple[str, str]] = {}
    init = c.methods.get("__init__")
    if init is None:
        return out
    for attr, stores in prog.attr_stores(c, inherited=False).items():
        for f, s, v in stores:
            if f is not init or v is None or isinstance(s, ast.AugAssign):
                continue
            e = v
            if isinstance(e, ast.Call) and dotted(e.func) in ("tuple", "list") and len(e.args) == 1:
                e = e.args[0]
            if not isinstance(e, ast.Name):
                continue
            if isinstance(s, ast.Assign) and isinstance(s.targets[0], (ast.Tuple, ast.List)):
                continue
            nm = e.id
            ann = init.param_annotation(nm)
            if ann is None:
                continue
            txt = src(ann)
            k = prog._ann_class(init.module, ann)
            if "Sequence" in txt or "list[" in txt or "tuple[" in txt:
                el = prog._elem_class(init.module, ann)
                if el is not None and seedable in prog.mro(el):
                    out[attr] = ("seq", nm)
            elif k is not None and seedable in prog.mro(k):
                out[attr] = ("one", nm)
            elif k is not None and k.name == "CalibrationEnv":
                out[attr] = ("env", nm)
    return out


def r2_cascade(ctx: Context) -> None:
    prog = ctx.prog
    seedable = prog.find_class("BaseSeedable")
    owners = 0
    for c in prog.subclasses(seedable, strict=True):
        allc: dict[str, tuple[str, str]] = {}
        for k in prog.mro(c):
            allc.update(seedable_components(ctx, k))
        if not allc or c.name == "Calibrator":
            continue
        # several attributes may hold the same objects (e.g. _original_samplers and _samplers): one of them must be seeded
        by_param: dict[tuple[str, str], list[str]] = {}
        for a, (kind, prm) in allc.items():
            by_param.setdefault((kind, prm), []).append(a)
        comps: dict[str, str] = {}
        srs = prog.lookup_method(c, "_set_random_state")
        if srs is None or srs.cls is seedable:
            ctx.fail("R2.cascade", f"{c.name}._set_random_state:missing", f"{c.name} owns seedable components {sorted(comps)} but inherits the plain _set_random_state: they keep their constructor seeds", None, None)
            continue
        owners += 1
        ctx.analysed(srs)
        g = CFG(srs.node)
        text = src(srs.node)
        for (kind, prm), attrs in by_param.items():
            pick = next((a for a in attrs if f"self.{a}" in text or f"self.{a.lstrip('_')}" in text), attrs[0])
            comps[pick] = kind
        for attr, kind in sorted(comps.items()):
            public = attr.lstrip("_")
            key = f"{c.name}._set_random_state:{attr}"
            if srs.cls is c and not _mentions(srs, attr) and _inherited_definition_seeds(prog, c, seedable, attr):
                # an override that only adds to the inherited cascade (`super()._set_random_state(seed)` - order and argument are R3's business):
                # the component is seeded by the ancestor's definition, which is checked on the ancestor
                ctx.ok("R2.cascade", key, f"{c.name} re-seeds {attr} through the inherited definition it calls")
                continue
            if kind == "seq":
                loops = [s for s in walk_scope(srs.node) if isinstance(s, ast.For) and src(s.iter) in (f"self.{attr}", f"self.{public}")]
                elem_of: dict[int, str] = {}
                if not loops:
                    # `for i, sampler in enumerate(self.samplers)`, `for sampler, ... in zip(self.samplers, ...)`: the header read canonically
                    from ..util import IDX, loop_binding
                    for s_ in [x for x in walk_scope(srs.node) if isinstance(x, ast.For)]:
                        try:
                            benv, _counts = loop_binding(s_.target, s_.iter)
                        except AnalysisError:
                            continue
                        for nm, ve in benv.items():
                            if src(ve).replace(" ", "") in (f"self.{attr}[{IDX}]", f"self.{public}[{IDX}]"):
                                loops.append(s_)
                                elem_of[id(s_)] = nm
                if not loops and srs.cls is not c:
                    # inherited definition seeds it (checked on the defining class)
                    continue
                if not loops and _escapes(srs, attr):
                    raise AnalysisError(f"{srs.loc(srs.node)}: {srs.qualname.split(':')[1]} hands self.{public} to a callable / a deferred construct (callback list, partial, lambda); "
                                        "whether every element is re-seeded cannot be read")
                ctx.check(len(loops) >= 1, "R2.cascade", key, f"{c.name} re-seeds every element of {attr}",
                          f"{srs.qualname} does not loop over self.{public}: the samplers keep the seeds they were constructed with", srs, srs.node)
                for lp in loops:
                    el = lp.target.id if isinstance(lp.target, ast.Name) else elem_of.get(id(lp))
                    stores = [s for s in ast.walk(lp) if isinstance(s, ast.Assign) and isinstance(s.targets[0], ast.Attribute) and s.targets[0].attr == "random_state" and src(s.targets[0].value) == el]
                    ok = len(stores) == 1 and _is_fresh_draw(srs, stores[0].value)
                    ctx.check(ok, "R2.fresh-draw", f"{key}:per-element-draw", "each element gets its own fresh draw of the owner's generator, taken inside the loop",
                              f"elements of {attr} are seeded by `{src(stores[0]) if stores else '?'}`: not a fresh `self._get_random_seed()` per element (samplers would share a stream)", srs, lp)
                    ctx.check(not any(isinstance(x, (ast.If, ast.Break, ast.Continue)) for x in ast.walk(lp)), "R2.cascade", f"{key}:all-elements", "no element is skipped",
                              f"the seeding loop over {attr} can skip elements", srs, lp)
                    for ln in [x for x in g.live if x.kind == "for" and x.stmt is lp]:
                        p = g.path_avoiding(g.entry, {g.exit}, {ln})
                        ctx.check(p is None, "R2.every-path", f"{key}:every-path", f"every path through _set_random_state re-seeds {attr} (whatever the seed value)",
                                  f"{srs.qualname} can return without re-seeding {attr} (e.g. for a falsy seed such as 0): the samplers keep their constructor seeds", srs, srs.node, path_text(srs, p))
            elif kind == "one":
                stores = [s for s in walk_scope(srs.node) if isinstance(s, ast.Assign) and src(s.targets[0]) == f"self.{attr}.random_state"]
                ok = len(stores) == 1 and _is_fresh_draw(srs, stores[0].value)
                if not stores and _escapes(srs, attr):
                    raise AnalysisError(f"{srs.loc(srs.node)}: {srs.qualname.split(':')[1]} hands self.{attr} to a callable / a deferred construct; whether it is re-seeded cannot be read")
                ctx.check(ok, "R2.cascade", key, f"{attr} is re-seeded with a fresh draw", f"{attr} is seeded by `{src(stores[0]) if stores else 'nothing'}`", srs, stores[0] if stores else srs.node)
                for s in stores:
                    for sn in g.nodes_of(s):
                        p = g.path_avoiding(g.entry, {g.exit}, {sn})
                        ctx.check(p is None, "R2.every-path", f"{key}:every-path", f"every path re-seeds {attr}", f"a path through {srs.qualname} skips re-seeding {attr}", srs, s, path_text(srs, p))
            else:
                calls = [cl for cl in calls_in(srs.node, scope_only=False) if isinstance(cl.func, ast.Attribute) and cl.func.attr == "reset" and src(cl.func.value) == f"self.{attr}"]
                if calls and any(isinstance(x, ast.Lambda) and any(y is calls[0] for y in ast.walk(x)) for x in ast.walk(srs.node)):
                    raise AnalysisError(f"{srs.loc(srs.node)}: {srs.qualname.split(':')[1]} resets self.{attr} from inside a lambda; when and with which seed cannot be read")
                ok = len(calls) == 1 and _is_fresh_draw(srs, kwarg(calls[0], "seed"))
                if not calls and _escapes(srs, attr):
                    raise AnalysisError(f"{srs.loc(srs.node)}: {srs.qualname.split(':')[1]} hands self.{attr} to a callable / a deferred construct; whether it is reset cannot be read")
                ctx.check(ok, "R2.cascade", key, f"{attr} is reset with a fresh seed", f"{attr} is reset by `{src(calls[0]) if calls else 'nothing'}`", srs, calls[0] if calls else srs.node)
    ctx.floor("R2", "owners of seedable components", owners, 2)


def _mentions(f, attr: str) -> bool:
    public = attr.lstrip("_")
    return any(isinstance(x, ast.Attribute) and x.attr in (attr, public) and isinstance(x.value, ast.Name) and x.value.id == f.self_name for x in ast.walk(f.node))


HARMLESS = ("len", "enumerate", "zip", "range", "print", "str", "repr", "type", "isinstance", "id", "tuple", "list", "reversed", "sorted", "iter")


def _escapes(f, attr: str) -> bool:
    """self.<attr> (or its public spelling) is passed to a call, captured by a lambda or iterated by a comprehension in `f`: it may be re-seeded there."""
    public = attr.lstrip("_")
    for x in ast.walk(f.node):
        if isinstance(x, ast.Attribute) and x.attr in (attr, public) and isinstance(x.value, ast.Name) and x.value.id == f.self_name:
            cur = getattr(x, "_parent", None)
            while cur is not None and not isinstance(cur, ast.stmt):
                if isinstance(cur, ast.Lambda):
                    return True
                if isinstance(cur, (ast.ListComp, ast.GeneratorExp, ast.SetComp, ast.DictComp)):
                    # iterated by a comprehension: an escape only if the element itself is handed on (to a call other than a harmless read, or into a lambda)
                    evars = {y.id for g_ in cur.generators if any(z is x for z in ast.walk(g_.iter)) for y in ast.walk(g_.target) if isinstance(y, ast.Name)}
                    elts = [cur.key, cur.value] if isinstance(cur, ast.DictComp) else [cur.elt]
                    for e_ in elts:
                        for y in ast.walk(e_):
                            if isinstance(y, ast.Lambda) and any(isinstance(z, ast.Name) and z.id in evars for z in ast.walk(y)):
                                return True
                            if isinstance(y, ast.Call) and (dotted(y.func) or "") not in HARMLESS and any(isinstance(a, ast.Name) and a.id in evars for a in [*y.args, *[k.value for k in y.keywords]]):
                                return True
                    break
                if isinstance(cur, ast.Call) and any(any(y is x for y in ast.walk(a)) for a in [*cur.args, *[k.value for k in cur.keywords]]) \
                        and (dotted(cur.func) or "") not in HARMLESS:
                    return True
                cur = getattr(cur, "_parent", None)
    return False


def _calls_super_srs(f) -> bool:
    return any(isinstance(cl.func, ast.Attribute) and cl.func.attr == "_set_random_state" and isinstance(cl.func.value, ast.Call) and (dotted(cl.func.value.func) or "") == "super"
               for cl in calls_in(f.node))


def _inherited_definition_seeds(prog, c, seedable, attr: str) -> bool:
    """Walking up from `c`: every _set_random_state on the way calls super()._set_random_state, until a definition that mentions the component."""
    for k in prog.mro(c):
        m = k.methods.get("_set_random_state")
        if m is None:
            continue
        if k is seedable:
            return False
        if k is not c and _mentions(m, attr):
            return True
        if not _calls_super_srs(m):
            return False
    return False


def r3_super_first(ctx: Context) -> None:
    prog = ctx.prog
    seedable = prog.find_class("BaseSeedable")
    n = 0
    for c in prog.subclasses(seedable, strict=True):
        srs = c.methods.get("_set_random_state")
        if srs is None:
            continue
        n += 1
        ctx.analysed(srs)
        g = CFG(srs.node)
        p0 = srs.bound_params[0]
        sup = [cl for cl in calls_in(srs.node) if isinstance(cl.func, ast.Attribute) and cl.func.attr == "_set_random_state" and isinstance(cl.func.value, ast.Call) and dotted(cl.func.value.func) == "super"]
        ok = len(sup) == 1 and [src(a) for a in sup[0].args] == [p0] and not sup[0].keywords
        ctx.check(ok, "R3.super-first", f"{c.name}._set_random_state:super-call", "the base class is re-seeded with the unmodified seed",
                  f"{c.name}._set_random_state calls `{src(sup[0]) if sup else 'no super()._set_random_state'}`", srs, sup[0] if sup else srs.node)
        rebound = [s for s in walk_scope(srs.node) if isinstance(s, (ast.Assign, ast.AugAssign)) and any(isinstance(t, ast.Name) and t.id == p0 for t in ast.walk(s.targets[0] if isinstance(s, ast.Assign) else s.target))]
        ctx.check(not rebound, "R3.super-first", f"{c.name}._set_random_state:seed-unmodified", "the seed parameter is not rebound", f"seed rebound by `{src(rebound[0]) if rebound else ''}`", srs, rebound[0] if rebound else None)
        if sup:
            sn = set(node_for(g, sup[0]))
            p = g.path_avoiding(g.entry, {g.exit}, sn)
            ctx.check(p is None, "R3.super-first", f"{c.name}._set_random_state:super-every-path", "every path re-seeds the own generator",
                      f"a path through {c.name}._set_random_state skips the base-class reseed: the object keeps its old generator", srs, srs.node, path_text(srs, p))
            # nothing draws before the reseed
            for cl in calls_in(srs.node):
                if cl is sup[0]:
                    continue
                draws = (isinstance(cl.func, ast.Attribute) and cl.func.attr in ("_get_random_seed", "integers", "random", "choice")) or any(
                    isinstance(t, FuncInfo) and t.cls is c for t in prog.resolve_call(srs, cl))
                if draws:
                    for x in node_for(g, cl):
                        p = g.path_avoiding(g.entry, {x}, sn)
                        ctx.check(p is None, "R3.super-first", f"{c.name}._set_random_state:draw-after-reseed:{src(cl.func)}", "draws happen after the generator was re-seeded",
                                  f"`{src(cl)[:60]}` can draw from the OLD generator (before the reseed)", srs, cl, path_text(srs, p))
    ctx.floor("R3", "_set_random_state overrides", n, 4)
    base = ctx.func("black_it.utils.seedable:BaseSeedable._set_random_state")
    rng = [cl for cl in calls_in(base.node) if (dotted(cl.func) or "").split(".")[-1] == "default_rng"]
    seed_arg = (rng[0].args[0] if rng[0].args else kwarg(rng[0], "seed")) if len(rng) == 1 else None      # positional or `seed=`
    ok = seed_arg is not None and len(rng[0].args) + len(rng[0].keywords) == 1 and src(seed_arg) in ("self.random_state", base.bound_params[0], "self._BaseSeedable__random_state", "self.__random_state")
    ctx.check(ok, "R3.base", "BaseSeedable._set_random_state:default_rng", "the generator is default_rng(seed)", f"generator built by `{src(rng[0]) if rng else '?'}`", base, base.node)


def _reachable_in_class(prog, c: ClassInfo, root: FuncInfo) -> list[FuncInfo]:
    out: list[FuncInfo] = []
    work = [root]
    while work:
        f = work.pop()
        if f in out:
            continue
        out.append(f)
        for cl in calls_in(f.node):
            if isinstance(cl.func, ast.Attribute) and isinstance(cl.func.value, ast.Call) and dotted(cl.func.value.func) == "super" and f.cls is not None:
                t = prog.lookup_method(c, cl.func.attr, after=f.cls)
                if t is not None:
                    work.append(t)
                continue
            if isinstance(cl.func, ast.Attribute) and isinstance(cl.func.value, ast.Name) and cl.func.value.id in (f.self_name, "cls"):
                t = prog.lookup_method(c, cl.func.attr)
                if t is not None:
                    work.append(t)
            elif isinstance(cl.func, ast.Attribute) and dotted(cl.func.value) and prog.class_of_name(f.module, dotted(cl.func.value) or "") is not None:
                k = prog.class_of_name(f.module, dotted(cl.func.value) or "")
                if k in prog.mro(c):
                    t = prog.lookup_method(k, cl.func.attr)
                    if t is not None:
                        work.append(t)
        # property setter `self.random_state = x` -> virtual _set_random_state
        for s in walk_scope(f.node):
            if isinstance(s, ast.Assign) and is_self_attr(s.targets[0], f.self_name, "random_state"):
                t = prog.lookup_method(c, "_set_random_state")
                if t is not None:
                    work.append(t)
    return out


def _drawn_attrs(f: FuncInfo) -> dict[str, ast.stmt]:
    out = {}
    for s in walk_scope(f.node):
        if isinstance(s, (ast.Assign, ast.AnnAssign)) and s.value is not None:
            tgt = s.targets[0] if isinstance(s, ast.Assign) else s.target
            if is_self_attr(tgt, f.self_name):
                txt = src(s.value)
                if "random_generator." in txt or "_get_random_seed()" in txt:
                    out[tgt.attr] = s  # type: ignore[union-attr]
    return out


def r4_constructor_draws(ctx: Context) -> None:
    prog = ctx.prog
    seedable = prog.find_class("BaseSeedable")
    n = 0
    for c in prog.subclasses(seedable, strict=True):
        init = prog.lookup_method(c, "__init__")
        srs = prog.lookup_method(c, "_set_random_state")
        if init is None or srs is None:
            continue
        n += 1
        at_ctor: dict[str, tuple[FuncInfo, ast.stmt]] = {}
        for f in _reachable_in_class(prog, c, init):
            for a, s in _drawn_attrs(f).items():
                at_ctor[a] = (f, s)
        at_reset = set()
        for f in _reachable_in_class(prog, c, srs):
            at_reset |= set(_drawn_attrs(f))
            for s in walk_scope(f.node):
                if isinstance(s, (ast.Assign, ast.AnnAssign)):
                    tgt = s.targets[0] if isinstance(s, ast.Assign) else s.target
                    if is_self_attr(tgt, f.self_name):
                        at_reset.add(mangle(f.cls.name, tgt.attr) if f.cls else tgt.attr)  # type: ignore[union-attr]
                        at_reset.add(tgt.attr)  # type: ignore[union-attr]
        for a, (f, s) in sorted(at_ctor.items()):
            ctx.check(a in at_reset, "R4.ctor-draws-reset", f"{c.name}.{a}", f"{c.name}.{a} (drawn at construction) is re-drawn by _set_random_state",
                      f"{c.name}.{a} is drawn from the generator at construction (`{src(s)[:60]}`) but is not re-assigned when the seed is reset: the constructor seed leaks into the run", f, s)
    ctx.floor("R4", "seedable classes with a constructor", n, 12)


def r4b_captured_generator(ctx: Context) -> None:
    """`self.random_generator` is REPLACED by every seed reset.  An object that captured the generator (a frozen scipy distribution whose `random_state`
    was set to it, an estimator built with it, the generator itself) and is kept in an attribute keeps drawing from the OLD generator after a reseed,
    unless the attribute is re-built in code reachable from `_set_random_state`."""
    prog = ctx.prog
    seedable = prog.find_class("BaseSeedable")
    n_methods = 0
    for c in prog.subclasses(seedable, strict=True):
        srs = prog.lookup_method(c, "_set_random_state")
        reset_attrs: set[str] = set()
        if srs is not None:
            for f in _reachable_in_class(prog, c, srs):
                for s_ in walk_scope(f.node):
                    if isinstance(s_, (ast.Assign, ast.AnnAssign)):
                        tgt = s_.targets[0] if isinstance(s_, ast.Assign) else s_.target
                        if is_self_attr(tgt, f.self_name):
                            reset_attrs.add(tgt.attr)  # type: ignore[union-attr]
        for f in c.methods.values():
            if f.self_name is None or f.name in ("_set_random_state",):
                continue
            n_methods += 1
            gen = lambda e: any(is_self_attr(x, f.self_name, "random_generator") for x in ast.walk(e))  # noqa: E731
            tainted: dict[str, ast.AST] = {}
            changed = True
            stmts = [s_ for s_ in walk_scope(f.node) if isinstance(s_, (ast.Assign, ast.AnnAssign)) and getattr(s_, "value", None) is not None]
            while changed:
                changed = False
                for s_ in stmts:
                    tgt = s_.targets[0] if isinstance(s_, ast.Assign) else s_.target
                    v = s_.value
                    # x.random_state = self.random_generator  /  x = Something(..., random_state=self.random_generator)  /  x = self.random_generator  /  y = (.., x, ..)
                    if isinstance(tgt, ast.Attribute) and isinstance(tgt.value, ast.Name) and tgt.value.id != f.self_name and tgt.attr in ("random_state", "rng", "generator", "bit_generator") and gen(v):
                        if tgt.value.id not in tainted:
                            tainted[tgt.value.id] = s_
                            changed = True
                    elif isinstance(tgt, ast.Name) and tgt.id not in tainted:
                        holds = (isinstance(v, (ast.Attribute,)) and is_self_attr(v, f.self_name, "random_generator")) or \
                            (isinstance(v, ast.Call) and any(gen(k.value) for k in v.keywords if k.arg in ("random_state", "rng", "seed", "generator")) and not any(
                                isinstance(x, ast.Call) and isinstance(x.func, ast.Attribute) and gen(x.func.value) for x in ast.walk(v))) or \
                            (isinstance(v, (ast.Tuple, ast.List, ast.Dict)) and any(isinstance(x, ast.Name) and x.id in tainted for x in ast.walk(v)))
                        if holds:
                            tainted[tgt.id] = s_
                            changed = True
            for s_ in stmts:
                tgt = s_.targets[0] if isinstance(s_, ast.Assign) else s_.target
                if not is_self_attr(tgt, f.self_name) or tgt.attr in ("random_generator",):  # type: ignore[union-attr]
                    continue
                v = s_.value
                captured = (isinstance(v, ast.Attribute) and is_self_attr(v, f.self_name, "random_generator")) or any(isinstance(x, ast.Name) and x.id in tainted and isinstance(x.ctx, ast.Load) for x in ast.walk(v)) \
                    or (isinstance(v, ast.Call) and any(gen(k.value) and not isinstance(k.value, ast.Call) for k in v.keywords if k.arg in ("random_state", "rng", "generator")))
                if captured and tgt.attr not in reset_attrs:  # type: ignore[union-attr]
                    ctx.fail("R4.captured-generator", f"{c.name}.{f.name}:{tgt.attr}", f"`{src(s_)[:90]}` keeps an object that holds the sampler's CURRENT generator object in self.{tgt.attr}; "  # type: ignore[union-attr]
                             "a seed reset replaces self.random_generator, so the kept object goes on drawing from the old stream: after re-seeding, draws no longer depend on the new seed alone", f, s_)
    ctx.floor("R4", "methods of seedable classes scanned for captured generators", n_methods, 40)
    ctx.ok("R4.captured-generator", "seedable-classes:captured-generator", f"{n_methods} methods: no attribute keeps an object bound to the current generator across a seed reset")


def r5_sources(ctx: Context) -> None:
    prog = ctx.prog
    n_calls = 0
    for f in prog.all_functions():
        for c in calls_in(f.node, scope_only=False):
            n_calls += 1
            d = dotted(c.func) or ""
            q = prog.qualify(f.module, d) if d else ""
            key = f"{f.qualname.split(':')[1]}:{q or src(c.func)}"
            if q.startswith("numpy.random.") and q.split(".")[-1] in GLOBAL_RNG:
                ctx.fail("R5.global-rng", key, f"`{src(c)[:70]}` uses numpy's global random state: not controlled by the calibrator seed", f, c)
            if q.startswith("random.") or q in ("os.urandom", "secrets.token_bytes", "secrets.randbelow") or q.startswith("uuid."):
                ctx.fail("R5.global-rng", key, f"`{src(c)[:70]}` is a randomness source outside the seed cascade", f, c)
            if q in ("hash", "id") and not f.name.startswith("__"):
                ctx.fail("R5.global-rng", key, f"`{src(c)[:70]}`: hash()/id() values vary between processes (PYTHONHASHSEED, addresses)", f, c)
            if q.endswith("default_rng"):
                ok = f.qualname == "black_it.utils.seedable:BaseSeedable._set_random_state"
                ctx.check(ok, "R5.default_rng", key, "default_rng is called only by BaseSeedable._set_random_state", f"`{src(c)[:70]}` creates a generator outside the seed cascade", f, c)
            short = d.split(".")[-1]
            if short in STOCHASTIC_CTORS and prog.class_of_name(f.module, d) is None or (short == "RandomUniformSampler" and f.module.name != "black_it.samplers.random_uniform"):
                if short in STOCHASTIC_CTORS:
                    kw = kwarg(c, STOCHASTIC_CTORS[short], 1 if short == "RandomUniformSampler" else None)
                    ok = _is_fresh_draw(f, kw)
                    ctx.check(ok, "R5.third-party-seed", f"{f.qualname.split(':')[1]}:{short}:random_state", f"{short}(random_state=self._get_random_seed())",
                              f"`{src(c)[:80]}`: stochastic object created with random_state={src(kw) if kw is not None else 'unset (OS entropy)'} - not drawn from the owner's generator", f, c)
            if short in FROZEN_RV and q.startswith("scipy.stats"):
                # frozen rv: its random_state must be set to the owner's generator before rvs
                tgt = None
                par = getattr(c, "_parent", None)
                if isinstance(par, ast.Assign) and isinstance(par.targets[0], ast.Name):
                    tgt = par.targets[0].id
                setters = [s for s in walk_scope(f.node) if isinstance(s, ast.Assign) and src(s.targets[0]) == f"{tgt}.random_state" and src(s.value) in ("self.random_generator",)]
                ok = tgt is not None and len(setters) == 1
                ctx.check(ok, "R5.third-party-seed", f"{f.qualname.split(':')[1]}:{short}:random_state", f"frozen scipy rv `{tgt}` draws from the sampler's own generator",
                          f"`{src(c)[:60]}`: the frozen distribution's random_state is not set to self.random_generator (it would use numpy's global state)", f, c)
            if isinstance(c.func, ast.Attribute) and c.func.attr in ("integers", "random", "choice", "normal", "uniform", "shuffle", "permutation", "standard_normal") and not q.startswith(("numpy.random.", "random.")):
                recv = src(c.func.value)
                if isinstance(c.func.value, ast.Name):
                    # a local alias `generator = self.random_generator` (bound once) is the object's own generator
                    from ..poly import single_assignment_env
                    alias = single_assignment_env(f.node).get(c.func.value.id)
                    if alias is not None and src(alias) == f"{f.self_name}.random_generator":
                        recv = "self.random_generator"
                    elif alias is None:
                        # free variable of a local closure: look in the enclosing function
                        outer = getattr(f, "parent", None)
                ok = recv in ("self.random_generator", "random_generator", "self._BaseSeedable__random_generator", "self.__random_generator") or f.name == "get_random_seed"
                if "random" in recv or "rng" in recv or "generator" in recv:
                    ctx.check(ok, "R5.own-generator", f"{f.qualname.split(':')[1]}:{recv}.{c.func.attr}", "draws come from the object's own generator",
                              f"`{src(c)[:70]}` draws from `{recv}`, not from the object's own generator", f, c)
    # a generator object must never be stored into another seedable / passed to a constructor of one
    for f, stmt, recv, value in __import__("sa.util", fromlist=["attr_store_sites"]).attr_store_sites(prog, "random_state"):
        if value is not None and "random_generator" in src(value) and not (isinstance(stmt, ast.Assign) and "rv" in src(stmt.targets[0])):
            ctx.fail("R5.own-generator", f"{f.qualname.split(':')[1]}:shares-generator", f"`{src(stmt)[:80]}` hands the generator object itself to another component: two components share one stream", f, stmt)
    # .rvs() of a scipy distribution without random_state uses numpy's global state
    for f in prog.all_functions():
        for c in calls_in(f.node, scope_only=False):
            if isinstance(c.func, ast.Attribute) and c.func.attr == "rvs":
                recv = c.func.value
                q = prog.qualify(f.module, dotted(recv) or "") if dotted(recv) else ""
                is_dist = q.startswith("scipy.stats") or (isinstance(recv, ast.Call) and prog.qualify(f.module, dotted(recv.func) or "").startswith("scipy.stats"))
                if is_dist:
                    rs = kwarg(c, "random_state")
                    ok = rs is not None and src(rs) in ("self.random_generator",)
                    ctx.check(ok, "R5.third-party-seed", f"{f.qualname.split(':')[1]}:{src(recv)[:30]}.rvs:random_state", "scipy draws use the owner's generator",
                              f"`{' '.join(src(c).split())[:90]}`: random_state={src(rs) if rs is not None else 'unset'} - scipy then draws from numpy's process-global state, outside the seed cascade", f, c)
    # hash-order iteration feeding ordered results (labels, arrays)
    from ..util import set_iteration_sites
    for f, node, what in set_iteration_sites(prog, prog.all_functions()):
        ctx.fail("R5.hash-order", f"{f.qualname.split(':')[1]}:iterates-set:{what[:40]}", f"iteration over the set `{what}` feeds an ordered result: the order of a set of strings/objects depends on "
                 "PYTHONHASHSEED / addresses, so two runs of the same configuration in different processes differ", f, node)
    ctx.floor("R5", "call sites scanned", n_calls, 600)
    ctx.ok("R5.global-rng", "package:scanned", f"{n_calls} call sites scanned for uncontrolled randomness sources")


def r6_parent_seeds(ctx: Context) -> None:
    prog = ctx.prog
    f = ctx.func("black_it.calibrator:Calibrator.simulate_model")
    seeds = [c for c in calls_in(f.node, scope_only=False) if isinstance(c.func, ast.Attribute) and c.func.attr == "_get_random_seed"]
    ctx.check(len(seeds) >= 1, "R6.parent-draw", "Calibrator.simulate_model:seed-drawn-here", "simulation seeds are drawn in simulate_model (the parent process)",
              "simulate_model draws no seed itself: seeds are produced somewhere a worker may run", f, f.node)
    for c in seeds:
        cur = getattr(c, "_parent", None)
        inside_fn = False
        is_arg_of_dispatch = False
        while cur is not None and cur is not f.node:
            if isinstance(cur, (ast.Lambda, ast.FunctionDef)):
                inside_fn = True
            if isinstance(cur, ast.Call) and isinstance(cur.func, ast.Call) and (dotted(cur.func.func) or "").split(".")[-1] == "delayed" and any(a is c for a in cur.args):
                is_arg_of_dispatch = True
            cur = getattr(cur, "_parent", None)
        ctx.check(is_arg_of_dispatch and not inside_fn, "R6.parent-draw", "Calibrator.simulate_model:seed-is-argument", "the seed is an argument of delayed(model)(...), evaluated by the parent while it builds the task list",
                  "the seed draw is wrapped in a callable / not an argument of the dispatched call: it would be evaluated in a worker", f, c)
    # nothing that owns random state may be shipped to a worker
    for c in calls_in(f.node, scope_only=False):
        if isinstance(c.func, ast.Call) and (dotted(c.func.func) or "").split(".")[-1] == "delayed":
            for a in [*c.args, *[k.value for k in c.keywords]]:
                txt = src(a)
                bad = "random_generator" in txt or txt in ("self",) or txt.endswith(".random_generator")
                ctx.check(not bad, "R6.no-generator-shipped", f"Calibrator.simulate_model:dispatch-arg:{txt[:30]}", "dispatched arguments carry no generator object",
                          f"`{txt}` is shipped to the worker: with n_jobs > 1 it is pickled, workers draw from copies and the parent stream never advances (result depends on n_jobs)", f, a)
            callee = c.func.args[0] if c.func.args else None
            ctx.check(callee is not None and src(callee) == "self.model", "R6.no-generator-shipped", "Calibrator.simulate_model:dispatched-callable", "the dispatched callable is the user's model itself",
                      f"the dispatched callable is `{src(callee) if callee is not None else '?'}`: seeds may be drawn inside it, in the worker", f, c)
    for name in ("_get_random_seed",):
        g = ctx.func(f"black_it.utils.seedable:BaseSeedable.{name}")
        ok = any(isinstance(t, FuncInfo) and t.name == "get_random_seed" for c in calls_in(g.node) for t in prog.resolve_call(g, c))
        ctx.check(ok, "R6.parent-draw", "BaseSeedable._get_random_seed", "seeds come from the object's own generator", "seed helper changed", g, g.node)


# ---------------------------------------------------------------------------------------------- R7
INERT_CALLS = {"print", "numpy.round", "numpy.min", "numpy.max", "numpy.average", "numpy.mean", "numpy.median", "numpy.std", "textwrap.dedent", "round", "len", "str", "format", "type", "min", "max",
               "float", "int", "repr", "sum", "abs", "sorted", "time.time", "time.perf_counter", "time.monotonic", "time.process_time"}     # (a clock read has no effect; what it feeds is followed below)
# methods that only build text / fill a local list when the receiver is a string literal, an f-string or a (non-parameter) local
INERT_METHODS = {"join", "format", "append", "extend", "ljust", "rjust", "center", "strip", "upper", "lower", "title", "splitlines", "split", "replace", "item", "tolist"}


LOG_METHODS = {"debug", "info", "warning", "warn", "error", "critical", "exception", "log", "isEnabledFor", "getEffectiveLevel"}


def _is_logger(prog, f: FuncInfo, e: ast.expr) -> bool:
    """`e` is the stdlib logging module or a module-level name bound to logging.getLogger(...): writing to it is output, like print."""
    d = dotted(e)
    if d is None:
        if isinstance(e, ast.Call):
            return (prog.qualify(f.module, dotted(e.func) or "") or "") == "logging.getLogger"
        return False
    if (prog.qualify(f.module, d) or "") == "logging":
        return True
    if isinstance(e, ast.Name):
        for mod in (f.module,):
            for st in mod.tree.body:
                if isinstance(st, (ast.Assign, ast.AnnAssign)) and st.value is not None and isinstance(st.value, ast.Call) \
                        and (prog.qualify(mod, dotted(st.value.func) or "") or "") == "logging.getLogger":
                    tg = st.targets[0] if isinstance(st, ast.Assign) else st.target
                    if isinstance(tg, ast.Name) and tg.id == e.id:
                        return True
        # a logger imported from another module of the package
        q = prog.qualify(f.module, e.id) or ""
        if "." in q:
            mname, nm = q.rsplit(".", 1)
            other = prog.modules.get(mname) if hasattr(prog, "modules") else None
            if other is not None:
                for st in other.tree.body:
                    if isinstance(st, ast.Assign) and isinstance(st.value, ast.Call) and (prog.qualify(other, dotted(st.value.func) or "") or "") == "logging.getLogger" \
                            and isinstance(st.targets[0], ast.Name) and st.targets[0].id == nm:
                        return True
    return False


def _inert_call(prog, f: FuncInfo, x: ast.Call) -> bool:
    d = dotted(x.func)
    q = prog.qualify(f.module, d) if d else None
    if q in INERT_CALLS:
        return True
    if isinstance(x.func, ast.Attribute) and x.func.attr in LOG_METHODS and _is_logger(prog, f, x.func.value):
        return True
    if isinstance(x.func, ast.Attribute) and x.func.attr in INERT_METHODS:
        r = x.func.value
        if isinstance(r, (ast.Constant, ast.JoinedStr)):
            return True
        if isinstance(r, ast.Name) and r.id not in f.params and r.id != f.self_name:
            return True
    return False


def _is_inert(prog, f: FuncInfo, node) -> tuple[bool, str]:
    a = node.ast
    if node.kind in ("break", "continue", "return", "raise"):
        return False, f"`{node.kind}`"
    if node.kind in ("test", "join", "with_exit", "entry", "exit"):
        return True, ""
    if a is None:
        return True, ""
    if isinstance(a, ast.Expr) and isinstance(a.value, ast.Constant):
        return True, ""
    for x in ast.walk(a):
        if isinstance(x, ast.Call):
            if not _inert_call(prog, f, x):
                return False, f"call `{src(x)[:50]}`"
        if isinstance(x, (ast.Yield, ast.Await)):
            return False, "yield"
    if isinstance(a, (ast.Assign, ast.AugAssign, ast.AnnAssign)):
        tg = a.targets[0] if isinstance(a, ast.Assign) else a.target
        if not isinstance(tg, ast.Name):
            return False, f"store `{src(a)[:50]}`"
    return True, ""


def _inert_stmt(prog, f: FuncInfo, st: ast.stmt) -> bool:
    """A statement that only produces output: print / logging calls, possibly under tests (`if message: print(message)`)."""
    if isinstance(st, ast.Pass):
        return True
    if isinstance(st, ast.Expr):
        return all(_inert_call(prog, f, x) for x in ast.walk(st.value) if isinstance(x, ast.Call)) and not any(isinstance(x, (ast.Yield, ast.YieldFrom, ast.Await, ast.NamedExpr)) for x in ast.walk(st.value))
    if isinstance(st, ast.If):
        return all(_inert_call(prog, f, x) for x in ast.walk(st.test) if isinstance(x, ast.Call)) and not any(isinstance(x, ast.NamedExpr) for x in ast.walk(st.test)) \
            and all(_inert_stmt(prog, f, b) for b in [*st.body, *st.orelse])
    return False


def r7_non_interference(ctx: Context, v: CalibrateView) -> None:
    prog = ctx.prog
    sources = {"self.verbose": "verbosity", "self._verbose": "verbosity", "param:verbose": "verbosity"}
    funcs = [v.cal, prog.func("black_it.calibrator:Calibrator.simulate_model"), prog.func("black_it.calibrator:Calibrator.create_checkpoint"),
             prog.func("black_it.search_space:SearchSpace.__init__"), prog.func("black_it.samplers.cors:CORSSampler.sample_batch"), prog.func("black_it.samplers.base:BaseSampler.sample")]
    n_tests = 0
    for f in funcs:
        ctx.analysed(f)
        g = v.g if f is v.cal else CFG(f.node)
        head = v.head if f is v.cal else None
        for t in g.live:
            if t.kind != "test":
                continue
            leaves = dep_leaves(prog, f, t.ast)
            hit = [s for s in sources if s in leaves]
            if not hit:
                continue
            n_tests += 1
            for nnode in g.live:
                if nnode is t:
                    continue
                deps = g.control_closure(nnode, head) if head is not None and nnode in v.loop_nodes else g.control_closure(nnode)
                if any(b is t for b, _ in deps):
                    ok, why = _is_inert(prog, f, nnode)
                    ctx.check(ok, "R7.verbosity", f"{f.qualname.split(':')[1]}:under-verbose:{' '.join(src(nnode.ast).split())[:50] if nnode.ast is not None else nnode.kind}",
                              "statements that depend on verbosity only print",
                              f"{why} is executed depending on `{src(t.ast)}`: verbosity changes the computation, not just the output", f, nnode.ast or t.ast)
                    # a local filled only under verbosity must not be read by statements that run regardless of it
                    if ok and nnode.ast is not None:
                        written = {x.id for x in ast.walk(nnode.ast) if isinstance(x, ast.Name) and isinstance(x.ctx, ast.Store)}
                        written |= {x.func.value.id for x in ast.walk(nnode.ast) if isinstance(x, ast.Call) and isinstance(x.func, ast.Attribute)
                                    and x.func.attr in ("append", "extend") and isinstance(x.func.value, ast.Name)}
                        for other in g.live:
                            if other.ast is None or other is nnode or other.kind in ("join",):
                                continue
                            deps2 = g.control_closure(other, head) if head is not None and other in v.loop_nodes else g.control_closure(other)
                            if any(b is t for b, _ in deps2):
                                continue
                            used = {x.id for x in ast.walk(other.ast) if isinstance(x, ast.Name) and isinstance(x.ctx, ast.Load)} & written
                            if used and not _is_inert(prog, f, other)[0]:
                                ctx.fail("R7.verbosity", f"{f.qualname.split(':')[1]}:verbose-local:{sorted(used)[0]}",
                                         f"`{sorted(used)[0]}` is computed only under `{src(t.ast)}` but is read by `{src(other.ast)[:60]}`, which runs regardless of verbosity", f, other.ast)
    ctx.floor("R7", "verbosity tests", n_tests, 3)
    # locals assigned under verbosity / from the clock must only reach prints
    cal = v.cal
    clock = [s for s in walk_scope(cal.node) if isinstance(s, ast.Assign) and isinstance(s.value, ast.Call) and (dotted(s.value.func) or "") == "time.time" and isinstance(s.targets[0], ast.Name)]
    ctx.floor("R7", "wall-clock reads in calibrate", len(clock), 3)
    tainted = {s.targets[0].id for s in clock}
    changed = True
    while changed:
        changed = False
        for s in walk_scope(cal.node):
            if isinstance(s, ast.Assign) and isinstance(s.targets[0], ast.Name) and s.targets[0].id not in tainted and any(isinstance(x, ast.Name) and x.id in tainted for x in ast.walk(s.value)):
                tainted.add(s.targets[0].id)
                changed = True
            # a local list filled with text built from the clock
            if isinstance(s, ast.Expr) and isinstance(s.value, ast.Call) and isinstance(s.value.func, ast.Attribute) and s.value.func.attr in ("append", "extend") \
                    and isinstance(s.value.func.value, ast.Name) and s.value.func.value.id not in tainted and s.value.func.value.id not in cal.params \
                    and any(isinstance(x, ast.Name) and x.id in tainted for a_ in s.value.args for x in ast.walk(a_)):
                tainted.add(s.value.func.value.id)
                changed = True
    for x in ast.walk(cal.node):
        if isinstance(x, ast.Name) and x.id in tainted and isinstance(x.ctx, ast.Load):
            cur = getattr(x, "_parent", None)
            sink = None
            while cur is not None and not isinstance(cur, ast.stmt):
                if isinstance(cur, ast.Call) and not ((dotted(cur.func) or "") in ("print", "np.round", "textwrap.dedent", "round") or _inert_call(prog, cal, cur)):
                    sink = cur
                cur = getattr(cur, "_parent", None)
            stmt = cur
            ok = sink is None and (isinstance(stmt, ast.Expr) or (isinstance(stmt, ast.Assign) and isinstance(stmt.targets[0], ast.Name) and stmt.targets[0].id in tainted)
                                   or (isinstance(stmt, ast.If) and _inert_stmt(prog, cal, stmt)))
            ctx.check(ok, "R7.clock", f"Calibrator.calibrate:clock:{x.id}", f"wall-clock value `{x.id}` reaches only prints",
                      f"wall-clock value `{x.id}` flows into `{src(stmt)[:60] if stmt is not None else '?'}`: the run depends on timing", cal, stmt or x)
    # n_jobs: only the Parallel argument and the checkpoint
    for f in prog.all_functions():
        if f.cls is None or f.cls.name != "Calibrator":
            continue
        for x in walk_scope(f.node):
            if is_self_attr(x, f.self_name, "n_jobs") and isinstance(getattr(x, "ctx", None), ast.Load):
                par = getattr(x, "_parent", None)
                ok = (isinstance(par, ast.keyword) and par.arg == "n_jobs") or (isinstance(par, ast.Call) and any(isinstance(t, FuncInfo) and t.name == "save_calibrator_state" for t in prog.resolve_call(f, par))) \
                    or isinstance(par, (ast.JoinedStr, ast.FormattedValue)) or (isinstance(par, ast.Call) and _inert_call(prog, f, par))
                # inside create_checkpoint (or a private helper of it) every read is the persisted copy: that function is separately shown to write no
                # calibrator state and to draw nothing, so however the value travels to the save call it cannot reach the run
                ok = ok or prog.only_reached_from(f, {"black_it.calibrator:Calibrator.create_checkpoint"})
                ctx.check(ok, "R7.n_jobs", f"Calibrator.{f.name}:n_jobs-use", "n_jobs reaches only Parallel(n_jobs=...), the checkpoint and a print",
                          f"n_jobs is used in `{src(par)[:60] if par is not None else '?'}`", f, x)
    # saving folder: controls only the checkpoint write
    g = v.g
    for t in g.live:
        if t.kind == "test" and "saving_folder" in src(t.ast):
            for nnode in g.live:
                if nnode is t or nnode.ast is None:
                    continue
                if any(b is t for b, _ in g.control_closure(nnode, v.head)):
                    ok = nnode in v.nodes(v.checkpoint) or nnode.kind in ("test", "join")
                    ctx.check(ok, "R7.saving-folder", f"Calibrator.calibrate:under-saving-folder:{' '.join(src(nnode.ast).split())[:40]}", "only the checkpoint write depends on the saving folder",
                              f"`{src(nnode.ast)[:60]}` is executed depending on the saving folder", v.cal, nnode.ast)
    # create_checkpoint / save: no state writes, no draws
    for q in ("black_it.calibrator:Calibrator.create_checkpoint", "black_it.utils.json_pandas_checkpointing:save_calibrator_state"):
        f = ctx.func(q)
        for x in ast.walk(f.node):
            if isinstance(x, (ast.Assign, ast.AugAssign, ast.AnnAssign)):
                tg = x.targets[0] if isinstance(x, ast.Assign) else x.target
                base = tg
                while isinstance(base, (ast.Subscript,)):
                    base = base.value
                if isinstance(base, ast.Attribute) and dotted(base) and dotted(base).split(".")[0] in (f.self_name, "scheduler", "loss_function"):
                    ctx.fail("R7.checkpoint-pure", f"{f.name}:store:{src(tg)[:40]}", f"`{src(x)[:70]}`: writing a checkpoint changes the calibrator / scheduler / loss state (runs with and without a folder diverge)", f, x)
            if isinstance(x, ast.Call) and isinstance(x.func, ast.Attribute) and (x.func.attr in ("_get_random_seed", "integers", "random", "choice") or (x.func.attr in ("update", "get_next_sampler", "sample", "sample_batch", "compute_loss") and "scheduler" in src(x.func.value) + "sampler")):
                if x.func.attr in ("_get_random_seed", "integers", "random", "choice") or any(k in src(x.func.value) for k in ("scheduler", "sampler", "loss_function")):
                    ctx.fail("R7.checkpoint-pure", f"{f.name}:call:{src(x.func)[:40]}", f"`{src(x)[:70]}` during checkpointing consumes randomness / advances component state", f, x)
        ctx.ok("R7.checkpoint-pure", f"{f.name}:scanned", f"{f.name} writes no calibrator state and draws nothing")
