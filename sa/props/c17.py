"""C17 - grid snapping returns an element of the grid (structural clauses).

R1 get_closest returns a subscript of its first parameter, R2 digitize_data pairs column i with
grid i over all columns, R3 every subscript of the grid by a searchsorted-derived index is clamped.
Which element (nearest-ness, mid-points, idempotence) is a numerical clause and is not decided.
"""
from __future__ import annotations

import ast

from ..cfg import CFG
from ..errors import AnalysisError
from ..model import FuncInfo, dotted, src, walk_scope
from ..report import Context
from ..util import IDX, calls_in, kwarg, loop_binding, normaliser, parse_expr, reaching_events, returns_of

LEVEL_TEXT = (
    "Static analysis of black_it/utils/base.py (no execution): get_closest returns, on every path, a subscript of "
    "its (never rebound) first parameter, so the result is an exact grid element for any input without any appeal "
    "to float arithmetic; every subscript of the grid by an index derived from searchsorted (range [0, len]) is "
    "preceded by a clamp (maximum(.,0)/minimum(.,len-1)/clip, or a masked decrement whose mask contains "
    "`idx == len(grid)`); digitize_data writes column i of a fresh array from get_closest(param_grid[i], data[:, i]) "
    "for every i in range(data.shape[1]) and returns that array. Decides 'returns an element of that column's grid, "
    "element-wise, without IndexError' - NOT which element: nearest-ness, mid-points and idempotence are numerical."
    " (R4) a structural necessary condition of nearest-ness IS decided: the step back to the previous element is taken on an exact comparison of the two neighbour distances (previous closer), never on a tolerance."
    " The output buffer's dtype must not be inherited from the data (an integer input would truncate the snapped values); when the snapping is delegated to helpers the front end cannot read, the element verdicts are withdrawn (undecided) and the dtype / searchsorted-side rules stay armed."
    ' The dtype rule also follows an explicit dtype= read off a caller-supplied array; no snapping table is looked up by the identity of a grid (R5).'
)
TECHNIQUE = "AST/reaching-definitions provenance rule + clamp idiom table"

GC = "black_it.utils.base:get_closest"
DD = "black_it.utils.base:digitize_data"


def run(ctx: Context) -> None:
    # snapping is a function of (grid, value): the helpers keep nothing between calls (module-state rule of C05, kept to utils/base.py)
    from . import c18 as _c18
    ctx.rule(_c18.no_shared_tables, "black_it/utils/base.py")
    ctx.rule(r1_r3_get_closest)
    ctx.rule(r2_digitize)
    ctx.rule(dtype_rule)
    ctx.rule(r4_nearest)
    ctx.rule(identity_keyed_cache)


def r1_r3_get_closest(ctx: Context) -> None:
    mark = (len(ctx.obligations), len(ctx.findings))
    try:
        _r1_r3_get_closest(ctx)
    except AnalysisError:
        # undecided as a whole: verdicts recorded before the rule lost its footing (e.g. "the return is not a subscript of the grid" when the
        # search moved into a helper object) are withdrawn with it
        keep_f = [x for x in ctx.findings[mark[1]:] if x.rule != "R1.element"]
        keep_o = [o for o in ctx.obligations[mark[0]:] if not (o.get("rule") == "R1.element" and o.get("verdict") == "violated")]
        del ctx.obligations[mark[0]:]
        del ctx.findings[mark[1]:]
        ctx.obligations.extend(keep_o)
        ctx.findings.extend(keep_f)
        raise


def _r1_r3_get_closest(ctx: Context) -> None:
    f = ctx.func(GC)
    if len(f.params) < 2:
        raise AnalysisError("anchor vanished: get_closest(sorted_array, values)")
    grid, values = f.params[0], f.params[1]
    g = CFG(f.node)
    rets = returns_of(f)
    ctx.floor("R1", "return in get_closest", len(rets), 1)
    # the index arithmetic must be readable in place: if part of it sits in repository helpers that could not be inlined (several returns, masks passed
    # around in records), the clamp may be there too and nothing can be said here
    from ..model import FuncInfo
    opaque = sorted({src(c_.func) for c_ in calls_in(f.node, scope_only=False) if any(isinstance(t, FuncInfo) for t in ctx.prog.resolve_call(f, c_))
                     or ctx.prog.class_of_name(f.module, dotted(c_.func) or "") is not None})
    mark = (len(ctx.obligations), len(ctx.findings))
    rebound = [s for s in walk_scope(f.node) if isinstance(s, (ast.Assign, ast.AugAssign, ast.AnnAssign))
               for t in ast.walk(s.targets[0] if isinstance(s, ast.Assign) else s.target) if isinstance(t, ast.Name) and isinstance(t.ctx, ast.Store) and t.id == grid]
    ctx.check(not rebound, "R1.grid-param", "get_closest:grid-not-rebound", "the grid parameter is never rebound",
              f"the grid parameter `{grid}` is rebound", f, rebound[0] if rebound else None)
    # in-place writes into the grid would change the search space
    writes = [s for s in walk_scope(f.node) if isinstance(s, (ast.Assign, ast.AugAssign)) and any(
        isinstance(t, ast.Subscript) and isinstance(t.value, ast.Name) and t.value.id == grid
        for t in (s.targets if isinstance(s, ast.Assign) else [s.target]))]
    ctx.check(not writes, "R1.grid-param", "get_closest:grid-not-written", "the grid is not written to", "get_closest writes into the grid", f, writes[0] if writes else None)
    for r in rets:
        v = r.value
        ok = isinstance(v, ast.Subscript) and isinstance(v.value, ast.Name) and v.value.id == grid
        if not ok and isinstance(v, ast.Name):
            rn = g.nodes_of(r)[0]
            evs = reaching_events(g, v.id, rn)
            ok = bool(evs) and all(k == "assign" and isinstance(a.value, ast.Subscript) and isinstance(a.value.value, ast.Name) and a.value.value.id == grid for _, k, a in evs)  # type: ignore[union-attr]
        if not ok and isinstance(v, ast.Call) and (dotted(v.func) or "").split(".")[-1] in ("take",) and v.args and src(v.args[0]) == grid:
            ok = True
        ctx.check(ok, "R1.element", "get_closest:return", "returns grid[<index>] - an exact element of the grid",
                  f"get_closest returns `{src(v)}`, which is not a subscript of the grid parameter", f, r)
    # the index comes from searchsorted over (grid, values)
    ss = [c for c in calls_in(f.node) if (dotted(c.func) or "").split(".")[-1] == "searchsorted"]
    ctx.floor("R3", "searchsorted call in get_closest", len(ss), 1)
    c = ss[0]
    a0 = c.args[0] if c.args else kwarg(c, "a")
    a1 = c.args[1] if len(c.args) > 1 else kwarg(c, "v")
    if isinstance(c.func, ast.Attribute) and src(c.func.value) == grid:
        a0, a1 = c.func.value, (c.args[0] if c.args else kwarg(c, "v"))
    if a0 is not None and a1 is not None and src(a0) not in (grid, values) and src(a1) in (grid, values):
        # searched in something built from the grid (a padded / copied array): positions then refer to that array, which the index rules below do not follow
        raise AnalysisError(f"{f.loc(c)}: the insert positions are searched in `{src(a0)[:60]}`, not in the grid parameter itself; the rules about the index do not apply")
    ctx.check(a0 is not None and a1 is not None and src(a0) == grid and src(a1) == values, "R3.search", "get_closest:searchsorted-args",
              "insert positions are searched in the grid for the values", f"searchsorted is called as `{src(c)}`", f, c)
    idx_names = {t.id for s in walk_scope(f.node) if isinstance(s, (ast.Assign, ast.AnnAssign)) and s.value is c
                 for t in ([s.target] if isinstance(s, ast.AnnAssign) else s.targets) if isinstance(t, ast.Name)}
    if not idx_names:
        raise AnalysisError("cannot find the local holding the searchsorted result in get_closest")
    idx = sorted(idx_names)[0]
    n = normaliser(ctx.prog, f, inline_locals=False)
    hi_forms = {str(n.rat(parse_expr(t))) for t in (f"len({grid}) - 1", f"{grid}.shape[0] - 1", f"{grid}.size - 1")}
    len_forms = {str(n.rat(parse_expr(t))) for t in (f"len({grid})", f"{grid}.shape[0]", f"{grid}.size")}
    subs = [s for s in ast.walk(f.node) if isinstance(s, ast.Subscript) and isinstance(s.value, ast.Name) and s.value.id == grid and isinstance(s.ctx, ast.Load)]
    ctx.floor("R3", "subscripts of the grid in get_closest", len(subs), 2)
    n_clamped = 0
    for s in subs:
        e = s.slice
        kind = _clamp_kind(n, e, idx, hi_forms)
        if kind == "raw":
            # plain idx: needs the masked decrement whose mask contains idx == len(grid)
            ok = _masked_decrement_covers_end(f, n, idx, len_forms)
            ctx.check(ok, "R3.clamp", f"get_closest:subscript:{src(e)}", f"`{grid}[{src(e)}]` is reached only after a decrement of the entries equal to len({grid})",
                      f"`{grid}[{src(e)}]` can be evaluated with an index equal to len({grid}) (value beyond the last grid element): IndexError", f, s)
        elif kind in ("low", "high", "both"):
            need = _needs(n, e, idx)
            ok = (need == "low" and kind in ("low", "both")) or (need == "high" and kind in ("high", "both")) or (need == "both" and kind == "both") or need == "none"
            ctx.check(ok, "R3.clamp", f"get_closest:subscript:{src(e)}", f"`{grid}[{src(e)}]` is clamped on the side it can overflow",
                      f"`{grid}[{src(e)}]` is clamped on the wrong side", f, s)
        else:
            ctx.fail("R3.clamp", f"get_closest:subscript:{src(e)}", f"`{grid}[{src(e)}]`: index derived from searchsorted is not clamped into [0, len-1]", f, s)
        n_clamped += 1
    ctx.notes["grid_subscripts"] = n_clamped
    if opaque and len(ctx.findings) > mark[1]:
        # what looked like a missing clamp / a foreign return may sit in the helper: withdraw those verdicts and say so
        del ctx.obligations[mark[0]:]
        del ctx.findings[mark[1]:]
        raise AnalysisError(f"{f.loc(f.node)}: get_closest computes its index through the repository helper(s) {[o[:40] for o in opaque[:3]]}, which could not be read in place; cannot decide R1/R3")


def _clamp_kind(n, e: ast.expr, idx: str, hi_forms: set[str]) -> str:
    if isinstance(e, ast.Name) and e.id == idx:
        return "raw"
    if isinstance(e, ast.Call):
        fn = (dotted(e.func) or "").split(".")[-1]
        if fn == "maximum" and len(e.args) == 2:
            for a, b in (e.args, e.args[::-1]):
                if isinstance(b, ast.Constant) and b.value == 0:
                    return "low"
        if fn == "minimum" and len(e.args) == 2:
            for a, b in (e.args, e.args[::-1]):
                if str(n.rat(b)) in hi_forms:
                    return "high"
        if fn == "clip" and len(e.args) == 3:
            lo_ok = isinstance(e.args[1], ast.Constant) and e.args[1].value == 0
            hi_ok = str(n.rat(e.args[2])) in hi_forms
            return "both" if lo_ok and hi_ok else "low" if lo_ok else "high" if hi_ok else "none"
    return "none"


def _needs(n, e: ast.expr, idx: str) -> str:
    """Which side the clamped operand can overflow: idx in [0, len]; idx-1 in [-1, len-1]."""
    if isinstance(e, ast.Call) and e.args:
        fn = (dotted(e.func) or "").split(".")[-1]
        operand = None
        for a in e.args:
            if any(isinstance(x, ast.Name) and x.id == idx for x in ast.walk(a)):
                operand = a
        if operand is None:
            return "none"
        from ..poly import Rat, p_atom
        d = n.rat(operand) - Rat(p_atom(idx))
        c = d.const()
        if c is None:
            return "both"
        if c == 0:
            return "high"
        if c == -1:
            return "low"
        if c < -1 or c > 0:
            return "both"
    return "both"


def _masked_decrement_covers_end(f: FuncInfo, n, idx: str, len_forms: set[str]) -> bool:
    """`idx[mask] -= 1` exists and mask is an OR one of whose disjuncts is `idx == len(grid)`."""
    assigns = {t.id: s.value for s in walk_scope(f.node) if isinstance(s, (ast.Assign, ast.AnnAssign)) and s.value is not None
               for t in ([s.target] if isinstance(s, ast.AnnAssign) else s.targets) if isinstance(t, ast.Name)}
    for s in walk_scope(f.node):
        if isinstance(s, ast.AugAssign) and isinstance(s.op, ast.Sub) and isinstance(s.value, ast.Constant) and s.value.value == 1 \
                and isinstance(s.target, ast.Subscript) and isinstance(s.target.value, ast.Name) and s.target.value.id == idx:
            mask = s.target.slice
            if isinstance(mask, ast.Name):
                mask = assigns.get(mask.id, mask)
            for d in _disjuncts(mask):
                if isinstance(d, ast.Compare) and len(d.ops) == 1 and isinstance(d.ops[0], (ast.Eq, ast.GtE)):
                    l, r = d.left, d.comparators[0]
                    if (src(l) == idx and str(n.rat(r)) in len_forms) or (src(r) == idx and str(n.rat(l)) in len_forms and isinstance(d.ops[0], ast.Eq)):
                        return True
    return False


TOLERANT = ("isclose", "allclose", "finfo", "spacing", "nextafter")


def _conjuncts(e: ast.expr) -> list[ast.expr]:
    if isinstance(e, ast.BinOp) and isinstance(e.op, ast.BitAnd):
        return _conjuncts(e.left) + _conjuncts(e.right)
    if isinstance(e, ast.Call) and (dotted(e.func) or "").split(".")[-1] == "logical_and":
        out = []
        for a in e.args:
            out.extend(_conjuncts(a))
        return out
    return [e]


def r4_nearest(ctx: Context) -> None:
    """Where the search steps back to the previous element is decided by an *exact* comparison of the two candidate distances
    (previous strictly or weakly closer): a necessary condition of 'an element at minimal distance'.  Only the masked-decrement
    idiom is read; any other way of choosing between the two neighbours leaves the rule undecided."""
    f = ctx.func(GC)
    if len(f.params) < 2:
        raise AnalysisError("anchor vanished: get_closest(sorted_array, values)")
    grid, values = f.params[0], f.params[1]
    ss = [s for s in walk_scope(f.node) if isinstance(s, (ast.Assign, ast.AnnAssign)) and isinstance(s.value, ast.Call) and (dotted(s.value.func) or "").split(".")[-1] == "searchsorted"]
    if not ss:
        raise AnalysisError("cannot find the local holding the searchsorted result in get_closest")
    tg = ss[0].target if isinstance(ss[0], ast.AnnAssign) else ss[0].targets[0]
    if not isinstance(tg, ast.Name):
        raise AnalysisError("cannot find the local holding the searchsorted result in get_closest")
    idx = tg.id
    from ..util import unread_helpers
    if unread_helpers(ctx.prog, f):
        raise AnalysisError(f"{f.loc(f.node)}: get_closest chooses between the neighbours in helpers that could not be read in place")
    n = normaliser(ctx.prog, f, inline_locals=False)
    len_forms = {str(n.rat(parse_expr(t))) for t in (f"len({grid})", f"{grid}.shape[0]", f"{grid}.size")}
    assigns: dict[str, list[ast.expr]] = {}
    for s_ in walk_scope(f.node):
        if isinstance(s_, (ast.Assign, ast.AnnAssign)) and s_.value is not None:
            for t in ([s_.target] if isinstance(s_, ast.AnnAssign) else s_.targets):
                if isinstance(t, ast.Name):
                    assigns.setdefault(t.id, []).append(s_.value)

    def expand(e: ast.expr, depth: int = 0) -> ast.expr:
        """Locals bound once are read as their definition (masks and distances are usually named)."""
        if isinstance(e, ast.Name) and e.id not in (grid, values, idx) and len(assigns.get(e.id, [])) == 1 and depth < 6:
            return expand(assigns[e.id][0], depth + 1)
        return e

    def offset(ix: ast.expr) -> int | None:
        """-1 for (a clamped) idx - 1, 0 for (a clamped) idx, None otherwise."""
        ix = expand(ix)
        if isinstance(ix, ast.Call) and (dotted(ix.func) or "").split(".")[-1] in ("maximum", "minimum", "clip") and ix.args:
            inner = [a for a in ix.args if any(isinstance(x, ast.Name) and x.id == idx for x in ast.walk(expand(a)))]
            if len(inner) != 1:
                return None
            return offset(inner[0])
        from ..poly import Rat, p_atom
        try:
            c = (n.rat(ix) - Rat(p_atom(idx))).const()
        except Exception:  # noqa: BLE001
            return None
        return int(c) if c is not None and c in (0, -1) else None

    def distance(e: ast.expr) -> int | None:
        """offset of the neighbour whose distance from the value `e` is: |values - grid[neighbour]|."""
        e = expand(e)
        if isinstance(e, ast.Call) and (dotted(e.func) or "").split(".")[-1] in ("fabs", "abs", "absolute") and len(e.args) == 1:
            d = expand(e.args[0])
            if isinstance(d, ast.BinOp) and isinstance(d.op, ast.Sub):
                for a, b in ((d.left, d.right), (d.right, d.left)):
                    a, b = expand(a), expand(b)
                    if isinstance(a, ast.Name) and a.id == values and isinstance(b, ast.Subscript) and isinstance(b.value, ast.Name) and b.value.id == grid:
                        return offset(b.slice)
        return None

    decs = [s_ for s_ in walk_scope(f.node) if isinstance(s_, ast.AugAssign) and isinstance(s_.op, ast.Sub) and isinstance(s_.value, ast.Constant) and s_.value.value == 1
            and isinstance(s_.target, ast.Subscript) and isinstance(s_.target.value, ast.Name) and s_.target.value.id == idx]
    if len(decs) != 1:
        raise AnalysisError(f"{f.loc(f.node)}: get_closest does not choose between the neighbours by one masked decrement `{idx}[mask] -= 1`; the nearest-neighbour rule is not decided")
    dec = decs[0]
    n_cmp = 0
    for d in _disjuncts(expand(dec.target.slice)):
        d = expand(d)
        if isinstance(d, ast.Compare) and len(d.ops) == 1 and isinstance(d.ops[0], (ast.Eq, ast.GtE)) and \
                ((src(d.left) == idx and str(n.rat(d.comparators[0])) in len_forms) or (src(d.comparators[0]) == idx and str(n.rat(d.left)) in len_forms)):
            continue  # beyond the last element: the previous one is the only candidate
        parts = [expand(c) for c in _conjuncts(d)]
        cmps = []
        for c in parts:
            tol = [x for x in ast.walk(c) if isinstance(x, ast.Call) and (dotted(x.func) or "").split(".")[-1] in TOLERANT]
            if tol:
                ctx.fail("R4.nearest", "get_closest:step-back:tolerance", f"the step back to the previous element also depends on `{src(c)[:70]}`: with a tolerance in the choice, a value whose "
                         "previous neighbour is strictly closer (by less than the tolerance) is snapped to the farther element", f, dec)
                continue
            if isinstance(c, ast.Compare) and len(c.ops) == 1 and isinstance(c.ops[0], (ast.Lt, ast.LtE, ast.Gt, ast.GtE)):
                l, r = distance(c.left), distance(c.comparators[0])
                if l is not None and r is not None:
                    cmps.append((c, l, r))
                    continue
            if isinstance(c, ast.Call) and (dotted(c.func) or "").split(".")[-1] in ("less", "less_equal", "greater", "greater_equal") and len(c.args) == 2:
                l, r = distance(c.args[0]), distance(c.args[1])
                if l is not None and r is not None:
                    fn = (dotted(c.func) or "").split(".")[-1]
                    cmps.append((ast.Compare(left=c.args[0], ops=[ast.Lt() if fn.startswith("less") else ast.Gt()], comparators=[c.args[1]]), l, r))
                    continue
            if isinstance(c, ast.Compare) and len(c.ops) == 1 and src(c.left) == idx and isinstance(c.comparators[0], ast.Constant) and \
                    ((isinstance(c.ops[0], ast.Gt) and c.comparators[0].value == 0) or (isinstance(c.ops[0], ast.GtE) and c.comparators[0].value == 1) or (isinstance(c.ops[0], ast.NotEq) and c.comparators[0].value == 0)):
                continue  # index guard implied by the clamp
            raise AnalysisError(f"{f.loc(dec)}: cannot read the condition `{src(c)[:70]}` of the step back in get_closest")
        for c, l, r in cmps:
            n_cmp += 1
            less = isinstance(c.ops[0], (ast.Lt, ast.LtE))
            prev_side_smaller = (l == -1 and r == 0 and less) or (l == 0 and r == -1 and not less)
            ctx.check(prev_side_smaller, "R4.nearest", "get_closest:step-back:comparison", "the search steps back exactly where the previous element is (strictly or weakly) closer",
                      f"the step back is taken when `{src(c)[:80]}`, which is not 'distance to the previous element < distance to the element at the insert position'", f, dec)
    if n_cmp == 0 and not any(x.rule == "R4.nearest" for x in ctx.findings):
        raise AnalysisError(f"{f.loc(dec)}: no comparison of the two neighbour distances found in the mask of the step back; the nearest-neighbour rule is not decided")


def _disjuncts(e: ast.expr) -> list[ast.expr]:
    if isinstance(e, ast.BinOp) and isinstance(e.op, ast.BitOr):
        return _disjuncts(e.left) + _disjuncts(e.right)
    if isinstance(e, ast.Call) and (dotted(e.func) or "").split(".")[-1] == "logical_or":
        out = []
        for a in e.args:
            out.extend(_disjuncts(a))
        return out
    return [e]


def r2_digitize(ctx: Context) -> None:
    """Column i of the result is get_closest(param_grid[i], data[:, i]) for every column - read through the canonical loop binding,
    so `range(data.shape[1])`, `enumerate(param_grid)`, `zip(param_grid, data.T)` and comprehension forms are the same rule instance.
    When the rule loses its footing half-way (a construct it cannot read), what it recorded before is withdrawn with it."""
    mark = (len(ctx.obligations), len(ctx.findings))
    try:
        _r2_digitize(ctx)
    except AnalysisError:
        del ctx.obligations[mark[0]:]
        del ctx.findings[mark[1]:]
        raise


def _r2_digitize(ctx: Context) -> None:
    f = ctx.func(DD)
    if len(f.params) < 2:
        raise AnalysisError("anchor vanished: digitize_data(data, param_grid)")
    data, grid = f.params[0], f.params[1]
    g = CFG(f.node)
    rets = returns_of(f)
    ctx.floor("R2", "return in digitize_data", len(rets), 1)
    from ..model import FuncInfo
    for lp_ in [x for x in ast.walk(f.node) if isinstance(x, (ast.For, ast.comprehension))]:
        for c_ in ast.walk(lp_.iter):
            if isinstance(c_, ast.Call) and any(isinstance(t, FuncInfo) for t in ctx.prog.resolve_call(f, c_)):
                raise AnalysisError(f"{f.loc(c_)}: the column loop of digitize_data iterates the repository helper `{src(c_.func)}`, which could not be read in place; cannot decide R2")
    n0 = normaliser(ctx.prog, f)
    count_forms = {str(n0.rat(parse_expr(t))) for t in (f"{data}.shape[1]", f"len({grid})", f"{data}.shape[-1]")}
    want_text = f"get_closest({grid}[{IDX}], {data}[:, {IDX}])"

    def pairing(env: dict, counts: list, value: ast.expr, where: ast.AST, loop_src: str) -> None:
        n = normaliser(ctx.prog, f, extra_env=env)
        ok_count = any(str(n0.rat(c)) in count_forms for c in counts)
        ctx.check(ok_count, "R2.columns", "digitize_data:loop", "the loop visits every column of the data", f"column loop is `{loop_src}`", f, where)
        got, want = n.rat(value), n.rat(parse_expr(want_text))
        calls_gc = isinstance(value, ast.Call) and any(isinstance(tg, FuncInfo) and tg.qualname == GC for tg in ctx.prog.resolve_call(f, value))
        if not calls_gc and str(got) != str(want):
            # computed by arithmetic (lower + k * step, rounding, clipping): equal to a grid element only up to rounding, and only for evenly spaced grids -
            # not an element of the column's grid *by construction*, which is what this rule (and the Grid typestate of C03) demands
            arith = any(isinstance(x, ast.BinOp) and isinstance(x.op, (ast.Add, ast.Mult, ast.Sub, ast.Div, ast.FloorDiv)) for x in ast.walk(value))
            helper_arith = False
            for c_ in [x for x in ast.walk(value) if isinstance(x, ast.Call)]:
                for tg in ctx.prog.resolve_call(f, c_):
                    if isinstance(tg, FuncInfo) and tg.qualname != GC:
                        rets_h = [r_.value for r_ in returns_of(tg) if r_.value is not None]
                        if rets_h and not any(isinstance(rv, ast.Subscript) for rv in rets_h) and any(isinstance(x, ast.BinOp) and isinstance(x.op, (ast.Add, ast.Mult)) for rv in rets_h for x in ast.walk(rv)):
                            helper_arith = True
            if arith or helper_arith:
                ctx.fail("R2.element", "digitize_data:column-computed", f"the column value `{src(value)[:90]}` is computed arithmetically instead of being taken out of the column's grid: "
                         "it coincides with a grid element only up to floating-point rounding (and only on an evenly spaced grid that starts where the formula assumes)", f, where)
                return
            raise AnalysisError(f"{f.loc(where)}: the column value `{src(value)[:80]}` is not a direct get_closest call; cannot decide R2")
        ctx.check(str(got) == str(want), "R2.pairing", "digitize_data:column-pairing", "column i <- get_closest(param_grid[i], data[:, i])",
                  f"column value is `{src(value)}` = `{got}`: column, grid and data indices do not pair up", f, where)

    for r in rets:
        v = r.value
        if isinstance(v, ast.Name):
            out = v.id
            rn = g.nodes_of(r)[0]
            evs = reaching_events(g, out, rn)
            inits = [a for _, k, a in evs if k == "assign"]
            subs = [a for _, k, a in evs if k == "sub"]
            bad = [(k, a) for _, k, a in evs if k not in ("assign", "sub")]
            if len(inits) == 1 and not subs and not bad and isinstance(inits[0], ast.Assign):
                v = inits[0].value  # `out = <assembled expression>; return out`
            else:
                fresh = len(inits) == 1 and _fresh_like(inits[0].value, data)  # type: ignore[union-attr]
                ctx.check(fresh, "R2.result", "digitize_data:fresh-output", "the result is a fresh array of the input's shape (the input is not modified)",
                          f"the result array is created by `{src(inits[0].value) if inits else '?'}`", f, inits[0] if inits else r)  # type: ignore[union-attr]
                ctx.check(not bad, "R2.result", "digitize_data:no-other-writes", "the result is only written column by column",
                          f"the result is also modified by `{src(bad[0][1]) if bad else ''}`", f, bad[0][1] if bad else r)
                if not subs:
                    raise AnalysisError(f"{f.loc(r)}: digitize_data does not fill its result by subscript stores; cannot decide R2")
                for a in subs:
                    t = a.targets[0]  # type: ignore[union-attr]
                    loop = next((lp for lp in walk_scope(f.node) if isinstance(lp, ast.For) and any(x is a for x in ast.walk(lp))), None)
                    if loop is None:
                        raise AnalysisError(f"{f.loc(a)}: result store `{src(a)[:60]}` outside a column loop; cannot decide R2")
                    env, counts = loop_binding(loop.target, loop.iter)
                    n = normaliser(ctx.prog, f, extra_env=env)
                    sl = n._slice(t.slice)  # noqa: SLF001
                    if not sl.startswith(":,") or sl.count(",") != 1:
                        raise AnalysisError(f"{f.loc(a)}: result store `{src(t)}` is not a whole-column store; cannot decide R2")
                    ctx.check(sl == f":,{IDX}", "R2.pairing", "digitize_data:column-store", "iteration i stores into column i", f"iteration i stores into `{src(t)}`", f, a)
                    pairing(env, counts, a.value, a, f"for {src(loop.target)} in {src(loop.iter)}")  # type: ignore[union-attr]
                    # the store must happen for every column: not skipped by a condition inside the loop
                    skips = [x for x in ast.walk(loop) if isinstance(x, (ast.Continue, ast.Break)) or (isinstance(x, ast.If) and any(y is a for y in ast.walk(x)))]
                    ctx.check(not skips, "R2.columns", "digitize_data:unconditional", "every column is snapped (no condition/continue/break in the loop)",
                              "some columns can be skipped by the column loop", f, skips[0] if skips else loop)
                continue
        # assembled form: column_stack / stack(axis=1) / array(...).T of a comprehension over the columns
        comp = _column_assembly(v)
        if comp is None:
            raise AnalysisError(f"{f.loc(r)}: digitize_data returns `{src(r.value)[:80]}`: neither a column-filled array nor a column assembly; cannot decide R2")
        if len(comp.generators) != 1 or comp.generators[0].ifs:
            ctx.fail("R2.columns", "digitize_data:unconditional", "the column comprehension filters or nests: some columns can be skipped", f, r)
            continue
        gen = comp.generators[0]
        env, counts = loop_binding(gen.target, gen.iter)
        pairing(env, counts, comp.elt, r, f"for {src(gen.target)} in {src(gen.iter)}")
        ctx.ok("R2.result", "digitize_data:fresh-output", "the result is assembled from the snapped columns (fresh array)")


def _column_assembly(v: ast.expr) -> ast.ListComp | ast.GeneratorExp | None:
    """The comprehension whose elements become the *columns* of `v`, or None."""
    def comp_of(e: ast.expr):
        return e if isinstance(e, (ast.ListComp, ast.GeneratorExp)) else None
    if isinstance(v, ast.Attribute) and v.attr == "T" and isinstance(v.value, ast.Call):
        fn = (dotted(v.value.func) or "").split(".")[-1]
        if fn in ("array", "vstack", "asarray", "stack") and v.value.args and (fn != "stack" or const_axis(v.value) in (None, 0)):
            return comp_of(v.value.args[0])
    if isinstance(v, ast.Call):
        fn = (dotted(v.func) or "").split(".")[-1]
        if fn == "column_stack" and v.args:
            return comp_of(v.args[0])
        if fn == "stack" and v.args and const_axis(v) in (1, -1):
            return comp_of(v.args[0])
        if fn == "transpose" and len(v.args) == 1 and not v.keywords:
            return _column_assembly(ast.Attribute(value=v.args[0], attr="T", ctx=ast.Load()))
    return None


def const_axis(call: ast.Call):
    a = kwarg(call, "axis", 1)
    return a.value if isinstance(a, ast.Constant) else (None if a is None else "?")


def _fresh_like(e: ast.expr, data: str) -> bool:
    if isinstance(e, ast.Call):
        fn = (dotted(e.func) or "").split(".")[-1]
        if fn in ("zeros", "empty", "ones", "full"):
            shp = e.args[0] if e.args else kwarg(e, "shape")
            return shp is not None and src(shp) == f"{data}.shape"
        if fn in ("zeros_like", "empty_like", "ones_like", "copy", "array") and e.args and src(e.args[0]) == data:
            return True
    return False


def dtype_rule(ctx: Context) -> None:
    """Results must not be stored into arrays that inherit the dtype of caller-supplied data (integer input would truncate them)."""
    from ..util import dtype_inheritance_sites
    funcs = [f for f in ctx.prog.all_functions() if f.module.name.startswith(('black_it.utils.base',))]
    for f, node, what in dtype_inheritance_sites(ctx.prog, funcs):
        ctx.fail("R4.dtype", f"{f.qualname.split(':')[1]}:inherited-dtype:{' '.join(src(node).split())[:50]}",
                 f"{what}: for integer or lower-precision input the value is silently truncated / rounded on assignment, so the result is no longer what the definition gives", f, node)
    ctx.ok("R4.dtype", "c17:scanned", f"{len(funcs)} functions: no computed value is stored into an array of inherited dtype")


def identity_keyed_cache(ctx: Context) -> None:
    """Snapping is a function of (values, grid): a memo of per-grid tables looked up by `id(grid)` is not - ids are reused once a grid is
    garbage-collected, so a later search space can be snapped onto the tables of a dead one."""
    n = 0
    for f in ctx.prog.all_functions():
        if f.module.name not in ("black_it.utils.base", "black_it.search_space"):
            continue
        n += 1
        for c in calls_in(f.node, scope_only=False):
            if (dotted(c.func) or "") != "id" or len(c.args) != 1:
                continue
            if not any(isinstance(x, ast.Name) and x.id in f.params for x in ast.walk(c.args[0])):
                continue
            # used as a key: subscript index, .get/.setdefault/.pop argument, membership test, or bound to a local used so
            names = {c}
            par = getattr(c, "_parent", None)
            if isinstance(par, (ast.Assign, ast.AnnAssign, ast.NamedExpr)):
                tg = par.targets[0] if isinstance(par, ast.Assign) else par.target
                if isinstance(tg, ast.Name):
                    names |= {x for x in ast.walk(f.node) if isinstance(x, ast.Name) and x.id == tg.id and isinstance(x.ctx, ast.Load)}
            keyed = False
            for k in names:
                up = getattr(k, "_parent", None)
                while isinstance(up, ast.Tuple):
                    k, up = up, getattr(up, "_parent", None)
                if isinstance(up, ast.Subscript) and up.slice is k:
                    keyed = True
                if isinstance(up, ast.Call) and isinstance(up.func, ast.Attribute) and up.func.attr in ("get", "setdefault", "pop") and up.args and up.args[0] is k:
                    keyed = True
                if isinstance(up, ast.Compare) and any(isinstance(o, (ast.In, ast.NotIn)) for o in up.ops) and up.left is k:
                    keyed = True
            ctx.check(not keyed, "R5.identity-cache", f"{f.qualname.split(':')[1]}:id-key:{src(c.args[0])[:30]}", "no table is looked up by the identity of an argument",
                      f"`{src(c)}` is used as a look-up key in {f.name}: the identity of a grid that was garbage-collected is reused by later objects, so a later grid can be served "
                      "the tables cached for a dead one - the result then is not an element of the grid that was passed", f, c)
    ctx.ok("R5.identity-cache", "snapping:scanned", f"{n} functions of utils.base / search_space scanned for identity-keyed look-ups")
