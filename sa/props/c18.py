"""C18 - sampler labels in a history can always be mapped back to sampler names."""
from __future__ import annotations

import ast

from ..calib import CalibrateView
from ..cfg import CFG
from ..errors import AnalysisError
from ..model import FuncInfo, dotted, src, walk_scope
from ..persist import Plumbing
from ..report import Context
from ..util import attr_store_sites, calls_in, is_self_attr, node_for, normaliser, parse_expr, reaching_events, returns_of
from . import c02

LEVEL_TEXT = (
    "Static analysis (no execution): (R1) the id table is monotone - every store into samplers_id_table is guarded by "
    "`name not in table`, the id is max(values)+1 advanced by one per insertion (first-seen numbering from 0 in the "
    "constructor), nothing deletes or rebinds it outside __init__, and set_samplers/set_scheduler update (not rebuild) "
    "it; (R2) the label stored with a batch is the id of the class of the sampler that produced it (shared with C02-R5); "
    "(R3) the table is part of the persisted state or exactly recomputable from it; (R4) channel typing: what "
    "scheduler_pickled.pickle holds (the declared type of the object dumped by save) is what the plotting reader's "
    "consumer expects - pickle.load returns Any, so no type checker sees this - and the reader keeps no cache keyed by the "
    "folder name. Decided for all line-ups and replacement sequences because none of the rules depends on values."
    " Every store of the sampler line-up takes a private copy (a caller's list mutated later would renumber labels), and the scheduler pickle is written before the labels that refer to it."
    ' Included: one label per recorded sample needs sample() to return exactly batch_size rows (C12 shape rules), and the results table is rewritten whole on every save, never appended to (C04-R4b).'
    ' Included: the commit-region rule of C02 (a batch is labelled together with its samples, after the user code ran) and the field-plumbing rule of C04 restricted to the per-sample records (after a restore label i still belongs to sample i).'
    " The module-state rule of C05 kept to calibrator.py is included (an id table handed out by a cache and mutated later is shared between calibrators); the update-on-replace rule reads the argument through once-bound locals and tuple()/list() snapshots."
)
TECHNIQUE = "guarded-store / monotonicity rule on the id table + persisted-domain membership + pickle channel typing across writer and reader"

CAL = "black_it.calibrator:Calibrator"


def run(ctx: Context) -> None:
    ctx.rule_any(r1_semantic, r1_monotone)
    ctx.rule(r1_writers)
    ctx.rule(no_shared_tables)
    v = CalibrateView(ctx.prog)
    ctx.rule(c02.r5_labels, v)
    # one label per recorded sample: labels are written for batch_size samples, so sample() must hand back exactly batch_size rows (C12 shape rules)
    from . import c12
    ctx.rule(c12.sample_rules)
    # the label of a batch is recorded together with its samples (same commit region, after the user code ran): C02-R2
    ctx.rule(c02.r2_aligned, v)
    ctx.rule(restored_records_identity)
    ctx.rule(r3_persisted)
    ctx.rule(r3b_write_order)
    # the stored labels are those of this run only: the results table is rewritten whole, never appended to what the folder held (C04-R4)
    from . import c04
    from ..persist import Plumbing as _Pl
    ctx.rule(c04.r4b_append_modes, _Pl(ctx.prog))
    ctx.rule(r4_no_stale_cache)
    ctx.rule(r4_channel)


def _loop_insertions(ctx: Context, f: FuncInfo, table_expr: str):
    """Loops `for s in samplers: name = type(s).__name__; if name in T: continue; T[name] = id; id = id + 1`."""
    g = CFG(f.node)
    n = normaliser(ctx.prog, f, inline_locals=False)
    stores = [s for s in walk_scope(f.node) if isinstance(s, ast.Assign) and isinstance(s.targets[0], ast.Subscript) and src(s.targets[0].value) == table_expr]
    return g, n, stores


def r1_monotone(ctx: Context) -> None:
    prog = ctx.prog
    upd = ctx.func(f"{CAL}.update_samplers_id_table")
    con = ctx.func(f"{CAL}._construct_samplers_id_table")
    for f, table, start_forms in ((upd, "self.samplers_id_table", ("max(self.samplers_id_table.values()) + 1",)), (con, None, ("0",))):
        if table is None:
            rets = returns_of(f)
            table = src(rets[0].value) if rets and isinstance(rets[0].value, ast.Name) else None
            if table is None:
                raise AnalysisError("_construct_samplers_id_table does not return a local table")
        g, n, stores = _loop_insertions(ctx, f, table)
        ctx.floor("R1", f"stores into the id table in {f.name}", len(stores), 1)
        for s in stores:
            key_e = s.targets[0].slice
            key_n = n.rat(key_e) if not isinstance(key_e, ast.Name) else None
            # key is the class name of the loop's sampler
            loop = getattr(s, "_parent", None)
            while loop is not None and not isinstance(loop, ast.For):
                loop = getattr(loop, "_parent", None)
            if loop is None or not isinstance(loop.target, ast.Name):
                raise AnalysisError(f"{f.loc(s)}: id-table store is not inside a simple loop over the samplers; cannot decide R1")
            samp = loop.target.id
            key_def = key_e
            if isinstance(key_e, ast.Name):
                defs = [a.value for a in ast.walk(loop) if isinstance(a, ast.Assign) and isinstance(a.targets[0], ast.Name) and a.targets[0].id == key_e.id]
                key_def = defs[0] if len(defs) == 1 else None
            ok = key_def is not None and src(key_def) in (f"type({samp}).__name__", f"{samp}.__class__.__name__")
            ctx.check(ok, "R1.key", f"Calibrator.{f.name}:key", "the table is keyed by the sampler's class name", f"the table key is `{src(key_def) if key_def is not None else src(key_e)}`", f, s)
            # guard: store only when the name is not yet in the table
            sn = g.nodes_of(s)[0]
            head = [x for x in g.live if x.kind == "for" and x.stmt is loop][0]
            deps = [(t, lab) for t, lab in g.control_closure(sn, head) if t.kind == "test"]
            member = [(t, lab) for t, lab in deps if isinstance(t.ast, ast.Compare) and len(t.ast.ops) == 1 and isinstance(t.ast.ops[0], (ast.In, ast.NotIn))
                      and src(t.ast.comparators[0]) == table and src(t.ast.left) == src(key_e)]
            ok = bool(member) and all((lab == "false") == isinstance(t.ast.ops[0], ast.In) for t, lab in member)
            ctx.check(ok, "R1.guard", f"Calibrator.{f.name}:guarded-store", "an id is assigned only to a class name that is not yet in the table (ids are never reassigned)",
                      f"`{src(s)}` is not guarded by `{src(key_e)} not in {table}`: an existing class can get a new id", f, s)
            # value: a counter that starts at start_form and advances by one per insertion
            val = s.value
            ok = isinstance(val, ast.Name)
            if ok:
                cnt = val.id
                inits = [a for a in walk_scope(f.node) if isinstance(a, ast.Assign) and isinstance(a.targets[0], ast.Name) and a.targets[0].id == cnt and not any(x is a for x in ast.walk(loop))]
                incs = [a for a in ast.walk(loop) if isinstance(a, (ast.Assign, ast.AugAssign)) and isinstance((a.targets[0] if isinstance(a, ast.Assign) else a.target), ast.Name)
                        and (a.targets[0] if isinstance(a, ast.Assign) else a.target).id == cnt]
                init_ok = len(inits) == 1 and any(n.rat(inits[0].value).equals(n.rat(parse_expr(t))) for t in start_forms)
                ctx.check(init_ok, "R1.next-id", f"Calibrator.{f.name}:first-id", f"the first new id is {start_forms[0]}",
                          f"the first new id is `{src(inits[0].value) if inits else '?'}` - it can collide with an id already in use (e.g. len(table) after a gap)", f, inits[0] if inits else s)
                inc_ok = len(incs) == 1 and ((isinstance(incs[0], ast.AugAssign) and isinstance(incs[0].op, ast.Add) and src(incs[0].value) == "1") or
                                             (isinstance(incs[0], ast.Assign) and n.rat(incs[0].value).equals(n.rat(parse_expr(f"{cnt} + 1")))))
                ctx.check(inc_ok, "R1.next-id", f"Calibrator.{f.name}:increment", "the id advances by one per insertion", f"id counter updated by `{src(incs[0]) if incs else '?'}`", f, incs[0] if incs else s)
                if incs:
                    # the increment happens iff an insertion happened: same control dependences as the store
                    idep = {(t, lab) for t, lab in g.control_closure(g.nodes_of(incs[0])[0], head) if t.kind == "test"}
                    ctx.check(idep == set(deps), "R1.next-id", f"Calibrator.{f.name}:increment-iff-insert", "the counter advances exactly when a name is inserted",
                              "the id counter advances under a different condition than the insertion (gaps / duplicates)", f, incs[0])
            else:
                ctx.fail("R1.next-id", f"Calibrator.{f.name}:value", f"id stored is `{src(val)}`, not a running counter", f, s)
            # loop runs over the given samplers
            ctx.check(src(loop.iter) in ("samplers", "list(samplers)"), "R1.key", f"Calibrator.{f.name}:loop", "every given sampler is visited", f"loop iterates `{src(loop.iter)}`", f, loop)


def r1_writers(ctx: Context) -> None:
    prog = ctx.prog
    from ..util import set_iteration_sites
    cal0 = prog.find_class("Calibrator")
    for f, node, what in set_iteration_sites(prog, [m for m in prog.methods_of(cal0)]):
        ctx.fail("R1.first-seen-order", f"Calibrator.{f.name}:iterates-set:{what[:40]}", f"ids are handed out while iterating the set `{what}`: numbering follows hash order, not first-seen order, and differs "
                 "between processes (the plots rebuild the table in their own process)", f, node)
    # no deletion / rebinding outside __init__
    cal = prog.find_class("Calibrator")
    for f in prog.methods_of(cal):
        for x in walk_scope(f.node):
            if isinstance(x, ast.Delete) and any("samplers_id_table" in src(t) for t in x.targets):
                ctx.fail("R1.monotone", f"Calibrator.{f.name}:del", f"`{src(x)}` removes entries of the id table", f, x)
            if isinstance(x, ast.Call) and isinstance(x.func, ast.Attribute) and x.func.attr in ("pop", "clear", "popitem") and "samplers_id_table" in src(x.func.value):
                ctx.fail("R1.monotone", f"Calibrator.{f.name}:{x.func.attr}", f"`{src(x)}` removes entries of the id table", f, x)
    stores = prog.attr_stores(cal, inherited=False).get("samplers_id_table", [])
    for f, s, v in stores:
        ctx.check(f.name == "__init__", "R1.monotone", f"Calibrator.{f.name}:rebinding", "the table is bound once, in __init__",
                  f"`{src(s)[:80]}` rebinds the id table in {f.name}: ids handed out earlier are lost / renumbered", f, s)
    # set_samplers / set_scheduler update the table with the new line-up
    for name, arg_forms in (("set_samplers", ("samplers",)), ("set_scheduler", ("self.scheduler.samplers", "scheduler.samplers"))):
        f = ctx.func(f"{CAL}.{name}")
        calls = [c for c in calls_in(f.node) if isinstance(c.func, ast.Attribute) and c.func.attr == "update_samplers_id_table"]
        def _plain(e: ast.expr, depth: int = 0) -> ast.expr:
            # a local bound once, and tuple(...) / list(...) snapshots, stand for what they hold
            while depth < 6:
                depth += 1
                if isinstance(e, ast.Call) and isinstance(e.func, ast.Name) and e.func.id in ("tuple", "list") and len(e.args) == 1 and not e.keywords:
                    e = e.args[0]
                    continue
                if isinstance(e, ast.Name):
                    defs = [x.value for x in walk_scope(f.node) if isinstance(x, (ast.Assign, ast.AnnAssign)) and x.value is not None
                            and any(isinstance(t, ast.Name) and t.id == e.id for t in (x.targets if isinstance(x, ast.Assign) else [x.target]))]
                    if len(defs) == 1 and e.id not in f.params:
                        e = defs[0]
                        continue
                break
            return e
        forms = (*arg_forms, "self.scheduler._samplers") if name == "set_samplers" else arg_forms
        got_ = _plain(calls[0].args[0]) if len(calls) == 1 and len(calls[0].args) == 1 else None
        ok = got_ is not None and src(got_) in forms
        if got_ is not None and not ok and not isinstance(got_, (ast.Subscript, ast.Name, ast.Attribute, ast.List, ast.Tuple)):
            raise AnalysisError(f"{f.loc(calls[0])}: cannot read what `{src(calls[0])[:80]}` extends the table with")
        ctx.check(ok, "R1.update-on-replace", f"Calibrator.{name}:updates-table", f"{name} extends the table with the new line-up",
                  f"{name} does not call update_samplers_id_table with the new samplers", f, f.node)
    # the scheduler's line-up changes only through calls that also update the table: every store of the sampler sequence takes a private copy, so a list the
    # caller keeps (and later appends a sampler of a new class to) cannot change the line-up behind the table's back
    n_seq = 0
    for f, stmt, recv, value in attr_store_sites(prog, "_samplers", include_plot=False):
        if value is None:
            continue
        n_seq += 1
        copied = (isinstance(value, ast.Call) and (dotted(value.func) or "") in ("tuple", "list") and len(value.args) == 1) or isinstance(value, (ast.Tuple, ast.List)) \
            or (isinstance(value, ast.Name) and any(isinstance(d_, ast.Call) and (dotted(d_.func) or "") in ("tuple", "list") for d_ in [x.value for x in walk_scope(f.node)
                if isinstance(x, ast.Assign) and any(isinstance(t, ast.Name) and t.id == value.id for t in x.targets)]))
        ctx.check(copied, "R1.lineup-copy", f"{f.qualname.split(':')[1]}:_samplers", f"`{src(stmt)[:60]}` stores a private copy of the sampler sequence",
                  f"`{src(stmt)[:80]}` keeps the caller's own sequence object as the scheduler's line-up: a sampler the caller appends to that list later is scheduled without "
                  "update_samplers_id_table ever seeing its class, so its label has no entry in the table", f, stmt)
    ctx.floor("R1", "stores of the scheduler's sampler sequence", n_seq, 2)
    init = ctx.func(f"{CAL}.__init__")
    st = [v for f, s, v in stores if f is init]
    ok = len(st) == 1 and isinstance(st[0], ast.Call) and src(st[0].func).endswith("_construct_samplers_id_table") and src(st[0].args[0]) in ("list(self.scheduler.samplers)", "self.scheduler.samplers")
    ctx.check(ok, "R1.update-on-replace", "Calibrator.__init__:initial-table", "the initial table is built from the scheduler's samplers", f"initial table is `{src(st[0]) if st else '?'}`", init, init.node)


def r1_semantic(ctx: Context) -> None:
    """Small-scope abstract evaluation of the two table functions over equality patterns of class names."""
    import itertools

    from ..absint import Evaluator, Licence, Obj
    prog = ctx.prog
    upd = ctx.func(f"{CAL}.update_samplers_id_table")
    con = ctx.func(f"{CAL}._construct_samplers_id_table")
    names = ["A", "B", "C", "D"]

    def lineups(max_len: int, alphabet: list[str]):
        for k in range(1, max_len + 1):
            yield from itertools.product(alphabet, repeat=k)

    def objs(lu):
        return [Obj(f"Sampler{x}", {}) for x in lu]

    rows = 0
    bad: dict[str, str] = {}
    try:
        for l0 in (("A",), ("A", "A"), ("A", "B"), ("A", "B", "A"), ("A", "A", "B"), ("A", "B", "B"), ("A", "B", "C"), ("A", "A", "B", "C")):
            out = Evaluator(prog, con).run({con.params[0]: objs(l0)})
            if out.kind != "return" or not isinstance(out.value, dict):
                raise AnalysisError(f"_construct_samplers_id_table does not return a dict on {l0}: {out.brief()}")
            t0 = out.value
            first_seen = list(dict.fromkeys(f"Sampler{x}" for x in l0))
            rows += 1
            if t0 != {nm: i for i, nm in enumerate(first_seen)}:
                bad.setdefault("construct:first-seen-numbering", f"line-up {l0}: table {t0}, expected ids 0.. in first-seen order")
            for l1 in lineups(3, names):
                cal = Obj("Calibrator", {"samplers_id_table": dict(t0)})
                o1 = Evaluator(prog, upd).run({upd.self_name: cal, upd.bound_params[0]: objs(l1)})
                t1 = cal.attrs["samplers_id_table"]
                rows += 1
                _post(bad, "update", t0, t1, l1, o1, f"{l0} then {l1}")
                if len(l1) > 2:
                    continue
                for l2 in lineups(2, names):
                    cal2 = Obj("Calibrator", {"samplers_id_table": dict(t1)})
                    o2 = Evaluator(prog, upd).run({upd.self_name: cal2, upd.bound_params[0]: objs(l2)})
                    rows += 1
                    _post(bad, "update", t1, cal2.attrs["samplers_id_table"], l2, o2, f"{l0} then {l1} then {l2}")
    except Licence as exc:
        raise AnalysisError(f"licence check failed for the id-table functions: {exc}") from exc
    for key, msg in bad.items():
        ctx.fail("R1.semantic", f"Calibrator.id-table:{key}", msg, upd, upd.node)
    if not bad:
        ctx.ok("R1.semantic", "Calibrator.id-table:invariants", f"{rows} abstract evaluations: old ids unchanged, all ids distinct, every class of the line-up has an id")
    ctx.tables["C18.R1.semantic"] = {"rows": rows, "exhaustive": True, "scope": "initial line-ups up to 3, first replacement up to 3, second up to 2 samplers over 4 class names (equality patterns)"}
    ctx.sample({"abstract_evaluations_of_id_table_functions": rows})


def _post(bad: dict, what: str, before: dict, after, lineup, outcome, label: str) -> None:
    if outcome.kind != "return":
        bad.setdefault(f"{what}:raises", f"{label}: raises {outcome.name}")
        return
    if not isinstance(after, dict):
        bad.setdefault(f"{what}:table-type", f"{label}: table became {after!r}")
        return
    for k, v in before.items():
        if after.get(k) != v:
            bad.setdefault(f"{what}:id-reassigned", f"{label}: id of {k} changed from {v} to {after.get(k)} (labels already stored now point to another class)")
    if len(set(after.values())) != len(after):
        bad.setdefault(f"{what}:id-collision", f"{label}: two classes share an id: {after}")
    for x in lineup:
        if f"Sampler{x}" not in after:
            bad.setdefault(f"{what}:class-without-id", f"{label}: Sampler{x} has no id in {after}")


def r3_persisted(ctx: Context) -> None:
    pl = Plumbing(ctx.prog)
    args = pl.checkpoint_args()
    persisted = any(dotted(e) == f"{pl.cc.self_name}.samplers_id_table" for e in args.values())
    # recomputable: only if the table never outgrows the current line-up, i.e. no update path exists
    cal = ctx.prog.find_class("Calibrator")
    can_grow = "update_samplers_id_table" in cal.methods and any(
        isinstance(c.func, ast.Attribute) and c.func.attr == "update_samplers_id_table"
        for name in ("set_samplers", "set_scheduler") if name in cal.methods for c in calls_in(cal.methods[name].node))
    ctx.check(persisted or not can_grow, "R3.persisted", "Calibrator.samplers_id_table:persisted",
              "the id table is written to the checkpoint (or can never differ from the one rebuilt from the scheduler)",
              "samplers_id_table is not part of the checkpoint: restore and the plotting utilities rebuild it from the scheduler's current samplers, "
              "which renumbers classes after set_samplers/set_scheduler replaced the line-up - stored labels then map to the wrong names", pl.cc, pl.cc_call)


def r3b_write_order(ctx: Context) -> None:
    """The labels live in the results file, the line-up the table is rebuilt from in the scheduler pickle.  Written in that order (pickle first) a crash between the
    two leaves labels that are at most as new as the line-up; the other way round the results file can hold the label of a class the stored line-up does not know."""
    pl = Plumbing(ctx.prog)
    eff = [e for e in pl.save_effects() if e.api != "rename"]
    order = [e.file for e in eff]
    sched = [s.key for s in pl.save_storage().get("scheduler", []) if s.kind == "pickle"]
    labels = [e.file for e in eff if e.api == "to_csv"]
    if not sched or not labels:
        raise AnalysisError("cannot find the scheduler pickle / the results file among the effects of save")
    ok = order.index(sched[0]) < order.index(labels[0])
    ctx.check(ok, "R3.write-order", "save_calibrator_state:scheduler-before-labels", f"{sched[0]} is written before {labels[0]}",
              f"{labels[0]} (sampler labels) is written before {sched[0]} (the line-up the id table is rebuilt from): after set_samplers added a class, a crash between the two leaves "
              "labels that the table recovered from the checkpoint cannot name", pl.save, eff[order.index(labels[0])].node)


def r4_channel(ctx: Context) -> None:
    prog = ctx.prog
    pl = Plumbing(prog)
    st = pl.save_storage().get("scheduler", [])
    files = [s.key for s in st if s.kind == "pickle"]
    if not files:
        raise AnalysisError("cannot find the pickle file that holds the scheduler")
    file = files[0]
    ann = pl.save.param_annotation("scheduler")
    dumped = src(ann) if ann is not None else "?"
    reader = ctx.func("black_it.plot.plot_results:_get_samplers_id_table")
    from ..persist import _enclosing_file
    from ..poly import single_assignment_env
    env = single_assignment_env(reader.node)
    loads = [c for c in calls_in(reader.node) if (dotted(c.func) or "") == "pickle.load"]
    if not loads:
        # the unpickling may have moved into a helper of the same module
        for c in calls_in(reader.node, scope_only=False):
            for t in prog.resolve_call(reader, c):
                if isinstance(t, FuncInfo) and t.module is reader.module and [x for x in calls_in(t.node) if (dotted(x.func) or "") == "pickle.load"]:
                    reader = ctx.analysed(t)
                    env = single_assignment_env(reader.node)
                    loads = [x for x in calls_in(t.node) if (dotted(x.func) or "") == "pickle.load"]
    ctx.floor("R4", "pickle.load in the plotting reader", len(loads), 1)
    lc = loads[0]
    ef = _enclosing_file(lc, lc.args[0].id, env) if lc.args and isinstance(lc.args[0], ast.Name) else None
    ctx.check(ef is not None and ef[0] == file, "R4.file", "plot_results._get_samplers_id_table:file", f"the plotting reader opens {file}, the file save writes the scheduler to",
              f"the plotting reader opens `{ef[0] if ef else '?'}`, the calibrator writes the scheduler to `{file}`", reader, lc)
    loaded = [t.id for s in walk_scope(reader.node) if isinstance(s, ast.Assign) and s.value is lc for t in s.targets if isinstance(t, ast.Name)]
    if not loaded:
        raise AnalysisError("cannot find the local holding the unpickled object in the plotting reader")
    obj = loaded[0]
    cons = [c for c in calls_in(reader.node) if src(c.func).endswith("_construct_samplers_id_table")]
    ctx.floor("R4", "table constructor call in the plotting reader", len(cons), 1)
    arg = cons[0].args[0] if cons[0].args else None
    # the consumer expects list[BaseSampler]; the channel carries a BaseScheduler: some `.samplers` projection must lie between
    def projects(e: ast.expr | None, depth: int = 0) -> bool:
        if e is None or depth > 6:
            return False
        if isinstance(e, ast.Attribute) and e.attr in ("samplers", "_samplers") and any(isinstance(x, ast.Name) and x.id == obj for x in ast.walk(e.value)):
            return True
        if isinstance(e, ast.Call) and dotted(e.func) == "getattr" and len(e.args) >= 2 and isinstance(e.args[1], ast.Constant) and e.args[1].value in ("samplers", "_samplers") \
                and any(isinstance(x, ast.Name) and x.id == obj for x in ast.walk(e.args[0])):
            return True
        if isinstance(e, ast.Call) and dotted(e.func) in ("list", "tuple") and e.args:
            return projects(e.args[0], depth + 1)
        if isinstance(e, ast.Name) and e.id in env:
            return projects(env[e.id], depth + 1)
        if isinstance(e, ast.Name):
            # bound more than once (`try: s = obj.samplers  except AttributeError: s = obj`): some binding must project
            defs = [x.value for x in walk_scope(reader.node) if isinstance(x, ast.Assign) and any(isinstance(t, ast.Name) and t.id == e.id for t in x.targets)]
            return any(projects(d_, depth + 1) for d_ in defs)
        if isinstance(e, ast.IfExp):
            return projects(e.body, depth + 1) or projects(e.orelse, depth + 1)
        return False
    ctx.check("Scheduler" not in dumped or projects(arg), "R4.typing", "plot_results._get_samplers_id_table:scheduler-to-samplers",
              f"{file} holds a {dumped}; the reader projects it to its samplers before building the table (list[BaseSampler] expected)",
              f"{file} holds a {dumped} (as written by save_calibrator_state) but the plotting reader passes the unpickled object `{src(arg) if arg is not None else '?'}` "
              "straight to the table constructor, which iterates a list of samplers: TypeError on every checkpoint the calibrator writes", reader, cons[0])
    for d in reader.node.decorator_list:
        name = (dotted(d) or (dotted(d.func) if isinstance(d, ast.Call) else "") or "").split(".")[-1]
        if name in ("lru_cache", "cache", "memoize"):
            ctx.fail("R4.no-stale-cache", f"plot_results._get_samplers_id_table:decorator:{name}",
                     f"@{name} caches the id table per folder name: a checkpoint rewritten in that folder (run continued with a new class, other run) is labelled with the stale table", reader, d)
    for name in ("_get_samplers_names",):
        f = ctx.func(f"black_it.plot.plot_results:{name}")
        for d in f.node.decorator_list:
            nm = (dotted(d) or (dotted(d.func) if isinstance(d, ast.Call) else "") or "").split(".")[-1]
            if nm in ("lru_cache", "cache", "memoize"):
                ctx.fail("R4.no-stale-cache", f"plot_results.{name}:decorator:{nm}", f"@{nm} caches sampler names per folder name", f, d)
    # inverse map: id -> name
    f = ctx.func("black_it.plot.plot_results:_get_samplers_names")
    n = normaliser(prog, f)
    inv_ok = any(isinstance(x, ast.DictComp) and len(x.generators) == 1 and isinstance(x.generators[0].target, ast.Tuple) and len(x.generators[0].target.elts) == 2
                 and src(x.key) == src(x.generators[0].target.elts[1]) and src(x.value) == src(x.generators[0].target.elts[0]) and src(x.generators[0].iter).endswith(".items()") for x in ast.walk(f.node))
    # the same inversion spelled with zip: dict(zip(T.values(), T.keys()))
    for x in ast.walk(f.node):
        if isinstance(x, ast.Call) and dotted(x.func) == "dict" and len(x.args) == 1 and isinstance(x.args[0], ast.Call) and dotted(x.args[0].func) == "zip" and len(x.args[0].args) == 2:
            a_, b_ = x.args[0].args
            if isinstance(a_, ast.Call) and isinstance(b_, ast.Call) and isinstance(a_.func, ast.Attribute) and isinstance(b_.func, ast.Attribute) \
                    and a_.func.attr == "values" and b_.func.attr == "keys" and src(a_.func.value) == src(b_.func.value):
                inv_ok = True
    ctx.check(inv_ok, "R4.inverse", "plot_results._get_samplers_names:inverse", "names are looked up through the inverted table {id: name}", "the id->name inversion changed", f, f.node)


def r4_no_stale_cache(ctx: Context) -> None:
    prog = ctx.prog
    reader = ctx.func("black_it.plot.plot_results:_get_samplers_id_table")
    for f2 in prog.all_functions(include_plot=True):
        if f2.module.name != reader.module.name:
            continue
        for d in f2.node.decorator_list:
            nm = (dotted(d) or (dotted(d.func) if isinstance(d, ast.Call) else "") or "").split(".")[-1]
            if nm in ("lru_cache", "cache", "memoize") and f2.name not in ("_get_samplers_id_table", "_get_samplers_names"):
                ctx.fail("R4.no-stale-cache", f"plot_results.{f2.name}:decorator:{nm}",
                         f"@{nm} on plot_results.{f2.name}: what is read from a checkpoint folder is cached per folder name and goes stale when the calibrator rewrites that folder", f2, d)
    consts = prog.module_consts.get(reader.module.name, {})
    for f2 in prog.all_functions(include_plot=True):
        if f2.module.name != reader.module.name:
            continue
        for x in walk_scope(f2.node):
            if isinstance(x, ast.Assign) and isinstance(x.targets[0], ast.Subscript) and isinstance(x.targets[0].value, ast.Name) and x.targets[0].value.id in consts:
                ctx.fail("R4.no-stale-cache", f"plot_results.{f2.name}:module-cache:{x.targets[0].value.id}", f"`{src(x)[:70]}` caches checkpoint content in module-level `{x.targets[0].value.id}`", f2, x)


def no_shared_tables(ctx: Context, where: str = "black_it/calibrator.py") -> None:
    """One calibrator's id table is its own: nothing in the calibrator module keeps process-wide state (module-level stores, caches handing out an object that is
    written to later) - the module-state rule of C05 (R2), kept to what it reports in black_it/calibrator.py."""
    from . import c05
    before, n_obl = len(ctx.findings), len(ctx.obligations)
    c05.r2a_global_state(ctx)
    keep = [f for f in ctx.findings[before:] if where in f.where]
    kept = {f.key for f in keep}
    ctx.findings[before:] = keep
    ctx.obligations[n_obl:] = [o for o in ctx.obligations[n_obl:] if o["verdict"] != "violated" or o["key"] in kept]


def restored_records_identity(ctx: Context, extra: tuple[str, ...] = (), only: tuple[str, ...] | None = None) -> None:
    """After a restore label i still belongs to sample i: every per-sample record (parameters, losses, series, batch index, sampler id) comes back through
    the persistence chain unchanged - the field-plumbing rule of C04 (R1), kept to the per-sample fields (what C04 says about the other fields, including
    its known findings, is C04's business)."""
    from . import c04
    from ..persist import Plumbing
    fields = only if only is not None else ("params_samp", "losses_samp", "series_samp", "batch_num_samp", "method_samp", *extra)
    before, n_obl = len(ctx.findings), len(ctx.obligations)
    c04.r1_plumbing(ctx, Plumbing(ctx.prog))
    keep = [f for f in ctx.findings[before:] if any(fl in f.key for fl in fields)]
    ctx.findings[before:] = keep
    ctx.obligations[n_obl:] = [o for o in ctx.obligations[n_obl:] if o["verdict"] != "violated" or any(fl in o["key"] for fl in fields)]
