"""C11 - a failing batch leaves the calibrator consistent and reusable."""
from __future__ import annotations

import ast

from ..calib import CalibrateView
from ..cfg import CFG
from ..errors import AnalysisError
from ..model import FuncInfo, dotted, src, walk_scope
from ..report import Context
from ..util import returns_of, calls_in, node_for, path_text
from . import c02
from .c10 import plans, run_product

LEVEL_TEXT = (
    "Static analysis (no execution): (R1) in the generator behind BaseScheduler.session the yield lies in a try whose "
    "finally reaches end_session, so the session is torn down on every exit; (R2) all records of a batch are written "
    "after sampler, model and loss have finished for the whole batch and nothing that can raise in user code lies between "
    "the first and the last record write, so a fault cannot leave the history misaligned; (R3) product of the extracted "
    "thread summaries with an exception injected at every call into sampler / model / loss of every batch (one fault per "
    "run, within the stated bound of sessions and batches), over all interleavings: calibrate() propagates the injected "
    "exception and no other, no agent thread is left running, the session flag is reset, no message is left queued, and "
    "the following calibrate() call runs to completion without deadlock. Equality of the history with the fault-free "
    "prefix is a runtime clause and is not decided."
    ' (R3) no exception handler in any function reachable from calibrate ends normally when its try-body runs repository code or a user-supplied callable (third-party-only bodies with a documented fallback are not batch faults).'
    ' A handler that re-raises around repository / user code raises the exception it caught; the round-robin position advances in update(), so a retried batch is run by the sampler whose turn it was (C09-R1).'
    " Lazy evaluation is read where it happens: a bare map(...) is a generator, np.fromiter / list consume it at their own position (commit-region rule)."
)
TECHNIQUE = "CFG try/finally dominance rule + commit-region path query + exhaustive product of extracted thread summaries with injected exceptional exits"
LEVEL_NOTE = ("Trusted base: as C10; faults are injected at the three user-code call sites of Calibrator.calibrate (sample, simulate_model, compute_loss), "
              "one fault per run; exceptions raised by numpy bookkeeping statements between them are not modelled.")


def run(ctx: Context) -> None:
    v = CalibrateView(ctx.prog)
    ctx.analysed(v.cal)
    ctx.rule(r1_teardown)
    ctx.rule(c02.r2_aligned, v)
    ctx.rule(no_swallowing, v)
    # a retried batch is run by the sampler whose turn it was: the round-robin position advances in update(), not when the sampler is handed out (C09-R1)
    from . import c09
    ctx.rule(c09.r1_round_robin)
    thorough = ctx.tier == "thorough"
    ctx.rule(run_product, ("C11", "C10"), True, plans(3, 2) if thorough else plans(2, 2), "with-faults")


def r1_teardown(ctx: Context) -> None:
    prog = ctx.prog
    f = ctx.func("black_it.schedulers.base:BaseScheduler.session")
    if "contextmanager" not in f.decorators:
        # class-based manager that the front end could not read as a generator: the usual reason is an __exit__ that can return a true value
        body = [st for st in f.node.body if not (isinstance(st, ast.Expr) and isinstance(st.value, ast.Constant))]
        k = None
        if len(body) == 1 and isinstance(body[0], ast.Return) and isinstance(body[0].value, ast.Call) and isinstance(body[0].value.func, ast.Name):
            k = next((c for c in prog.classes.values() if c.name == body[0].value.func.id and "__exit__" in c.methods), None)
        if k is None:
            raise AnalysisError(f"{f.loc(f.node)}: session() is neither a generator-based context manager nor a plain factory of a class-based one; cannot decide R1")
        ex = k.methods["__exit__"]
        ctx.analysed(ex)
        for r in returns_of(ex):
            v = r.value
            falsy = v is None or (isinstance(v, ast.Constant) and v.value in (None, False))
            ctx.check(falsy, "R1.teardown", f"{k.name}.__exit__:suppresses", "__exit__ returns nothing / False: an exception raised in the with-body propagates",
                      f"`{src(r)}`: __exit__ can return a true value, which makes the `with` statement swallow the exception raised by model/loss/sampler - calibrate() then continues as if nothing happened", ex, r)
        ends_ = [c for c in calls_in(ex.node) if isinstance(c.func, ast.Attribute) and c.func.attr == "end_session"]
        ctx.check(bool(ends_), "R1.teardown", f"{k.name}.__exit__:end_session", "__exit__ ends the session", "__exit__ does not call end_session()", ex, ex.node)
        if not ctx.findings:
            raise AnalysisError(f"{f.loc(f.node)}: class-based session manager {k.name} in a form the front end does not read; cannot decide R1")
        return
    g = CFG(f.node, exc_edges=True)
    yields = [n for n in g.live if n.ast is not None and isinstance(n.ast, ast.Expr) and isinstance(n.ast.value, ast.Yield)]
    ctx.floor("R1", "yield in BaseScheduler.session", len(yields), 1)
    ends = {x for c in calls_in(f.node) if isinstance(c.func, ast.Attribute) and c.func.attr == "end_session" for x in node_for(g, c)}
    starts = {x for c in calls_in(f.node) if isinstance(c.func, ast.Attribute) and c.func.attr == "start_session" for x in node_for(g, c)}
    ctx.check(bool(ends) and bool(starts), "R1.teardown", "BaseScheduler.session:start-end", "session() calls start_session and end_session", "start_session / end_session call missing", f, f.node)
    for y in yields:
        # every path from the yield - normal or exceptional - to an exit passes through end_session
        p = g.path_avoiding(y, {g.exit, g.raise_exit}, ends)
        ctx.check(p is None, "R1.teardown", "BaseScheduler.session:end_session-on-every-exit", "every exit from the with-body (normal or exceptional) runs end_session()",
                  "an exception raised inside `with scheduler.session():` leaves the generator without running end_session(): the agent thread keeps running and the session flag stays set",
                  f, y.ast, path_text(f, p))
        p2 = g.path_avoiding(g.entry, {y}, starts)
        ctx.check(p2 is None, "R1.teardown", "BaseScheduler.session:start-before-yield", "start_session() precedes the with-body", "the with-body can start without start_session()", f, y.ast)
    # overrides of session() would bypass the rule
    base = prog.find_class("BaseScheduler")
    for c in prog.subclasses(base, strict=True):
        ctx.check("session" not in c.methods, "R1.teardown", f"{c.name}.session:override", f"{c.name} uses the base session()", f"{c.name} overrides session(): teardown discipline must be re-checked", c.methods.get("session"), None)
    # calibrate uses the context manager around the whole loop
    v = CalibrateView(prog)
    if v.unreadable:
        raise AnalysisError(v.unreadable)
    ctx.check(len(v.session) == 1, "R1.teardown", "Calibrator.calibrate:with-session", "the batch loop runs inside `with self.scheduler.session():`", f"{len(v.session)} session() calls in calibrate", v.cal, v.cal.node)
    if v.session:
        w = getattr(v.session[0], "_parent", None)
        while w is not None and not isinstance(w, ast.With):
            w = getattr(w, "_parent", None)
        ok = w is not None and any(x is v.loop_stmt for x in ast.walk(w))
        ctx.check(ok, "R1.teardown", "Calibrator.calibrate:loop-inside-session", "the whole batch loop lies inside the session", "the batch loop is outside the session context", v.cal, v.session[0])


# ---------------------------------------------------------------------------------------------- faults are not swallowed below calibrate
def _batch_path_functions(prog, root: FuncInfo) -> list[FuncInfo]:
    """Repository functions reachable from calibrate through resolved calls (class-hierarchy resolution: every override of a dispatched method)."""
    seen: dict[str, FuncInfo] = {root.qualname: root}
    work = [root]
    while work:
        f = work.pop()
        for c in calls_in(f.node, scope_only=False):
            try:
                ts = prog.resolve_call(f, c)
            except AnalysisError:
                continue
            for t in ts:
                if isinstance(t, FuncInfo) and t.qualname not in seen and not t.module.name.startswith("black_it.plot"):
                    seen[t.qualname] = t
                    work.append(t)
    return list(seen.values())


def no_swallowing(ctx: Context, v: CalibrateView) -> None:
    """`calibrate() propagates that exception`: between the point where the model, the loss or a sampler raises and calibrate() there is no handler
    that ends normally.  Decided on every function reachable from calibrate: a handler whose try-body calls repository code or a user-supplied
    callable (directly - third-party-only bodies such as a linear solve with a documented fallback are not faults of the batch) must re-raise on
    every path."""
    from ..model import FuncInfo as FI
    prog = ctx.prog
    funcs = _batch_path_functions(prog, v.cal)
    n_try = 0
    for f in funcs:
        ctx.functions.add(f.qualname)
        tries = [t for t in ast.walk(f.node) if isinstance(t, ast.Try) and t.handlers]
        if not tries:
            continue
        g = CFG(f.node, exc_edges=False)
        for t in tries:
            n_try += 1
            # does the protected region run repository / user code?
            carriers = []
            for st in t.body:
                for c in [x for x in ast.walk(st) if isinstance(x, ast.Call)]:
                    try:
                        ts = prog.resolve_call(f, c)
                    except AnalysisError:
                        ts = []
                    if any(isinstance(x, FI) for x in ts):
                        carriers.append(c)
                    elif isinstance(c.func, ast.Attribute) and isinstance(c.func.value, ast.Name) and c.func.value.id == f.self_name and f.cls is not None \
                            and prog.lookup_method(f.cls, c.func.attr) is None:
                        carriers.append(c)      # self.<attribute>(...): a callable handed in by the user (model, moment calculator, ...)
                    elif isinstance(c.func, ast.Call) and any(isinstance(x, ast.Attribute) and isinstance(x.value, ast.Name) and x.value.id == f.self_name for x in ast.walk(c.func)):
                        carriers.append(c)      # delayed(self.model)(...)
            if not carriers:
                continue
            for h in t.handlers:
                hn = [x for x in g.live if x.kind == "handler" and x.ast is h]
                if not hn:
                    continue
                p = g.path_avoiding(hn[0], {g.exit} | {x for x in g.live if x.kind in ("break", "continue", "return")}, {x for x in g.live if x.kind == "raise"},
                                    labels={"next", "true", "false", "loop", "exhaust"})
                typ = src(h.type) if h.type is not None else "everything"
                key = f"{f.qualname.split(':')[1]}:handler:{typ}:{' '.join(src(carriers[0].func).split())[:40]}"
                ctx.check(p is None, "R3.propagate", key, f"the `except {typ}` handler around `{src(carriers[0].func)[:40]}` re-raises",
                          f"`except {typ}` in {f.qualname.split(':')[1]} ends normally although its try-body runs `{src(carriers[0])[:60]}`: an exception raised there by the model / the loss / "
                          "a sampler is swallowed instead of being propagated by calibrate()", f, h, path_text(f, p))
    # handlers that do re-raise (the front end reads such a try as its body and keeps a record): what leaves must be the exception that was caught
    from .. import align
    on_path = {(f.module.name, f.qualname.split(":")[1]) for f in funcs}
    by_name = {(f.module.name, f.qualname.split(":")[1]): f for f in funcs}
    for rec, body, h in align.RERAISING_TRY_NODES:
        key_f = (rec["module"], rec["function"])
        if key_f not in on_path:
            continue
        f = by_name[key_f]
        n_try += 1
        carriers = []
        for st in body:
            for c in [x for x in ast.walk(st) if isinstance(x, ast.Call)]:
                try:
                    ts = prog.resolve_call(f, c)
                except AnalysisError:
                    ts = []
                if any(isinstance(x, FI) and not (x.cls is not None and x.name == "__init__") for x in ts):
                    carriers.append(c)
                elif isinstance(c.func, ast.Attribute) and isinstance(c.func.value, ast.Name) and c.func.value.id == f.self_name and f.cls is not None and prog.lookup_method(f.cls, c.func.attr) is None:
                    carriers.append(c)
                elif isinstance(c.func, ast.Name) and c.func.id in f.params or (isinstance(c.func, ast.Name) and any(isinstance(g_, ast.comprehension) and c.func.id in {x.id for x in ast.walk(g_.target) if isinstance(x, ast.Name)} for g_ in ast.walk(f.node))):
                    carriers.append(c)      # a callable handed in by the user (a coordinate filter, a moment calculator)
        if not carriers:
            continue
        new = [r for r in rec["raises"] if r != "same"]
        ctx.check(not new, "R3.propagate", f"{rec['function']}:reraise:{rec['catches']}:{' '.join(src(carriers[0].func).split())[:40]}",
                  f"the `except {rec['catches']}` handler around `{src(carriers[0].func)[:40]}` re-raises the exception it caught",
                  f"`except {rec['catches']}` in {rec['function']} raises `{new[0][4:] if new else ''}` instead of the exception it caught from `{src(carriers[0])[:50]}`: what calibrate() propagates "
                  "is then a different exception object (for error classes with their own constructor even a different type) than the one the model / loss / sampler raised", f, h)
    ctx.ok("R3.propagate", "batch-path:scanned", f"{len(funcs)} functions reachable from calibrate scanned, {n_try} try statement(s)")
    ctx.floor("R3", "functions reachable from calibrate", len(funcs), 25)
