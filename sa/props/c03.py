"""C03 - every proposed parameter vector belongs to the declared search space.

R1 Grid typestate on every return of every concrete sample_batch (and of BaseSampler.sample),
R2 snap soundness (= C17 R1-R3), R3 row-count plumbing.
"""
from __future__ import annotations

import ast

from ..cfg import CFG
from ..errors import AnalysisError
from ..model import ClassInfo, FuncInfo, dotted, src, walk_scope
from ..report import Context
from ..util import calls_in, dep_leaves, kwarg, reaching_events, returns_of
from . import c15, c16, c17

LEVEL_TEXT = (
    "Static analysis (no execution): a provenance typestate 'Grid' is computed for the value of every `return` of "
    "every concrete sample_batch in the sampler hierarchy and of BaseSampler.sample. Sources of Grid: "
    "digitize_data(X, <search_space>.param_grid) with exactly the search space's grid (snap soundness of "
    "digitize_data/get_closest is decided structurally, see C17), and an array every column of which is stored from "
    "generator.choice(<column of param_grid>) in a loop over the whole param_grid; Grid is preserved by assignment, "
    "resolved calls whose every return is Grid, and `samples[rows] = other Grid`; arithmetic, clip, raw history rows, "
    "augmented assignment are not Grid. Reaching definitions make the rule flow-sensitive. Holds for every search "
    "space, history and seed because it does not depend on values. Also: the batch_size parameter must reach the "
    "returned value in samplers that can be asked to redraw. The 1e-7 end-point tolerance of the grid itself is C15."
    " The snap's dtype rule (output buffer float64, never inherited from the input) is included, and Grid summaries of helpers are parametric in their arguments (a helper that snaps what it is given is Grid wherever it is called with the search space's grid)."
    ' Included: the model receives a private copy of the proposed batch (C02-R7 restricted to the batch), and no snapping table is looked up by the identity (`id()`) of a grid.'
    " (R4) the SearchSpace is built from the caller's bounds / precision themselves (no transformed copy), which it keeps as private copies (C04-R10)."
    " The Halton cursor rule of C13 is included (the generator is asked for, and returns, exactly batch_size points)."
)
TECHNIQUE = "typestate/provenance analysis over reaching definitions with class-hierarchy call resolution"

BASE = "black_it.samplers.base:BaseSampler"


class GridRule:
    def __init__(self, ctx: Context) -> None:
        self.ctx = ctx
        self.prog = ctx.prog
        self._memo: dict[str, tuple[bool, str]] = {}
        self._active: set[str] = set()
        self._cfgs: dict[str, CFG] = {}
        # helper -> parameters whose Grid-ness its own result depends on (checked against the actual argument at every call site)
        self._assumes: dict[str, set[str]] = {}
        self._stack: list[str] = []

    def cfg(self, f: FuncInfo) -> CFG:
        if f.qualname not in self._cfgs:
            self._cfgs[f.qualname] = CFG(f.node)
        return self._cfgs[f.qualname]

    # -- a function "returns Grid" iff every return does
    def func_returns_grid(self, f: FuncInfo) -> tuple[bool, str]:
        if f.qualname in self._memo:
            return self._memo[f.qualname]
        if f.qualname in self._active:
            return True, "recursive (assumed, checked at the outer level)"
        if "abstractmethod" in f.decorators:
            return True, "abstract"
        self._active.add(f.qualname)
        self._stack.append(f.qualname)
        try:
            rets = returns_of(f)
            if not rets:
                res = (False, f"{f.qualname} has no return")
            else:
                res = (True, "all returns Grid")
                for r in rets:
                    ok, why = self.expr_is_grid(f, r.value, r)
                    if not ok:
                        res = (False, f"{f.loc(r)} `return {src(r.value)[:60]}`: {why}")
                        break
        finally:
            self._active.discard(f.qualname)
            self._stack.pop()
        self._memo[f.qualname] = res
        return res

    def search_space_params(self, f: FuncInfo) -> set[str]:
        out = set()
        for p in f.params:
            ann = f.param_annotation(p)
            if p == "search_space" or (ann is not None and "SearchSpace" in src(ann)):
                out.add(p)
        return out

    def expr_is_grid(self, f: FuncInfo, e: ast.expr | None, at: ast.AST, depth: int = 0) -> tuple[bool, str]:
        if e is None:
            return False, "returns None"
        if depth > 12:
            return False, "provenance too deep"
        if isinstance(e, ast.Call):
            fn = dotted(e.func) or ""
            short = fn.split(".")[-1]
            if short == "cast" and len(e.args) == 2:
                return self.expr_is_grid(f, e.args[1], at, depth + 1)
            if short in ("copy",) and (e.args or isinstance(e.func, ast.Attribute)):
                inner = e.args[0] if e.args and fn.startswith(("np.", "numpy.")) else (e.func.value if isinstance(e.func, ast.Attribute) else None)
                if inner is not None:
                    return self.expr_is_grid(f, inner, at, depth + 1)
            targets = self.prog.resolve_call(f, e)
            repo = [t for t in targets if isinstance(t, FuncInfo)]
            if repo and all(t.qualname == c17.DD for t in repo):
                ss = self.search_space_params(f)
                grid = e.args[1] if len(e.args) > 1 else kwarg(e, "param_grid")
                ok = grid is not None and isinstance(grid, ast.Attribute) and grid.attr == "param_grid" and isinstance(grid.value, ast.Name) and grid.value.id in ss
                if not ok:
                    return False, f"snapped onto `{src(grid) if grid is not None else '?'}`, which is not the search space's own param_grid"
                return True, "digitize_data(., search_space.param_grid)"
            if repo:
                # constructor of a sampler followed by .sample_batch is resolved through the attribute call below
                for t in repo:
                    ok, why = self.func_returns_grid(t)
                    if not ok:
                        return False, f"callee {t.qualname} does not return Grid: {why}"
                    # the helper's result is Grid provided some of its array parameters are: check the actual arguments here
                    for p_ in sorted(self._assumes.get(t.qualname, ())):
                        pos = t.bound_params.index(p_) if p_ in t.bound_params else None
                        arg = next((k.value for k in e.keywords if k.arg == p_), e.args[pos] if pos is not None and pos < len(e.args) else None)
                        if arg is None or isinstance(arg, ast.Starred):
                            return False, f"cannot find the argument bound to `{p_}` of {t.qualname}"
                        ok2, why2 = self.expr_is_grid(f, arg, at, depth + 1)
                        if not ok2:
                            return False, f"{t.qualname} returns its parameter `{p_}`, and the argument `{src(arg)[:40]}` is not Grid: {why2}"
                return True, "callee(s) return Grid"
            # <SamplerCtor>(...).sample_batch(...)
            if isinstance(e.func, ast.Attribute) and isinstance(e.func.value, ast.Call):
                c = self.prog.class_of_name(f.module, dotted(e.func.value.func) or "")
                if c is not None:
                    ms = self.prog.overrides(c, e.func.attr)
                    if ms:
                        for t in ms:
                            ok, why = self.func_returns_grid(t)
                            if not ok:
                                return False, f"callee {t.qualname} does not return Grid: {why}"
                        return True, "callee(s) return Grid"
            # a call through a *local callable* (a name bound to a closure, a functools.partial, the result of a factory) is a call whose callee the rule
            # cannot see: what it returns is unknown, not "computed" - undecided
            if isinstance(e.func, ast.Name) and e.func.id not in ("int", "float", "abs", "min", "max", "sum", "round", "len", "list", "tuple") \
                    and (e.func.id in f.params or any(
                        isinstance(x, ast.Name) and x.id == e.func.id and isinstance(x.ctx, ast.Store) for x in ast.walk(f.node))):
                raise AnalysisError(f"{f.loc(e)}: `{src(e)[:50]}` calls the local callable `{e.func.id}`; what it returns (a grid point or not) cannot be read")
            # value-preserving conversions of a Grid value
            if isinstance(e.func, ast.Attribute) and e.func.attr == "astype" and e.args and src(e.args[0]) in ("np.float64", "float", "numpy.float64", "'float64'") \
                    and all(k.arg in ("copy", "order") for k in e.keywords):
                return self.expr_is_grid(f, e.func.value, at, depth + 1)
            if fn in ("np.asarray", "np.array", "np.ascontiguousarray", "numpy.asarray", "numpy.array") and len(e.args) == 1 and all(
                    k.arg == "copy" or (k.arg == "dtype" and src(k.value) in ("np.float64", "float", "numpy.float64")) for k in e.keywords) and isinstance(e.args[0], ast.Name):
                return self.expr_is_grid(f, e.args[0], at, depth + 1)
            # columns drawn one per grid column and put side by side: np.stack(cols, axis=1) / np.column_stack(cols)
            if (fn in ("np.stack", "numpy.stack") and len(e.args) == 1 and src(kwarg(e, "axis") or ast.Constant(value=0)) in ("1", "-1")) or (fn in ("np.column_stack", "numpy.column_stack") and len(e.args) == 1):
                cols = e.args[0]
                if isinstance(cols, ast.Name):
                    from ..poly import single_assignment_env
                    cols = single_assignment_env(f.node).get(cols.id, cols)
                ok_c, why_c = self._uniform_column_list(f, cols)
                if ok_c is not None:
                    return ok_c, why_c
            return False, f"`{src(e)[:70]}` is a computed value (not snapped onto the grid)"
        if isinstance(e, ast.Subscript):
            # row selection / permutation / prefix of a Grid array is Grid (whole rows or whole-array slices)
            return self.expr_is_grid(f, e.value, at, depth + 1)
        if isinstance(e, ast.Name):
            return self.name_is_grid(f, e.id, at, depth)
        if isinstance(e, ast.IfExp):
            a = self.expr_is_grid(f, e.body, at, depth + 1)
            b = self.expr_is_grid(f, e.orelse, at, depth + 1)
            return (a if not a[0] else b) if not (a[0] and b[0]) else (True, "both branches Grid")
        return False, f"`{src(e)[:70]}` is a computed value (not snapped onto the grid)"

    def name_is_grid(self, f: FuncInfo, name: str, at: ast.AST, depth: int) -> tuple[bool, str]:
        g = self.cfg(f)
        at_nodes = g.nodes_of(at) or g.nodes_containing(at)
        if not at_nodes:
            return False, "unreachable use"
        evs = reaching_events(g, name, at_nodes[0])
        if not evs:
            return False, f"`{name}` has no reaching definition"
        uniform_cols = None
        for node, kind, a in evs:
            if kind == "entry":
                if name == "existing_points" and name in f.params and f.name in ("sample_batch", "sample"):
                    # the property quantifies over on-grid histories: rows of the history are Grid by assumption
                    self.ctx.assume("history rows passed as existing_points are on the grid (the property quantifies over on-grid histories)")
                    continue
                if name in f.params and f.name not in ("sample_batch", "sample") and self._stack and self._stack[-1] == f.qualname and name != f.self_name:
                    # a helper that passes an array parameter on (possibly after substituting Grid rows into it): Grid iff the argument is
                    self._assumes.setdefault(f.qualname, set()).add(name)
                    continue
                return False, f"`{name}` may be the raw parameter / undefined"
            if kind == "assign":
                v = a.value  # type: ignore[union-attr]
                tgt = a.targets[0] if isinstance(a, ast.Assign) else a.target  # type: ignore[union-attr]
                if isinstance(tgt, (ast.Tuple, ast.List)):
                    return False, f"`{name}` comes from tuple unpacking"
                if _is_fresh_alloc(v):
                    # an allocated array is Grid only if all its columns are filled from the grid (uniform sampler idiom)
                    uniform_cols = uniform_cols if uniform_cols is not None else self._uniform_columns(f, name)
                    if not uniform_cols[0]:
                        return False, uniform_cols[1]
                    continue
                ok, why = self.expr_is_grid(f, v, a, depth + 1)
                if not ok:
                    return False, why
            elif kind == "sub":
                tgt = a.targets[0] if isinstance(a, ast.Assign) else a.target  # type: ignore[union-attr]
                v = a.value  # type: ignore[union-attr]
                if self._is_uniform_column_store(f, name, a)[0]:
                    continue
                ok, why = self.expr_is_grid(f, v, a, depth + 1)
                if not ok:
                    return False, f"`{src(a)[:70]}` stores a non-Grid value into `{name}`: {why}"
            elif kind in ("aug", "augsub", "del"):
                return False, f"`{src(a)[:70]}` modifies `{name}` arithmetically after it was built"
            elif kind == "for":
                it = a.iter  # type: ignore[union-attr]
                ok, why = self.expr_is_grid(f, it, a, depth + 1)
                if not ok:
                    return False, why
            else:
                return False, f"`{name}` defined by {kind}"
        # rows of `name` mutated through a loop variable (`for row in name: row[i] += ...`)
        for s in walk_scope(f.node):
            if isinstance(s, ast.For) and isinstance(s.iter, ast.Name) and s.iter.id == name and isinstance(s.target, ast.Name):
                row = s.target.id
                for x in ast.walk(s):
                    if isinstance(x, (ast.AugAssign, ast.Assign)):
                        tg = x.target if isinstance(x, ast.AugAssign) else x.targets[0]
                        if isinstance(tg, ast.Subscript) and isinstance(tg.value, ast.Name) and tg.value.id == row:
                            # only matters if this loop can run between the definition and the use
                            ln = g.nodes_of(s)
                            if ln and g.path_avoiding(ln[0], {at_nodes[0]}, set()) is not None and all(g.path_avoiding(n, {ln[0]}, set()) is not None for n, k, _ in evs if k == "assign"):
                                return False, f"rows of `{name}` are modified in place through `{row}` (`{src(x)[:60]}`)"
        return True, "all reaching definitions Grid"

    def _is_uniform_column_store(self, f: FuncInfo, name: str, a: ast.AST) -> tuple[bool, str]:
        """`name[:, i] = <gen>.choice(col, size=...)` inside `for i, col in enumerate(<ss>.param_grid)`."""
        if not isinstance(a, ast.Assign) or not isinstance(a.targets[0], ast.Subscript):
            return False, "not a column store"
        t = a.targets[0]
        loop = None
        cur = getattr(a, "_parent", None)
        while cur is not None and cur is not f.node:
            if isinstance(cur, ast.For):
                loop = cur
                break
            cur = getattr(cur, "_parent", None)
        if loop is None:
            return False, "column store outside a loop"
        ss = self.search_space_params(f)
        # the header is read canonically: whatever names it binds are expressed through the induction symbol _I_ (range / enumerate / zip / index forms alike)
        from ..util import IDX, _substitute, kwarg as _kw, loop_binding
        try:
            benv, counts = loop_binding(loop.target, loop.iter)
        except AnalysisError:
            return False, "column loop header cannot be read"

        def strip(e: ast.expr) -> ast.expr:
            while isinstance(e, ast.Call) and isinstance(e.func, ast.Name) and e.func.id in ("tuple", "list") and len(e.args) == 1 and not e.keywords:
                e = e.args[0]
            return e

        def canon_txt(e: ast.expr) -> str:
            e2 = e
            for nm, ve in benv.items():
                e2 = _substitute(e2, nm, ve)
            # tuple(G)[i] / list(G)[i] is G[i]
            class S(ast.NodeTransformer):
                def visit_Subscript(self, node):  # noqa: N802
                    self.generic_visit(node)
                    node.value = strip(node.value)
                    return node
            import copy as _copy
            e2 = S().visit(_copy.deepcopy(e2))
            return ast.unparse(e2).replace(" ", "")
        grid_of = None
        for s_ in ss:
            if any(canon_txt(c_) in (f"len({s_}.param_grid)", f"{s_}.dims", f"len(tuple({s_}.param_grid))", f"len(list({s_}.param_grid))") for c_ in counts):
                grid_of = s_
        if grid_of is None:
            return False, "column loop does not run over the whole param_grid of the search space"
        tslice = canon_txt(t.slice)
        if tslice not in (f"(slice(None,None,None),{IDX})", f"(:,{IDX})", f":,{IDX}", f"(:,{IDX}+0)"):
            # ast.unparse of a tuple slice prints `:, i`
            if ast.unparse(t.slice).replace(" ", "") not in {f":,{nm}" for nm, ve in benv.items() if ast.unparse(ve) == IDX}:
                return False, f"column store target `{src(t)}` is not the column of the loop index"
        v = a.value
        first = (v.args[0] if v.args else _kw(v, "a")) if isinstance(v, ast.Call) else None
        if not (isinstance(v, ast.Call) and isinstance(v.func, ast.Attribute) and v.func.attr == "choice" and first is not None
                and canon_txt(first) == f"{grid_of}.param_grid[{IDX}]"):
            return False, f"column is filled with `{src(v)[:60]}`, not with draws from its own grid column"
        if any(isinstance(x, (ast.If, ast.Break, ast.Continue)) for x in ast.walk(loop)):
            return False, "column loop can skip columns"
        return True, "uniform column"

    def _uniform_column_list(self, f: FuncInfo, cols: ast.expr) -> tuple[bool | None, str]:
        """`[<gen>.choice(col, size=...) for col in <ss>.param_grid]` (any header that binds col to param_grid[_I_] over the whole grid): one column per grid column,
        in grid order.  (None, ..): not that shape."""
        if not (isinstance(cols, ast.ListComp) and len(cols.generators) == 1 and not cols.generators[0].ifs):
            return None, ""
        from ..util import IDX, _substitute, kwarg as _kw, loop_binding
        gen = cols.generators[0]
        try:
            benv, counts = loop_binding(gen.target, gen.iter)
        except AnalysisError:
            return None, ""

        def canon_txt(e_: ast.expr) -> str:
            for nm, ve in benv.items():
                e_ = _substitute(e_, nm, ve)
            return ast.unparse(e_).replace(" ", "")
        grid_of = None
        for s_ in self.search_space_params(f):
            if any(canon_txt(c_) in (f"len({s_}.param_grid)", f"{s_}.dims") for c_ in counts):
                grid_of = s_
        v = cols.elt
        first = (v.args[0] if v.args else _kw(v, "a")) if isinstance(v, ast.Call) else None
        if grid_of is None or not (isinstance(v, ast.Call) and isinstance(v.func, ast.Attribute) and v.func.attr == "choice" and first is not None
                                   and canon_txt(first) == f"{grid_of}.param_grid[{IDX}]"):
            return None, ""
        return True, "one column drawn from each grid column, in grid order"

    def _uniform_columns(self, f: FuncInfo, name: str) -> tuple[bool, str]:
        stores = [s for s in walk_scope(f.node) if isinstance(s, ast.Assign) and isinstance(s.targets[0], ast.Subscript)
                  and isinstance(s.targets[0].value, ast.Name) and s.targets[0].value.id == name]
        if not stores:
            return False, f"`{name}` is a freshly allocated array that is never filled from the grid"
        for s in stores:
            ok, why = self._is_uniform_column_store(f, name, s)
            if not ok:
                return False, why
        return True, "all columns drawn from the grid"


def _is_fresh_alloc(v: ast.expr) -> bool:
    return isinstance(v, ast.Call) and (dotted(v.func) or "").split(".")[-1] in ("zeros", "empty", "ones", "full", "zeros_like", "empty_like")


def run(ctx: Context) -> None:
    base = ctx.prog.find_class("BaseSampler")
    ctx.rule(r1_grid, base)
    # R2: snap soundness
    ctx.rule(c17.r1_r3_get_closest)
    ctx.rule(c17.r2_digitize)
    # the snapped value must also *stay* a grid element when it is stored: an output buffer of the input's dtype truncates it (integer history rows)
    ctx.rule(c17.dtype_rule)
    # R3: row-count plumbing
    ctx.rule(r3_rows, base)
    # a batch has batch_size rows: the low-discrepancy generator is asked for, and returns, exactly that many points (cursor rule of C13)
    from . import c13 as _c13
    ctx.rule(_c13.halton_cursor)
    # surrogates return the first batch_size rows of a pool of candidate_pool_size rows: the pool must not be thinned before the prefix is taken
    ctx.rule(c16.r2_surrogate)
    # the grid itself stays inside the declared bounds up to the documented 1e-7 end-point tolerance (which C03 takes as given)
    ctx.rule(grid_within_bounds)
    # the vector that is recorded is the vector that was proposed: between sample() and the history the batch is handed to the user's model, which
    # must receive a private copy (alias analysis shared with C02-R7, restricted to the proposed batch)
    from . import c02
    ctx.rule(c02.r7_lent_arrays, ("batch.params",))
    ctx.rule(c17.identity_keyed_cache)
    # the space the user declared is the space the samplers see: bounds / precision are private copies (C04-R10)
    from . import c04
    ctx.rule(c04.r10_derived_sources_private)
    ctx.rule(declared_space_reaches_search_space)


def r1_grid(ctx: Context, base: ClassInfo) -> None:
    prog = ctx.prog
    rule = GridRule(ctx)
    n_ret = 0
    n_bodies = 0
    for c in prog.subclasses(base):
        m = c.methods.get("sample_batch")
        if m is None or "abstractmethod" in m.decorators:
            continue
        ctx.analysed(m)
        n_bodies += 1
        for r in returns_of(m):
            n_ret += 1
            ok, why = rule.expr_is_grid(m, r.value, r)
            key = f"{c.name}.sample_batch:return:{' '.join(src(r.value).split())[:80]}"
            ctx.check(ok, "R1.grid", key, f"{c.name}.sample_batch returns a value snapped onto the search space's grid ({why})",
                      f"{c.name}.sample_batch returns `{src(r.value)[:80]}` which is not on the declared grid: {why}", m, r)
            ctx.sample({"sampler": c.name, "return": src(r.value)[:80], "grid": ok, "why": why})
    ctx.floor("R1", "concrete sample_batch bodies", n_bodies, 7)
    ctx.floor("R1", "return statements of concrete sample_batch bodies", n_ret, 7)
    # BaseSampler.sample: Grid preserved through the deduplication substitution
    samp = ctx.func(f"{BASE}.sample")
    for r in returns_of(samp):
        ok, why = rule.expr_is_grid(samp, r.value, r)
        ctx.check(ok, "R1.grid", "BaseSampler.sample:return", f"BaseSampler.sample returns Grid ({why})",
                  f"BaseSampler.sample returns a value that is not on the grid: {why}", samp, r)
    for sub in prog.subclasses(base, strict=True):
        if "sample" in sub.methods:
            m = sub.methods["sample"]
            for r in returns_of(m):
                ok, why = rule.expr_is_grid(m, r.value, r)
                ctx.check(ok, "R1.grid", f"{sub.name}.sample:return", f"{sub.name}.sample (override) returns Grid",
                          f"{sub.name}.sample overrides sample() and returns a non-Grid value: {why}", m, r)


def _passes_zero_dedup(prog, c: ClassInfo) -> bool:
    init = c.methods.get("__init__")
    if init is None:
        return False
    for call in calls_in(init.node):
        if isinstance(call.func, ast.Attribute) and call.func.attr == "__init__":
            v = kwarg(call, "max_deduplication_passes", 2)
            if isinstance(v, ast.Constant) and v.value == 0 and "max_deduplication_passes" not in init.params:
                return True
    return False


def r3_rows(ctx: Context, base: ClassInfo) -> None:
    prog = ctx.prog
    for c in prog.subclasses(base):
        m = c.methods.get("sample_batch")
        if m is None or "abstractmethod" in m.decorators:
            continue
        if "batch_size" not in m.params:
            raise AnalysisError(f"anchor vanished: batch_size parameter of {m.qualname}")
        uses = False
        for r in returns_of(m):
            leaves = _leaves_through_calls(prog, m, r.value, 0)
            uses = uses or "param:batch_size" in leaves
        never_redraws = any(_passes_zero_dedup(prog, k) for k in prog.mro(c) if k is not base)
        ctx.check(uses or never_redraws, "R3.rows", f"{c.name}.sample_batch:batch_size-reaches-result",
                  f"{c.name}: the batch_size argument determines the returned rows" + (" (or the class never redraws: max_deduplication_passes=0)" if never_redraws and not uses else ""),
                  f"{c.name}.sample_batch ignores its batch_size argument although sample() may ask it for a different number of rows (redraws)", m, m.node)
    # uniform sampler: rows x dims allocation
    ru = ctx.func("black_it.samplers.random_uniform:RandomUniformSampler.sample_batch")
    allocs = [s.value for s in walk_scope(ru.node) if isinstance(s, (ast.Assign, ast.AnnAssign)) and s.value is not None and _is_fresh_alloc(s.value)]
    if not allocs:
        # no preallocated array: the batch is assembled from per-column draws - each `choice(col, size=(batch_size,))` / `size=batch_size`, one per grid column (R1 reads which)
        draws = [c_ for c_ in calls_in(ru.node) if isinstance(c_.func, ast.Attribute) and c_.func.attr == "choice"]
        sizes = {src(kwarg(c_, "size", 1)).replace(" ", "") if kwarg(c_, "size", 1) is not None else "?" for c_ in draws}
        if draws and sizes <= {"(batch_size,)", "batch_size"}:
            ctx.ok("R3.shape", "RandomUniformSampler.sample_batch:alloc", "every grid column contributes batch_size draws")
            allocs = None
        else:
            raise AnalysisError(f"{ru.loc(ru.node)}: the uniform batch is neither preallocated nor assembled from per-column draws of batch_size values; its shape cannot be read")
    ok = allocs is None or src(allocs[0].args[0] if allocs[0].args else kwarg(allocs[0], "shape")) in ("(batch_size, search_space.dims)", "(batch_size, len(search_space.param_grid))")
    ctx.check(ok, "R3.shape", "RandomUniformSampler.sample_batch:alloc", "the uniform batch is allocated as (batch_size, dims)",
              f"uniform batch allocated as `{src(allocs[0]) if allocs else '?'}`", ru, allocs[0] if allocs else ru.node)


def _leaves_through_calls(prog, f: FuncInfo, e: ast.expr, depth: int) -> set[str]:
    """Dependence leaves of e; parameters of resolved `self.*` helpers are mapped back to the actual arguments."""
    out = dep_leaves(prog, f, e)
    if depth >= 2:
        return out
    # attribute state written by helpers that received batch_size does not count: only direct data flow
    return out


def grid_within_bounds(ctx: Context) -> None:
    before = len(ctx.findings)
    n_obl = len(ctx.obligations)
    c15.r3_grid(ctx)
    # the absolute 1e-7 tolerance is part of C03's statement: only a larger / step-proportional overshoot is a C03 violation
    keep = []
    for f in ctx.findings[before:]:
        if f.key.endswith("arange-stop-slack:absolute-constant"):
            continue
        keep.append(f)
    ctx.findings[before:] = keep
    ctx.obligations[n_obl:] = [o for o in ctx.obligations[n_obl:] if not (o["verdict"] == "violated" and o["key"].endswith("arange-stop-slack:absolute-constant"))]


def declared_space_reaches_search_space(ctx: Context) -> None:
    """`the space the user declared`: Calibrator.__init__ builds its SearchSpace from the bounds and precision it was given, passed on as they are."""
    init = ctx.func("black_it.calibrator:Calibrator.__init__")
    calls = [c for c in calls_in(init.node, scope_only=False) if (dotted(c.func) or "").split(".")[-1] == "SearchSpace"]
    ctx.floor("R4", "SearchSpace(...) construction in Calibrator.__init__", len(calls), 1)
    c = calls[0]
    from ..util import kwarg
    for pos, prm in ((0, "parameters_bounds"), (1, "parameters_precision")):
        a = kwarg(c, prm, pos)
        reb = [x for x in ast.walk(init.node) if isinstance(x, ast.Name) and x.id == prm and isinstance(x.ctx, ast.Store)]
        ok = isinstance(a, ast.Name) and a.id == prm and prm in init.params and not reb
        ctx.check(ok, "R4.declared-space", f"Calibrator.__init__:SearchSpace:{prm}", f"the search space is built from the caller's `{prm}` itself",
                  f"SearchSpace receives `{src(a)[:60] if a is not None else '?'}` for {prm}: the grid the samplers use is built from a transformed copy of what the user declared", init, c)
