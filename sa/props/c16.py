"""C16 - history-driven samplers use the history faithfully and never modify it.

R1 no in-place write through an alias of existing_points / existing_losses (all samplers,
interprocedural), R2 surrogate pipeline normal form, R3 best-batch parents / shock ranges.
"""
from __future__ import annotations

import ast

from ..alias import AliasAnalysis
from ..cfg import CFG
from ..errors import AnalysisError
from ..model import FuncInfo, dotted, src, walk_scope
from ..report import Context
from ..util import calls_in, kwarg, node_for, normaliser, parse_expr, returns_of

LEVEL_TEXT = (
    "Static analysis (no execution): (R1) an interprocedural, flow-sensitive alias analysis seeds the roles "
    "history.points / history.losses at every sample()/sample_batch() of the sampler hierarchy, follows numpy views, "
    "resolved calls, returned aliases and self-attribute stores, and reports any in-place write (subscript store, "
    "augmented assignment, in-place method, out=/copy=False, attribute store) through a value that still aliases the "
    "history - for all inputs and paths; third-party callees that receive an alias are listed and assumed pure. "
    "(R2) the surrogate's returned value is normalised and must equal snap(pool[argsort(predict(pool))][:batch_size]) "
    "with fit(existing_points, existing_losses) dominating predict. (R3) best-batch parents, shock count/size/sign "
    "intervals and the shift formula are checked by normal form and interval folding of the integer draws. "
    "Which candidates minimise a particular surrogate, and argmin ties, are runtime values and not decided."
    " The substitution rules of the BaseSampler.sample wrapper (C12) are included: what replaces a duplicate comes from the sampler's own sample_batch, never from another distribution."
    " The grid constructor rule (consecutive grid values differ by the precision; C15-R3 without the 1e-7 end-point clause) is included: 'displaced by k precision steps' presupposes it."
    " (R2b) the labels that reach the float32 XGBoost regressor pass through the sampler's own clipping (reaching definition in fit). R3 composes the updates of row[index] along every path of the shocked-coordinate loop (augmented and plain stores, locals, if/else, enumerate positions, min/max confinement) and compares the displacement and the clip bounds as normal forms."
)
TECHNIQUE = "interprocedural flow-sensitive alias/mutation analysis + formula normal form + interval folding"

SAMPLER_BASE = "BaseSampler"


def sampler_seeds(ctx: Context) -> dict[tuple[str, str], set[str]]:
    prog = ctx.prog
    base = prog.find_class(SAMPLER_BASE)
    seeds: dict[tuple[str, str], set[str]] = {}
    n_batches = 0
    for c in prog.subclasses(base):
        for name in ("sample", "sample_batch"):
            m = c.methods.get(name)
            if m is None:
                continue
            if name == "sample_batch" and "abstractmethod" not in m.decorators:
                n_batches += 1
            for p, role in (("existing_points", "history.points"), ("existing_losses", "history.losses")):
                if p in m.params:
                    seeds[(m.qualname, p)] = {role}
                else:
                    raise AnalysisError(f"anchor vanished: parameter {p} of {m.qualname}")
    ctx.floor("R1", "concrete sample_batch bodies", n_batches, 7)
    return seeds


def run(ctx: Context) -> None:
    ctx.rule(r1_no_mutation)
    ctx.rule(r2_surrogate)
    ctx.rule(r2b_xgboost_labels)
    ctx.rule(r3_best_batch)
    # what the calibrator receives is what sample_batch proposed: the wrapper BaseSampler.sample only ever replaces repeated rows by further rows drawn
    # by the same sample_batch (shared with C12) - anything else slipped into the batch is neither a pool candidate nor a displaced best point
    from . import c12
    ctx.rule(c12.sample_rules)
    # "displaced by between 1 and perturbation_range-1 precision steps": the shocks are multiples of the precision, and the result is a lattice point
    # `steps` away only if consecutive grid values differ by exactly the precision (grid constructor rule of C15)
    from . import c03
    ctx.rule(c03.grid_within_bounds)


def r1_no_mutation(ctx: Context) -> None:
    seeds = sampler_seeds(ctx)
    aa = AliasAnalysis(ctx.prog, seeds).run()
    for q in sorted(aa.analysed):
        ctx.functions.add(q)
    for (role, q, text), fd in sorted(aa.findings.items()):
        ctx.fail("R1.no-mutation", f"{q.split(':')[1]}:{role}:{text}",
                 f"{fd.what} writes into the caller's {role} array", fd.func, fd.node, fd.chain)
    if not aa.findings:
        ctx.ok("R1.no-mutation", "samplers:history-aliases", f"no in-place write through an alias of the history in {len(aa.analysed)} functions reached")
    tagged = sorted(f"{q}({p})" for (q, p), v in aa.param_tags.items() if v)
    ctx.floor("R1", "functions receiving a history alias", len(tagged), 20)
    ctx.tables["C16.R1.alias_flow"] = {
        "parameters_carrying_history_aliases": tagged,
        "attributes_carrying_history_aliases": sorted(f"{c}.{a}" for (c, a), v in aa.attr_tags.items() if v),
        "third_party_callees_receiving_an_alias (assumed pure)": {k: sorted(v) for k, v in sorted(aa.external_receivers.items())},
        "rounds": aa.rounds,
    }
    for k in sorted(aa.external_receivers):
        ctx.assume(f"third-party callee {k} does not modify the history alias it receives")
    ctx.sample({"history alias reaches": tagged[:6]})
    # one obligation per sampler class, for the record
    base = ctx.prog.find_class(SAMPLER_BASE)
    for c in ctx.prog.subclasses(base):
        m = c.methods.get("sample_batch")
        if m is None or "abstractmethod" in m.decorators:
            continue
        bad = [k for k in aa.findings if k[1].startswith(m.qualname.rsplit(".", 1)[0])]
        if not bad:
            ctx.ok("R1.per-sampler", f"{c.name}.sample_batch", f"{c.name}: history arrays reach no in-place write")


# ---------------------------------------------------------------------------------------------- R2
def r2_surrogate(ctx: Context) -> None:
    prog = ctx.prog
    sb = ctx.func("black_it.samplers.surrogate:MLSurrogateSampler.sample_batch")
    n = normaliser(prog, sb)
    rets = returns_of(sb)
    ctx.floor("R2", "return in MLSurrogateSampler.sample_batch", len(rets), 1)
    pool = "self.sample_candidates(self.candidate_pool_size, search_space, existing_points, existing_losses)"
    forms = [
        f"digitize_data({pool}[np.argsort(self.predict({pool}))][:batch_size], search_space.param_grid)",
        f"digitize_data({pool}[np.argsort(self.predict({pool}))[:batch_size]], search_space.param_grid)",
        f"digitize_data({pool}[np.argsort(self.predict({pool}))][:batch_size, :], search_space.param_grid)",
        f"digitize_data({pool}[np.argsort(self.predict({pool}))[0:batch_size]], search_space.param_grid)",
        f"digitize_data({pool}[np.argsort(self.predict({pool}))][0:batch_size], search_space.param_grid)",
    ]
    wants = {str(n.rat(parse_expr(t))) for t in forms}
    for r in rets:
        got = str(n.rat(r.value)) if r.value is not None else "None"
        ctx.check(got in wants, "R2.pipeline", "MLSurrogateSampler.sample_batch:return",
                  "returns snap(pool[argsort(predict(pool))][:batch_size]) with one pool drawn by sample_candidates",
                  f"surrogate batch is `{_short(got)}` - not the batch_size pool candidates with the lowest predictions", sb, r)
    # pool is drawn once (a second draw would make predictions and selected rows refer to different pools)
    pools = [c for c in calls_in(sb.node) if isinstance(c.func, ast.Attribute) and c.func.attr == "sample_candidates"]
    ctx.check(len(pools) == 1, "R2.one-pool", "MLSurrogateSampler.sample_batch:sample_candidates-count",
              "the candidate pool is drawn exactly once", f"sample_candidates is called {len(pools)} times", sb, sb.node)
    # fit receives the two history parameters themselves and dominates predict
    fits = [c for c in calls_in(sb.node) if isinstance(c.func, ast.Attribute) and c.func.attr == "fit" and isinstance(c.func.value, ast.Name) and c.func.value.id == sb.self_name]
    preds = [c for c in calls_in(sb.node) if isinstance(c.func, ast.Attribute) and c.func.attr == "predict" and isinstance(c.func.value, ast.Name) and c.func.value.id == sb.self_name]
    ctx.floor("R2", "self.fit call in sample_batch", len(fits), 1)
    ctx.floor("R2", "self.predict call in sample_batch", len(preds), 1)
    rebound = {t.id for s in walk_scope(sb.node) if isinstance(s, (ast.Assign, ast.AugAssign, ast.AnnAssign))
               for t in ast.walk(s.targets[0] if isinstance(s, ast.Assign) else s.target) if isinstance(t, ast.Name)} & {"existing_points", "existing_losses"}
    for c in fits:
        args = [src(a) for a in c.args] + [f"{k.arg}={src(k.value)}" for k in c.keywords]
        ok = args in (["existing_points", "existing_losses"], ["X=existing_points", "y=existing_losses"], ["existing_points", "y=existing_losses"]) and not rebound
        ctx.check(ok, "R2.fit-args", "MLSurrogateSampler.sample_batch:fit-args", "fit(existing_points, existing_losses) - the given history, whole and unmodified",
                  f"the surrogate is trained on {args}{' (parameter rebound: ' + str(sorted(rebound)) + ')' if rebound else ''}", sb, c)
    g = CFG(sb.node)
    for p in preds:
        for pn in node_for(g, p):
            fit_nodes = {x for c in fits for x in node_for(g, c)}
            path = g.path_avoiding(g.entry, {pn}, fit_nodes)
            ctx.check(path is None, "R2.fit-before-predict", "MLSurrogateSampler.sample_batch:fit-dominates-predict",
                      "fit() runs on every path before predict()", "predict() can run without a preceding fit() on the current history", sb, p)
    # sample_candidates: pool of exactly pool_size rows from a uniform sampler (seed: C01)
    sc = ctx.func("black_it.samplers.surrogate:MLSurrogateSampler.sample_candidates")
    ns = normaliser(prog, sc)
    for r in returns_of(sc):
        got = str(ns.rat(r.value))
        ok = "sample_batch" in got and "candidate_pool_size,search_space,existing_points,existing_losses" in got.replace(" ", "")
        ctx.check(ok, "R2.pool", "MLSurrogateSampler.sample_candidates:return", "the pool is candidate_pool_size rows drawn over the search space",
                  f"pool is `{_short(got)}`", sc, r)
    # concrete surrogates: fit trains on its (X, y) parameters, predict predicts on its X
    base = prog.find_class("MLSurrogateSampler")
    for c in prog.subclasses(base, strict=True):
        fit = c.methods.get("fit")
        pred = c.methods.get("predict")
        if fit is None or pred is None:
            continue
        ctx.analysed(fit)
        ctx.analysed(pred)
        est_fits = [k for k in calls_in(fit.node) if isinstance(k.func, ast.Attribute) and k.func.attr == "fit" and not (isinstance(k.func.value, ast.Name) and k.func.value.id == fit.self_name and False)]
        ok = False
        for k in est_fits:
            if k.args:
                x_ok = _derives_from(fit, k.args[0], "X")
                y_ok = len(k.args) > 1 and _derives_from(fit, k.args[1], "y")
                ok = ok or (x_ok and y_ok)
        ctx.check(ok, "R2.estimator-fit", f"{c.name}.fit:estimator", f"{c.name}.fit trains its estimator on (X, y) derived from its own arguments",
                  f"{c.name}.fit does not train the estimator on its (X, y) arguments", fit, fit.node)
        est_pred = [k for k in calls_in(pred.node, scope_only=True) if isinstance(k.func, ast.Attribute) and k.func.attr in ("predict", "_predict_mean_std", "_predict_EI")]
        okp = any(k.args and _derives_from(pred, k.args[0], "X") for k in est_pred)
        ctx.check(okp, "R2.estimator-predict", f"{c.name}.predict:estimator", f"{c.name}.predict evaluates the estimator on its X argument",
                  f"{c.name}.predict does not evaluate the estimator on its X argument", pred, pred.node)


def r2b_xgboost_labels(ctx: Context) -> None:
    """XGBoost works in float32: the labels its regressor is trained on are the given losses *after* the sampler's own float32 clipping (`_clip_losses`), on every
    history including float32-overflowing losses.  Decided on the definition that reaches the second argument of the regressor's fit(): a `_clip_losses(..y..)` call
    holds, the untouched parameter `y` (or a plain copy of it) fails, anything else is not read."""
    prog = ctx.prog
    fit = ctx.func("black_it.samplers.xgboost:XGBoostSampler.fit")
    ctx.analysed(fit)
    est = [k for k in calls_in(fit.node) if isinstance(k.func, ast.Attribute) and k.func.attr == "fit" and not (isinstance(k.func.value, ast.Name) and k.func.value.id == "super")]
    ctx.floor("R2b", "estimator fit call in XGBoostSampler.fit", len(est), 1)
    body = [s for s in walk_scope(fit.node) if isinstance(s, ast.stmt)]
    if any(isinstance(s, (ast.If, ast.For, ast.While, ast.Try, ast.Match)) for s in body):
        raise AnalysisError(f"{fit.loc(fit.node)}: XGBoostSampler.fit is no longer straight-line code; the definition reaching the labels cannot be read off by position")

    def reaching(name: str, before: int) -> ast.expr | None:
        last = None
        for s in body:
            if getattr(s, "lineno", 0) >= before:
                continue
            if isinstance(s, ast.Assign) and any(isinstance(t, ast.Name) and t.id == name for t in s.targets):
                if last is None or s.lineno > last.lineno:
                    last = s
            elif isinstance(s, (ast.AugAssign, ast.AnnAssign)) and isinstance(s.target, ast.Name) and s.target.id == name:
                if isinstance(s, ast.AugAssign) or s.value is None:
                    raise AnalysisError(f"{fit.loc(s)}: `{src(s)[:60]}` on the way to the labels")
                if last is None or s.lineno > last.lineno:
                    last = s
        return last.value if last is not None else None

    def verdict(e: ast.expr, at: int, depth: int = 0) -> bool:
        if depth > 6:
            raise AnalysisError(f"{fit.loc(fit.node)}: label definition chain too long")
        if isinstance(e, ast.Call) and (dotted(e.func) or "").split(".")[-1] == "_clip_losses":
            a = e.args[0] if e.args else next((k.value for k in e.keywords), None)
            if a is not None and _derives_from(fit, a, "y"):
                return True
            raise AnalysisError(f"{fit.loc(e)}: cannot read what `{src(e)[:60]}` clips")
        if isinstance(e, ast.Call) and (dotted(e.func) or "").split(".")[-1] in ("copy", "asarray", "array", "ascontiguousarray", "cast") and e.args:
            return verdict(e.args[-1] if (dotted(e.func) or "").split(".")[-1] == "cast" else e.args[0], at, depth + 1)
        if isinstance(e, ast.Name):
            d = reaching(e.id, at)
            if d is None:
                if e.id == "y":
                    return False
                raise AnalysisError(f"{fit.loc(e)}: `{e.id}` reaches the regressor's labels but has no definition in fit")
            return verdict(d, getattr(d, "lineno", at), depth + 1)
        raise AnalysisError(f"{fit.loc(e)}: cannot read the labels `{src(e)[:60]}` given to the XGBoost regressor")
    for k in est:
        lab = k.args[1] if len(k.args) > 1 else next((kw.value for kw in k.keywords if kw.arg == "y"), None)
        if lab is None:
            raise AnalysisError(f"{fit.loc(k)}: no label argument in `{src(k)[:60]}`")
        ctx.check(verdict(lab, k.lineno), "R2b.xgboost-labels", "XGBoostSampler.fit:labels", "the regressor's labels are the losses after the float32 clipping",
                  f"`{src(k)[:70]}` trains the float32 regressor on the unclipped losses: a float32-overflowing loss in the history reaches XGBoost as it is", fit, k)


def _derives_from(f: FuncInfo, e: ast.expr, param: str, depth: int = 0) -> bool:
    """Every data leaf of `e` that is a parameter/local traces back to `param` (and it does reach it)."""
    names = [n.id for n in ast.walk(e) if isinstance(n, ast.Name) and isinstance(n.ctx, ast.Load)]
    if param in names:
        return True
    if depth > 4:
        return False
    for nm in names:
        for s in walk_scope(f.node):
            vals = []
            if isinstance(s, ast.Assign):
                for t in s.targets:
                    if any(isinstance(x, ast.Name) and x.id == nm for x in ast.walk(t)):
                        vals.append(s.value)
            for v in vals:
                if _derives_from(f, v, param, depth + 1):
                    return True
    return False


def _short(s: str) -> str:
    return s if len(s) < 220 else s[:220] + "..."


# ---------------------------------------------------------------------------------------------- R3
def r3_best_batch(ctx: Context) -> None:
    prog = ctx.prog
    sb = ctx.func("black_it.samplers.best_batch:BestBatchSampler.sample_batch")
    n = normaliser(prog, sb)
    env = n.env
    # parents
    want_parents = {str(n.rat(parse_expr(t))) for t in (
        "existing_points[np.argsort(existing_losses)][:batch_size, :]",
        "existing_points[np.argsort(existing_losses)][:batch_size]",
        "existing_points[np.argsort(existing_losses)[:batch_size]]",
        "existing_points[np.argsort(existing_losses)[:batch_size], :]",
    )}
    copies = [c for c in calls_in(sb.node) if ((dotted(c.func) or "").endswith("copy") or ((dotted(c.func) or "") in ("np.array", "numpy.array") and not any(
        k.arg == "copy" and isinstance(k.value, ast.Constant) and k.value.value in (False, None) for k in c.keywords))) and c.args]
    parent_ok = False
    idx_expr = None
    for c in copies:
        a = c.args[0]
        if isinstance(a, ast.Subscript):
            base = str(n.rat(a.value))
            if base in want_parents:
                parent_ok = True
                idx_expr = a.slice
    if not parent_ok:
        # also accept direct fancy indexing (already a copy)
        for s in walk_scope(sb.node):
            if isinstance(s, (ast.Assign, ast.AnnAssign)) and isinstance(s.value, ast.Subscript) and str(n.rat(s.value.value)) in want_parents:
                parent_ok = True
                idx_expr = s.value.slice
    ctx.check(parent_ok, "R3.parents", "BestBatchSampler.sample_batch:parents",
              "proposals start from rows of existing_points[argsort(existing_losses)][:batch_size] (the batch_size lowest-loss points)",
              "the perturbed points are not drawn from the batch_size lowest-loss rows of the history", sb, sb.node)
    if idx_expr is not None:
        ie = env.get(idx_expr.id, idx_expr) if isinstance(idx_expr, ast.Name) else idx_expr
        iv = _int_draw_interval(n, ie)
        ok = iv is not None and iv[0] == "0" and iv[1] == "batch_size"
        ctx.check(ok, "R3.parents", "BestBatchSampler.sample_batch:parent-index-range",
                  "parent indices are drawn in [0, batch_size)", f"parent indices are `{src(ie)}`", sb, ie)
    # shocks: everything is read off the two nested loops and the displacement statement, with locals inlined (names do not matter)
    rows = [s for s in walk_scope(sb.node) if isinstance(s, ast.For)]
    ctx.floor("R3", "loops in BestBatchSampler.sample_batch", len(rows), 2)
    inner = None
    outer = None
    for lp in rows:
        for sub in ast.walk(lp):
            if isinstance(sub, ast.For) and sub is not lp:
                outer, inner = lp, sub
    pos_var: str | None = None
    pos_seq: str | None = None
    if inner is not None and isinstance(inner.target, ast.Tuple) and len(inner.target.elts) == 2 and all(isinstance(x, ast.Name) for x in inner.target.elts) \
            and isinstance(inner.iter, ast.Call) and isinstance(inner.iter.func, ast.Name) and inner.iter.func.id == "enumerate" and len(inner.iter.args) == 1 and not inner.iter.keywords:
        # `for position, index in enumerate(X)`: index is X[position]; read as `for index in X`, with `X[position]` / `A[X][position]` / `np.take(A, X)[position]`
        # standing for `index` / `A[index]`
        pos_var, pos_seq = inner.target.elts[0].id, src(inner.iter.args[0])
        inner = _copy_loop_without_enumerate(inner)
    if inner is None or not isinstance(inner.target, ast.Name) or not isinstance(outer.target, ast.Name):
        raise AnalysisError(f"{sb.loc(sb.node)}: best-batch no longer has the row loop / shocked-coordinate loop structure; cannot decide R3")
    ix = inner.target.id
    # the rows being shocked: `for row in X`, or `for r in range(E): row = X[r]` with E the number of rows of X (the size of the parent-index draw)
    row = outer.target.id
    rows_ok, rows_msg = isinstance(outer.iter, ast.Name), f"outer loop iterates `{src(outer.iter)}`"
    if isinstance(outer.iter, ast.Call) and isinstance(outer.iter.func, ast.Name) and outer.iter.func.id == "range" and len(outer.iter.args) == 1 and not outer.iter.keywords:
        first = outer.body[0] if outer.body else None
        tg = first.targets[0] if isinstance(first, ast.Assign) and len(first.targets) == 1 else first.target if isinstance(first, ast.AnnAssign) else None
        val = getattr(first, "value", None)
        if isinstance(tg, ast.Name) and isinstance(val, ast.Subscript) and isinstance(val.value, ast.Name) and isinstance(val.slice, ast.Name) and val.slice.id == outer.target.id \
                and not any(isinstance(x, ast.Name) and x.id == outer.target.id for st_ in outer.body[1:] for x in ast.walk(st_)):
            size = None
            if idx_expr is not None:
                ie_ = env.get(idx_expr.id, idx_expr) if isinstance(idx_expr, ast.Name) else idx_expr
                size = kwarg(ie_, "size", 2) if isinstance(ie_, ast.Call) else None
            if size is None:
                raise AnalysisError(f"{sb.loc(outer)}: rows are visited by position over `{src(outer.iter)}`, and the number of rows of `{src(val.value)}` cannot be read")
            row = tg.id
            same = str(n.rat(outer.iter.args[0])) in (str(n.rat(size)), str(n.rat(parse_expr(f"({src(size)},)[0]"))))
            rows_ok, rows_msg = same, f"rows 0..{src(outer.iter.args[0])} of `{src(val.value)}` are shocked, which has {src(size)} rows"
        else:
            raise AnalysisError(f"{sb.loc(outer)}: cannot read which rows the loop over `{src(outer.iter)}` shocks")
    elif not isinstance(outer.iter, ast.Name):
        sl = outer.iter
        if not (isinstance(sl, ast.Subscript) and isinstance(sl.value, ast.Name)):
            raise AnalysisError(f"{sb.loc(outer)}: cannot read which rows the loop over `{src(outer.iter)}` shocks")
    # the shocked-coordinate loop must iterate a draw that can be read in place: a repository helper (e.g. a generator of shock records) that could not be
    # inlined hides which coordinates, signs and sizes are drawn - outside this rule's vocabulary
    for c_ in ast.walk(inner.iter):
        if isinstance(c_, ast.Call) and any(isinstance(t, FuncInfo) for t in prog.resolve_call(sb, c_)):
            raise AnalysisError(f"{sb.loc(inner)}: the shocked coordinates come from the repository helper `{src(c_.func)}`, which could not be read in place; cannot decide R3")
    # which coordinates are shocked: choice(dims, 1 + BetaBin(dims - 1), replace=False) -> between 1 and dims distinct coordinates
    it = n.rat(inner.iter)
    forms = set()
    for cnt in ("beta_binom_rv.rvs(size=1) + 1",):
        for ctor in ("betabinom(n=search_space.dims - 1, a=self.a, b=self.b)",):
            e1 = f"self.random_generator.choice(search_space.dims, tuple({ctor}.rvs(size=1) + 1), replace=False)"
            forms.add(str(n.rat(parse_expr(e1))))
    ctx.check(str(it) in forms, "R3.shock-count", "BestBatchSampler.sample_batch:shocked-coordinates",
              "between 1 and dims distinct coordinates are shocked: choice(dims, 1 + BetaBinom(dims-1, a, b).rvs, replace=False)",
              f"shocked coordinates are drawn as `{str(it)[:200]}`", sb, inner.iter)
    # the frozen distribution draws from the sampler's own generator (seed discipline, C01) - name independent
    rv_names = [s.targets[0].id for s in walk_scope(sb.node) if isinstance(s, ast.Assign) and isinstance(s.targets[0], ast.Name) and isinstance(s.value, ast.Call) and (dotted(s.value.func) or "").split(".")[-1] == "betabinom"]
    ok = bool(rv_names) and any(isinstance(s, ast.Assign) and src(s.targets[0]) == f"{rv_names[0]}.random_state" and src(s.value) == "self.random_generator" for s in walk_scope(sb.node))
    ctx.check(ok, "R3.shock-count", "BestBatchSampler.sample_batch:rv-generator", "the beta-binomial draws use the sampler's own generator", "the frozen rv does not use self.random_generator", sb, sb.node)
    # what happens to row[index] in one pass of the coordinate loop, composed statement by statement (locals inlined, names do not matter):
    #     row[index]  ->  clip(row[index] + precision[index] * (2*integers(0,2) - 1) * integers(1, perturbation_range), lower[index], upper[index])
    START = "row0__"
    import copy as _copy

    def subst(e: ast.expr, cur_: ast.expr, loc: dict[str, ast.expr]) -> ast.expr:
        class _S(ast.NodeTransformer):
            def visit_Subscript(self, node: ast.Subscript):  # noqa: N802
                if isinstance(node.ctx, ast.Load) and src(node.value) == row and src(node.slice) == ix:
                    return _copy.deepcopy(cur_)
                return self.generic_visit(node)

            def visit_Name(self, node: ast.Name):  # noqa: N802
                if isinstance(node.ctx, ast.Load) and node.id in loc:
                    return _copy.deepcopy(loc[node.id])
                return node
        out_ = _S().visit(_copy.deepcopy(e))
        if pos_var is not None:
            out_ = _Positional(pos_var, pos_seq, ix).visit(out_)
        out_ = _MinMaxClip().visit(out_)
        return ast.fix_missing_locations(out_)

    def compose(block: list[ast.stmt], states: list[tuple[ast.expr, dict[str, ast.expr]]]) -> list[tuple[ast.expr, dict[str, ast.expr]]]:
        for st_ in block:
            if isinstance(st_, ast.Pass) or (isinstance(st_, ast.Expr) and isinstance(st_.value, ast.Constant)):
                continue
            if isinstance(st_, ast.If):
                out = compose(st_.body, [(c_, dict(l_)) for c_, l_ in states]) + compose(st_.orelse, [(c_, dict(l_)) for c_, l_ in states])
                if len(out) > 16:
                    raise AnalysisError(f"{sb.loc(st_)}: more than 16 paths through the shocked-coordinate loop")
                states = out
                continue
            tgt = st_.target if isinstance(st_, (ast.AugAssign, ast.AnnAssign)) else st_.targets[0] if isinstance(st_, ast.Assign) and len(st_.targets) == 1 else None
            if isinstance(tgt, ast.Name) and isinstance(st_, (ast.Assign, ast.AnnAssign)) and st_.value is not None:
                states = [(c_, {**l_, tgt.id: subst(st_.value, c_, l_)}) for c_, l_ in states]
                continue
            if isinstance(tgt, ast.Name) and isinstance(st_, ast.AugAssign) and all(tgt.id in l_ for _, l_ in states):
                states = [(c_, {**l_, tgt.id: ast.BinOp(left=_copy.deepcopy(l_[tgt.id]), op=st_.op, right=subst(st_.value, c_, l_))}) for c_, l_ in states]
                continue
            if not (isinstance(tgt, ast.Subscript) and src(tgt.value) == row and src(tgt.slice) == ix):
                raise AnalysisError(f"{sb.loc(st_)}: `{src(st_)[:70]}` in the shocked-coordinate loop is not a local binding nor an update of `{row}[{ix}]`; cannot decide R3")
            if isinstance(st_, ast.AugAssign):
                if not isinstance(st_.op, (ast.Add, ast.Sub, ast.Mult, ast.Div)):
                    raise AnalysisError(f"{sb.loc(st_)}: cannot read the update `{src(st_)[:70]}`")
                states = [(ast.BinOp(left=c_, op=st_.op, right=subst(st_.value, c_, l_)), l_) for c_, l_ in states]
            else:
                states = [(subst(st_.value, c_, l_), l_) for c_, l_ in states]
        return states
    finals = compose(inner.body, [(ast.Name(id=START, ctx=ast.Load()), {})])
    lo_w, hi_w = f"search_space.parameters_bounds[0][{ix}]", f"search_space.parameters_bounds[1][{ix}]"
    shift_w = f"search_space.parameters_precision[{ix}] * ((self.random_generator.integers(0, 2) * 2) - 1) * self.random_generator.integers(1, self.perturbation_range)"
    for final, _loc in finals:
        final = ast.fix_missing_locations(final)
        is_clip = isinstance(final, ast.Call) and (dotted(final.func) or "").split(".")[-1] == "clip" and (dotted(final.func) or "").split(".")[0] in ("np", "numpy")
        if not is_clip:
            ctx.check(False, "R3.confine", "BestBatchSampler.sample_batch:clip", "the shocked coordinate is confined to [lower[index], upper[index]]",
                      f"the shocked coordinate ends as `{src(final)[:120]}`: not clipped to its own bounds", sb, inner)
            moved = final
        else:
            cargs = [kwarg(final, "a", 0), kwarg(final, "a_min", 1) or kwarg(final, "min", 1), kwarg(final, "a_max", 2) or kwarg(final, "max", 2)]
            if any(x is None for x in cargs) or len(final.args) + len(final.keywords) != 3:
                raise AnalysisError(f"{sb.loc(inner)}: cannot read the arguments of `{src(final)[:80]}`")
            ok_c = str(n.rat(cargs[1])) == str(n.rat(parse_expr(lo_w))) and str(n.rat(cargs[2])) == str(n.rat(parse_expr(hi_w)))
            ctx.check(ok_c, "R3.confine", "BestBatchSampler.sample_batch:clip", "the shocked coordinate is confined to [lower[index], upper[index]]",
                      f"the shocked coordinate is clipped to [`{src(cargs[1])}`, `{src(cargs[2])}`], not to its own bounds", sb, inner)
            moved = cargs[0]
        got = n.rat(moved) - n.rat(ast.Name(id=START, ctx=ast.Load()))
        txt = str(got)
        import re as _re
        if _re.search(r"[A-Za-z_][\w.]*\([^()]*" + START, txt):
            raise AnalysisError(f"{sb.loc(inner)}: the shocked coordinate becomes `{src(moved)[:120]}`: the old value sits inside a call the normal form does not open; cannot decide R3")
        want = n.rat(parse_expr(shift_w))
        ctx.check(not got.equals(n.rat(parse_expr("0"))), "R3.shift", "BestBatchSampler.sample_batch:one-displacement", "each shocked coordinate is displaced",
                  "the shocked coordinate is not displaced at all", sb, inner)
        ctx.check(got.equals(want), "R3.shift", "BestBatchSampler.sample_batch:shift",
                  "coordinate `index` moves by precision[index] * sign * size with sign = 2*integers(0,2)-1 in {-1,+1} and size = integers(1, perturbation_range) in 1..range-1",
                  f"on one path through the loop body the coordinate moves by `{txt[:260].replace(START, 'old')}`", sb, inner)
    ctx.check(rows_ok, "R3.parents", "BestBatchSampler.sample_batch:rows-shocked", "the shocked rows are the selected parents", rows_msg, sb, outer)


def _copy_loop_without_enumerate(lp: ast.For) -> ast.For:
    import copy
    new = copy.copy(lp)
    new.target = lp.target.elts[1]  # type: ignore[attr-defined]
    new.iter = lp.iter.args[0]  # type: ignore[attr-defined]
    return new


class _Positional(ast.NodeTransformer):
    """Inside `for p, i in enumerate(X)`: X[p] is i; for a 1-D A, A[X][p] and np.take(A, X)[p] are A[i]."""

    def __init__(self, p: str, seq: str | None, i: str) -> None:
        self.p, self.seq, self.i = p, seq, i

    def visit_Subscript(self, node: ast.Subscript):  # noqa: N802
        self.generic_visit(node)
        if isinstance(node.slice, ast.Name) and node.slice.id == self.p and isinstance(node.ctx, ast.Load):
            v = node.value
            if src(v) == self.seq:
                return ast.copy_location(ast.Name(id=self.i, ctx=ast.Load()), node)
            if isinstance(v, ast.Subscript) and src(v.slice) == self.seq:
                return ast.copy_location(ast.Subscript(value=v.value, slice=ast.Name(id=self.i, ctx=ast.Load()), ctx=ast.Load()), node)
            if isinstance(v, ast.Call) and (dotted(v.func) or "") in ("np.take", "numpy.take") and len(v.args) == 2 and not v.keywords and src(v.args[1]) == self.seq:
                return ast.copy_location(ast.Subscript(value=v.args[0], slice=ast.Name(id=self.i, ctx=ast.Load()), ctx=ast.Load()), node)
        return node


class _MinMaxClip(ast.NodeTransformer):
    """`min(max(v, lo), hi)` / `max(min(v, hi), lo)` confine v to [lo, hi] (lo <= hi: the bounds of a search space) - read as np.clip(v, lo, hi)."""

    def visit_Call(self, node: ast.Call):  # noqa: N802
        self.generic_visit(node)
        def two(c, nm):
            return isinstance(c, ast.Call) and isinstance(c.func, ast.Name) and c.func.id == nm and len(c.args) == 2 and not c.keywords
        out = None
        if two(node, "min") and two(node.args[0], "max"):
            out = (node.args[0].args[0], node.args[0].args[1], node.args[1])
        elif two(node, "max") and two(node.args[0], "min"):
            out = (node.args[0].args[0], node.args[1], node.args[0].args[1])
        if out is None:
            return node
        return ast.copy_location(ast.Call(func=ast.Attribute(value=ast.Name(id="np", ctx=ast.Load()), attr="clip", ctx=ast.Load()), args=list(out), keywords=[]), node)


def _int_draw_interval(n, e: ast.expr) -> tuple[str, str] | None:
    """(low, high) normal forms of `<generator>.integers(low, high, ...)` -> values in [low, high)."""
    if isinstance(e, ast.Call) and isinstance(e.func, ast.Attribute) and e.func.attr == "integers" and "random_generator" in src(e.func.value):
        lo = kwarg(e, "low", 0)
        hi = kwarg(e, "high", 1)
        if hi is None and lo is not None:
            lo, hi = ast.Constant(0), lo
        ep = kwarg(e, "endpoint")
        if lo is None or hi is None or (ep is not None and not (isinstance(ep, ast.Constant) and ep.value is False)):
            return None
        return str(n.rat(lo)), str(n.rat(hi))
    return None
