"""C04 - a checkpoint restores the calibrator state exactly (plumbing, tables, text path, picklability, exits)."""
from __future__ import annotations

import ast
import re

from ..calib import CalibrateView
from ..cfg import CFG
from ..errors import AnalysisError
from ..model import ClassInfo, FuncInfo, dotted, mangle, src, walk_scope
from ..persist import JP, Plumbing, _str_const
from ..poly import single_assignment_env
from ..report import Context
from ..util import calls_in, kwarg, node_for, path_text
from . import c14

LEVEL_TEXT = (
    "Static analysis of the checkpoint path (no execution): (R1) the five stages create_checkpoint arguments -> "
    "save parameters -> JSON keys / CSV columns / pickle files / HDF5 dataset -> elements of load's tuple -> restore's "
    "constructor arguments and attribute stores are extracted from the source and composed; the composition must be the "
    "identity on the persisted calibrator attributes, only value-preserving wrappers (tolist, asarray, to_numpy, per-"
    "column split + vstack.T, whole-dataset read) are allowed along a chain, and every attribute written by "
    "__init__/calibrate must be persisted or be in the tabled derived set; (R2) writer/reader tables agree (JSON keys, "
    "CSV columns, file names; SQLite DDL = INSERT = SELECT column lists, placeholders = bound values) and every file "
    "is written on every path through save; (R3) the float text path is exact: read_csv requests "
    "float_precision='round_trip' and passes no value-altering option, to_csv passes no float_format, HDF5 is float64, "
    "JSON arrays go through tolist(); (R4) save is a function of its arguments (no reuse of what the folder held "
    "before); (R5) every class reachable from the pickled scheduler / loss has only picklable attribute types; (R6) with "
    "a folder set every path from a state mutation of a batch to the next iteration / exit writes a checkpoint; (R7) "
    "restore overwrites counters, arrays and generator state after the constructor call. Fidelity of h5py, pandas, "
    "pickle and json themselves is trusted."
    ' (R9) a suffix slice `a[-k:]` on the save path needs k proven non-zero (k = 0 selects everything); the SQLite save executes no SELECT / UPDATE (whole-row replacement only).'
    " (R10) the attributes the non-persisted grid is rebuilt from (bounds, precision) are private copies of the caller's arrays; (R4b) no text writer below the save appends to or updates a file in place (plumbing-independent); the sampler id table, rebuilt on restore, is numbered in first-seen order, never in set-iteration order (shared with C18). Columns / keys bound to constants (format or library version) are read as metadata, and configuration that the constructor stores unchanged and the restore receives from its own caller (like the model) counts as re-supplied, not as missing."
    ' Objects that travel by pickle use the default protocol (no __getstate__ / __setstate__ hooks, C05-R2c); the frame read from the results file is not repaired or filtered (dropna, fillna, round, ...); the Calibrator constructor - which the restore goes through - calls no state-changing method on the scheduler / samplers / loss it receives (C05-R2g).'
)
TECHNIQUE = "composition of extracted positional/keyword/key maps + writer/reader table agreement + attribute-type reachability + CFG must-pass-through"

DERIVED = {
    "D": "recomputed by the constructor from real_data.shape[1]",
    "model": "supplied by the caller of restore_from_checkpoint; its __name__ is persisted and compared",
    "param_grid": "rebuilt by the constructor from parameters_bounds / parameters_precision, both persisted",
}
SEEDABLE_PRIVATE = {"_BaseSeedable__random_state": "random_state", "_BaseSeedable__random_generator": "random_generator.bit_generator.state"}
OK_SAVE_WRAPPERS = (re.compile(r"^id$"), re.compile(r"^tolist$"), re.compile(r"^id dtype=('float64'|np\.float64|float)$"),
                    re.compile(r"^\[\(?:, (\w+)\)?\] for \1 in range\((\w+)\.shape\[1\]\)$"))
OK_LOAD_WRAPPERS = (re.compile(r"^id$"), re.compile(r"^T\(vstack\[id for (\w+) in range\(len\(\w+\['parameters_precision'\]\)\)\]\)$"),
                    re.compile(r"^T\(vstack\[id for (\w+) in range\(len\(\w+\['parameters_bounds'\]\[[01]\]\)\)\]\)$"))
#: wrappers that certainly change values (a finding); anything else that is not in the value-preserving tables is unknown (undecided)
KIND_OF_FIELD = {"N": "int", "D": "int", "ensemble_size": "int", "n_jobs": "int", "current_batch_index": "int", "n_sampled_params": "int", "convergence_precision": "int",
                 "initial_random_seed": "int", "random_state": "int", "verbose": "bool", "saving_file": "str", "saving_folder": "str", "model_name": "str"}


def _same_kind_coercion(via: str, local: str, spath: str) -> bool:
    kind = KIND_OF_FIELD.get(spath.split(".")[-1])
    if kind is None:
        return False
    loc = re.escape(local)
    core = rf"{kind}\(\s*{loc}\s*\)"
    return bool(re.fullmatch(rf"{core}|{core} if {loc} is not None else None|None if {loc} is None else {core}", via))


LOSSY = re.compile(r"round|around|astype|float32|float16|int32|int16|int8|\bint\(|clip|trunc|floor|ceil|\bstr\(|format|\[\s*-?\d*\s*:\s*-?\d+|\[\s*-?\d+\s*:|nan_to_num|abs\(|sorted|unique|\* |/ |\+ |- ")
UNPICKLABLE = {"threading.Thread": "thread", "threading.Lock": "lock", "threading.RLock": "lock", "threading.Event": "event",
               "threading.Condition": "condition", "threading.Semaphore": "semaphore", "queue.Queue": "queue", "queue.SimpleQueue": "queue",
               "queue.LifoQueue": "queue", "queue.PriorityQueue": "queue", "sqlite3.Connection": "connection", "sqlite3.Cursor": "cursor",
               "multiprocessing.Pool": "pool", "io.TextIOWrapper": "file", "io.BufferedWriter": "file", "io.BufferedReader": "file",
               "h5py.File": "file", "socket.socket": "socket", "collections.abc.Generator": "generator", "typing.Generator": "generator",
               "collections.abc.Iterator": "iterator"}


def run(ctx: Context) -> None:
    pl = Plumbing(ctx.prog)
    for f in (pl.cc, pl.save, pl.load, pl.restore, pl.init):
        ctx.analysed(f)
    ctx.rule(r1_plumbing, pl)
    ctx.rule(r2_tables, pl)
    ctx.rule(r2_sqlite)
    ctx.rule(r3_text_path, pl)
    ctx.rule(r4_function_of_arguments, pl)
    ctx.rule(r4b_append_modes, pl)
    ctx.rule(r5_picklable)
    v = CalibrateView(ctx.prog)
    ctx.rule(c14.r4_checkpoint_on_every_exit, v, "R6")
    ctx.rule(r7_restore_order, pl)
    ctx.rule(r8_restore_is_read_only, pl)
    ctx.rule(r9_suffix_slices, pl)
    # the sampler id table is rebuilt, not stored: the restored table equals the saved one only if its construction is deterministic across
    # processes (first-seen order, never the iteration order of a set) - shared with C18-R1
    from . import c18
    ctx.rule(c18.r1_writers)
    ctx.rule(r10_derived_sources_private)
    # objects that travel by pickle come back bit-for-bit only through the default protocol: __getstate__ / __setstate__ / __reduce__ hooks on the way (C05-R2c)
    from . import c05
    ctx.rule(c05.r2c_pickle_hooks)
    ctx.rule(c05.r2g_constructor_keeps_components)


def strip_copy_via(use: str, local: str) -> str:
    """`store:x:via:copy.deepcopy(local)` -> `store:x`: a copy of the loaded value has the loaded value."""
    if ":via:" not in use:
        return use
    head_, via_ = use.split(":via:", 1)
    if re.fullmatch(r"(copy\.deepcopy|copy\.copy|np\.array|numpy\.array|np\.asarray|np\.copy|list|tuple|dict)\(\s*" + re.escape(local) + r"\s*(,\s*copy\s*=\s*True\s*)?\)|" + re.escape(local) + r"\.copy\(\)", via_.strip()):
        return head_
    return use


def _self_path(e: ast.expr, self_name: str | None) -> str | None:
    # a defensive copy of the attribute has the attribute's value: np.array(x[, copy=True]), np.asarray(x), np.copy(x), x.copy()
    for _ in range(3):
        if isinstance(e, ast.Call) and (dotted(e.func) or "") in ("np.array", "numpy.array", "np.asarray", "numpy.asarray", "np.copy", "numpy.copy", "copy.copy", "copy.deepcopy") and len(e.args) == 1 \
                and all(k.arg in ("copy", "order", "subok") for k in e.keywords) and not any(k.arg == "copy" and isinstance(k.value, ast.Constant) and k.value.value is False and False for k in e.keywords):
            e = e.args[0]
        elif isinstance(e, ast.Call) and isinstance(e.func, ast.Attribute) and e.func.attr == "copy" and not e.args and all(k.arg == "order" for k in e.keywords):
            e = e.func.value
        else:
            break
    d = dotted(e)
    if d and self_name and d.startswith(self_name + "."):
        return d[len(self_name) + 1:]
    return None


def compose(ctx: Context, pl: Plumbing) -> list[dict]:
    args = pl.checkpoint_args()
    storage = pl.save_storage()
    loads = pl.load_sources()
    sinks = pl.restore_sinks()
    rows = []
    for p in pl.save.params[1:]:
        row = {"save_param": p, "source": None, "storage": None, "load_pos": None, "local": None, "sink": None}
        if p in args:
            row["source_expr"] = args[p]
            row["source"] = _self_path(args[p], pl.cc.self_name) or f"!{src(args[p])}"
        st = storage.get(p, [])
        if st:
            row["storage"] = [(s.kind, s.key, s.wrapper) for s in st]
            hits = [i for i, l_ in enumerate(loads) if any((l_.kind, l_.key) == (s.kind, s.key) for s in st)]
            row["load_pos"] = hits
            row["load_wrappers"] = [loads[i].wrapper for i in hits]
            if len(hits) == 1 and hits[0] < len(sinks):
                row["local"] = sinks[hits[0]]["local"]
                row["sink"] = sinks[hits[0]]["uses"]
        rows.append(row)
    return rows


def r1_plumbing(ctx: Context, pl: Plumbing) -> None:
    prog = ctx.prog
    rows = compose(ctx, pl)
    ctx.floor("R1", "persisted fields", len(rows), 22)
    loads = pl.load_sources()
    sinks = pl.restore_sinks()
    ctor_paths = pl.ctor_paths()
    ctx.check(len(loads) == len(sinks), "R1.arity", "restore_from_checkpoint:unpack-arity", f"restore unpacks exactly the {len(loads)} elements load returns",
              f"load returns {len(loads)} elements, restore unpacks {len(sinks)}", pl.restore, pl.restore_unpack)
    for kind, key, msg, f, node in [(r, k, m, f_, n) for r, k, m, f_, n in pl.problems]:
        ctx.fail(kind, key, msg, f, node)
    table = []
    for r in rows:
        p = r["save_param"]
        key = f"field:{p}"
        table.append({k: (v if not isinstance(v, ast.AST) else src(v)) for k, v in r.items() if k != "source_expr"})
        # source
        if r["source"] is None:
            ctx.fail("R1.source", key, f"create_checkpoint passes nothing for save parameter {p}", pl.cc, pl.cc_call)
            continue
        if r["source"].startswith("!"):
            ctx.fail("R1.source", key, f"create_checkpoint passes `{r['source'][1:]}` for `{p}`: not the calibrator's own state (a plain attribute path of self)", pl.cc, r["source_expr"])
            continue
        spath = r["source"]
        # storage
        if not r["storage"]:
            ctx.fail("R1.storage", key, f"save parameter {p} is not written to any file", pl.save, pl.save.node)
            continue
        if len(r["storage"]) != 1:
            ctx.fail("R1.storage", key, f"save parameter {p} is written to {len(r['storage'])} places {r['storage']}", pl.save, pl.save.node)
        for kind, skey, w in r["storage"]:
            if not any(rx.match(w) for rx in OK_SAVE_WRAPPERS) and not LOSSY.search(w):
                raise AnalysisError(f"{pl.save.loc(pl.save.node)}: {p} is stored through `{w[:80]}`, a form the wrapper table does not know (neither value-preserving nor lossy); cannot decide R1")
            ctx.check(any(rx.match(w) for rx in OK_SAVE_WRAPPERS), "R1.wrappers", f"{key}:save-wrapper", f"{p} is stored unmodified ({w})",
                      f"{p} is stored through `{w}` - not a value-preserving form (rounding / cast / slice?)", pl.save, pl.save.node)
        # load
        if not r["load_pos"]:
            ctx.fail("R1.load", key, f"{p} is stored as {r['storage']} but no element of load's tuple reads it", pl.load, pl.load_return)
            continue
        if len(r["load_pos"]) != 1:
            ctx.fail("R1.load", key, f"{p} is read into {len(r['load_pos'])} tuple positions {r['load_pos']}", pl.load, pl.load_return)
            continue
        for w in r["load_wrappers"]:
            if not any(rx.match(w) for rx in OK_LOAD_WRAPPERS) and not LOSSY.search(w):
                raise AnalysisError(f"{pl.load.loc(pl.load_return)}: {p} is read back through `{w[:80]}`, a form the wrapper table does not know; cannot decide R1")
            ctx.check(any(rx.match(w) for rx in OK_LOAD_WRAPPERS), "R1.wrappers", f"{key}:load-wrapper", f"{p} is read back unmodified ({w[:40]})",
                      f"{p} is read back through `{w}` - not a value-preserving form", pl.load, pl.load_return)
        # sink
        uses = r["sink"] or []
        if not uses:
            ok = spath in DERIVED
            ctx.check(ok, "R1.sink", key, f"{p} (calibrator.{spath}) is dropped on restore: derived - {DERIVED.get(spath, '')}",
                      f"{p} (calibrator.{spath}) is loaded into `{r['local']}` but never used by restore: the saved value is lost", pl.restore, pl.restore_unpack)
            continue
        good = False
        why = ""
        for u in uses:
            if ":via:" in u:
                head_, via_ = u.split(":via:", 1)
                # a copy of the loaded value has the loaded value (copy.deepcopy(x), np.array(x), np.asarray(x), x.copy(), list(x) / tuple(x) of a sequence)
                if re.fullmatch(r"(copy\.deepcopy|copy\.copy|np\.array|numpy\.array|np\.asarray|np\.copy|list|tuple)\(\s*" + re.escape(r["local"]) + r"\s*(,\s*copy\s*=\s*True\s*)?\)|" + re.escape(r["local"]) + r"\.copy\(\)", via_.strip()):
                    u = head_
                elif _same_kind_coercion(via_.strip(), r["local"], spath):
                    u = head_       # int(x) of an integer field, bool(x) of a flag, str(x) of a text field (possibly guarded by `is not None`): the value itself
                else:
                    if not LOSSY.search(via_) and not re.fullmatch(re.escape(r["local"]), via_.strip()):
                        why = f"restored through the expression `{via_}`"
                        unknown_via = via_
                    else:
                        why = f"restored through the expression `{via_}`"
                    continue
            kind, _, target = u.partition(":")
            if kind == "ctor":
                paths = ctor_paths.get(target, set())
                if spath in paths or spath.split(".")[0] in paths and "." not in spath:
                    good = True
                else:
                    why = f"handed to constructor parameter `{target}`, which determines {sorted(paths)}"
            elif kind == "store":
                if target == spath:
                    good = True
                else:
                    why = f"stored into calibrator.{target}"
            elif kind == "compare":
                if target.split(".", 1)[-1] == spath.split(".", 1)[-1] and target.split(".")[0] == spath.split(".")[0]:
                    good = True
                else:
                    why = f"compared with {target}"
        ctx.check(good, "R1.identity", key, f"calibrator.{spath} -> {p} -> {r['storage'][0][0]}:{r['storage'][0][1]} -> tuple[{r['load_pos'][0]}] -> {r['local']} -> {uses[0]}",
                  f"calibrator.{spath} is saved as `{p}` ({r['storage'][0][0]}:{r['storage'][0][1]}), read back at tuple position {r['load_pos'][0]} into `{r['local']}` and then {why}: "
                  f"the value does not return to calibrator.{spath}", pl.restore, pl.restore_unpack)
    ctx.tables["C04.R1.field_chain"] = table
    ctx.sample(table[0])
    # load positions that read something nobody wrote
    for i, l_ in enumerate(loads):
        if l_.kind == "?":
            ctx.fail("R1.load", f"load:tuple[{i}]", f"element {i} of load's tuple is `{l_.key[:60]}` - not read from the checkpoint files", pl.load, l_.node)
    # completeness
    cal = prog.find_class("Calibrator")
    written = set()
    for attr, stores in prog.attr_stores(cal, inherited=True).items():
        for f, s, v in stores:
            if f.name in ("__init__", "calibrate", "_set_random_state", "set_samplers", "set_scheduler", "update_samplers_id_table"):
                written.add(attr)
    covered = set()
    for r in rows:
        if r["source"] and not r["source"].startswith("!"):
            covered.add(r["source"].split(".")[0])
    for a in sorted(written):
        if a in covered or a in DERIVED:
            ctx.ok("R1.completeness", f"Calibrator.{a}", f"{a} is persisted" if a in covered else f"{a} is derived: {DERIVED[a]}")
        elif a in SEEDABLE_PRIVATE:
            ok = SEEDABLE_PRIVATE[a].split(".")[0] in covered
            ctx.check(ok, "R1.completeness", f"Calibrator.{a}", f"{a} is persisted through {SEEDABLE_PRIVATE[a]}", f"{a} is not persisted", None, None)
        elif _caller_supplied_on_restore(prog, pl, cal, a):
            ctx.ok("R1.completeness", f"Calibrator.{a}", f"{a} is configuration handed in by the caller of restore_from_checkpoint (like the model): stored by the constructor only, "
                   "and the constructor call of the restore receives it from a parameter of the restore")
        else:
            ctx.fail("R1.completeness", f"Calibrator.{a}", f"Calibrator.{a} is part of the calibrator's state but is neither saved by create_checkpoint nor derivable: "
                     "a restored calibrator differs from the saved one", pl.cc, pl.cc_call)


def _caller_supplied_on_restore(prog, pl: Plumbing, cal, attr: str) -> bool:
    """`attr` is written only by __init__, directly from one of its parameters, and the constructor call in restore_from_checkpoint passes a
    parameter of the restore itself for it - the disposition `model` has: an object that cannot be persisted is handed in again by the caller."""
    stores = prog.attr_stores(cal, inherited=True).get(attr, [])
    if not stores or any(f.name != "__init__" for f, _s, _v in stores):
        return False
    init = pl.init
    srcs = {v.id for _f, _s, v in stores if isinstance(v, ast.Name) and v.id in init.params}
    if len(srcs) != 1 or len(stores) != 1:
        return False
    prm = next(iter(srcs))
    ctor = [c for c in calls_in(pl.restore.node) if isinstance(c.func, ast.Name) and c.func.id in ("cls", "Calibrator")]
    if len(ctor) != 1:
        return False
    bound = init.bound_params
    arg = None
    for i, a in enumerate(ctor[0].args):
        if i < len(bound) and bound[i] == prm:
            arg = a
    for k in ctor[0].keywords:
        if k.arg == prm:
            arg = k.value
    return isinstance(arg, ast.Name) and arg.id in pl.restore.params and not any(
        isinstance(t, ast.Name) and t.id == arg.id and isinstance(t.ctx, ast.Store) for t in ast.walk(pl.restore.node))


# ---------------------------------------------------------------------------------------------- R2
def r2_tables(ctx: Context, pl: Plumbing) -> None:
    storage = pl.save_storage()
    loads = pl.load_sources()
    written = {(s.kind, s.key) for sts in storage.values() for s in sts}
    read = {(l_.kind, l_.key) for l_ in loads if l_.kind != "?"}
    for kind, key in sorted(read - written):
        ctx.fail("R2.tables", f"read-not-written:{kind}:{key}", f"load reads {kind} item `{key}` that save never writes (KeyError / stale data on restore)", pl.load, pl.load_return)
    for kind, key in sorted(written - read):
        ctx.fail("R2.tables", f"written-not-read:{kind}:{key}", f"save writes {kind} item `{key}` that load never reads back", pl.save, pl.save.node)
    if not (read ^ written):
        ctx.ok("R2.tables", "json-csv-pickle-h5:keys", f"{len(written)} stored items: writer and reader tables agree")
    effects = pl.save_effects()
    files_w = {e.file for e in effects}
    files_r = {e.file for e in pl.load_reads}
    ctx.check(files_w == files_r, "R2.files", "checkpoint:file-names", f"the same {len(files_w)} files are written and read", f"files written {sorted(files_w)} vs read {sorted(files_r)}", pl.save, pl.save.node)
    ctx.floor("R2", "checkpoint files", len(files_w), 5)
    # every file is (re)written on every path through save
    g = CFG(pl.save.node)
    for file in sorted(files_w):
        nodes = {n for e in effects if e.file == file and getattr(e, "always", True) for n in node_for(g, getattr(e, "node_in_save", e.node))}
        p = g.path_avoiding(g.entry, {g.exit}, nodes)
        ctx.check(p is None, "R2.every-file", f"save_calibrator_state:writes:{file}", f"{file} is written on every path through save",
                  f"save_calibrator_state can return without writing {file} (the folder then mixes two checkpoints)", pl.save, pl.save.node, path_text(pl.save, p))


SQL = "black_it.utils.sqlite3_checkpointing"
RENAMES = {("saving_file", "saving_folder"), ("random_generator_state", "random_generator_state_json"), ("samplers", "scheduler_pickled"),
           ("scheduler", "scheduler_pickled"), ("loss_function", "loss_function_pickled"), ("scheduler_pickled", "scheduler_pickled"),
           ("loss_function_pickled", "loss_function_pickled"), ("series_samp", "series_samp")}


def _sql_text(prog, name: str) -> str:
    consts = prog.module_consts.get(SQL, {})
    if name not in consts:
        raise AnalysisError(f"anchor vanished: {SQL}.{name}")
    v = consts[name]
    if isinstance(v, ast.Constant) and isinstance(v.value, str):
        return v.value
    if isinstance(v, ast.JoinedStr):
        return "".join(str(x.value) if isinstance(x, ast.Constant) else "?" for x in v.values)
    raise AnalysisError(f"{name} is not a string literal")


def sql_columns(prog) -> dict[str, list[str]]:
    ddl = _sql_text(prog, "SQL_DDL")
    ddl_nc = re.sub(r"--[^\n]*", "", ddl)
    m = re.search(r"CREATE\s+TABLE\s+(?:IF\s+NOT\s+EXISTS\s+)?checkpoint\s*\((.*?)\)\s*;", ddl_nc, re.S | re.I)
    if not m:
        raise AnalysisError("cannot parse CREATE TABLE checkpoint in SQL_DDL")
    ddl_cols = [c.split()[0] for c in (x.strip() for x in m.group(1).split(",")) if c]
    ins = _sql_text(prog, "SQL_SAVE_QUERY")
    m = re.search(r"INSERT\s+INTO\s+checkpoint\s*\((.*?)\)\s*VALUES\s*\((.*?)\)", ins, re.S | re.I)
    if not m:
        raise AnalysisError("cannot parse INSERT INTO checkpoint in SQL_SAVE_QUERY")
    ins_cols = [c.strip() for c in m.group(1).split(",") if c.strip()]
    marks = [c.strip() for c in m.group(2).split(",") if c.strip()]
    sel = _sql_text(prog, "SQL_LOAD_QUERY")
    m = re.search(r"SELECT\s+(.*?)\s+FROM\s+checkpoint", sel, re.S | re.I)
    if not m:
        raise AnalysisError("cannot parse SELECT ... FROM checkpoint in SQL_LOAD_QUERY")
    sel_cols = [c.strip() for c in m.group(1).split(",") if c.strip()]
    return {"ddl": ddl_cols, "insert": ins_cols, "placeholders": marks, "select": sel_cols}


def _root_name(e: ast.expr) -> str | None:
    """Name whose value the expression carries: receiver of a method call, argument of a module-level function."""
    if isinstance(e, ast.Name):
        return e.id
    if isinstance(e, ast.Call):
        if isinstance(e.func, ast.Attribute) and not (isinstance(e.func.value, ast.Name) and e.func.value.id in ("json", "np", "pickle", "numpy", "gzip")):
            return _root_name(e.func.value)
        if e.args:
            return _root_name(e.args[0])
    if isinstance(e, (ast.Attribute, ast.Subscript)):
        return _root_name(e.value)
    return None


def r2_sqlite(ctx: Context) -> None:
    prog = ctx.prog
    cols = sql_columns(prog)
    ctx.floor("R2", "SQLite columns", len(cols["ddl"]), 20)
    ctx.check(cols["ddl"] == cols["insert"] == cols["select"], "R2.sqlite-columns", "sqlite3:column-lists", f"DDL = INSERT = SELECT column lists ({len(cols['ddl'])} columns, same order)",
              f"column lists differ: DDL {cols['ddl']}, INSERT {cols['insert']}, SELECT {cols['select']}", None, None)
    ctx.check(len(cols["placeholders"]) == len(cols["insert"]) and set(cols["placeholders"]) == {"?"}, "R2.sqlite-columns", "sqlite3:placeholders", "one `?` per inserted column",
              f"{len(cols['placeholders'])} placeholders for {len(cols['insert'])} columns", None, None)
    save = ctx.func(f"{SQL}:save_calibrator_state")
    execs = [c for c in calls_in(save.node) if isinstance(c.func, ast.Attribute) and c.func.attr == "execute" and c.args and src(c.args[0]) == "SQL_SAVE_QUERY"]
    ctx.floor("R2", "INSERT execution in the SQLite save", len(execs), 1)
    bound = execs[0].args[1] if len(execs[0].args) > 1 else None
    ok = isinstance(bound, (ast.Tuple, ast.List)) and len(bound.elts) == len(cols["insert"])
    ctx.check(ok, "R2.sqlite-columns", "sqlite3:bound-values", f"{len(cols['insert'])} values bound to {len(cols['insert'])} placeholders",
              f"{len(bound.elts) if isinstance(bound, (ast.Tuple, ast.List)) else '?'} bound values for {len(cols['insert'])} columns", save, execs[0])
    env = single_assignment_env(save.node)
    params = save.params[1:]  # without the path

    def root_param(e: ast.expr, depth: int = 0) -> str | None:
        r = _root_name(e)
        if r is None or depth > 4:
            return None
        if r in save.params:
            return r
        if r in env:
            return root_param(env[r], depth + 1)
        return None

    # a column bound to a constant (format / library version) is metadata: it carries nothing of the calibrator, takes no save parameter and need not be returned
    meta_cols: set[str] = set()
    if ok:
        for col, e in zip(cols["insert"], bound.elts):
            if isinstance(e, ast.Constant) or (isinstance(e, ast.Name) and e.id not in save.params and e.id not in env and (e.id.isupper() or (e.id.startswith("__") and e.id.endswith("__")))):
                meta_cols.add(col)
        if meta_cols:
            ctx.ok("R2.sqlite-columns", "sqlite3:metadata-columns", f"metadata column(s) {sorted(meta_cols)} are bound to constants")
        state_cols = [c_ for c_ in cols["insert"] if c_ not in meta_cols]
        ctx.check(len(params) == len(state_cols), "R2.sqlite-columns", "sqlite3:param-arity", "one save parameter per column", f"{len(params)} parameters for {len(state_cols)} columns", save, save.node)
        for col, e in zip(cols["insert"], bound.elts):
            if col in meta_cols:
                continue
            i = state_cols.index(col)
            rp = root_param(e)
            good = i < len(params) and rp == params[i]
            ctx.check(good, "R2.sqlite-alignment", f"sqlite3:insert:{col}", f"column {col} (position {i}) <- save parameter {params[i] if i < len(params) else '?'}",
                      f"column {col} (position {i}) is bound to `{src(e)[:60]}`, which carries parameter `{rp}` instead of `{params[i] if i < len(params) else '?'}` (positions shifted or swapped)", save, e)
    # the SQLite save, too, is a function of its arguments: it reads nothing back from the database (no SELECT deciding what is written) and never
    # refreshes a subset of the columns of an existing row (UPDATE) - a row left by another experiment would keep its other columns
    n_sql = 0
    for c_ in [x for x in calls_in(save.node) if isinstance(x.func, ast.Attribute) and x.func.attr in ("execute", "executemany", "executescript") and x.args]:
        a0 = c_.args[0]
        text = _sql_text(prog, a0.id) if isinstance(a0, ast.Name) else a0.value if isinstance(a0, ast.Constant) and isinstance(a0.value, str) else None
        if text is None:
            continue
        n_sql += 1
        text_nc = re.sub(r"--[^\n]*", "", text)
        for kw, why in (("SELECT", "reads the stored checkpoint back while saving: what is written then depends on what the file held before"),
                        ("UPDATE", "updates some columns of the stored row in place: the other columns keep whatever an earlier save (possibly of another experiment) left there")):
            if re.search(rf"\b{kw}\b", text_nc, re.I):
                ctx.fail("R4.sqlite-function-of-arguments", f"sqlite3.save:{kw}", f"`{src(c_)[:70]}` {why}", save, c_)
    ctx.ok("R4.sqlite-function-of-arguments", "sqlite3.save:statements", f"{n_sql} SQL statement(s) executed by the SQLite save: whole-row replacement only")
    load = ctx.func(f"{SQL}:load_calibrator_state")
    def unpacking(fn):
        return [s_ for s_ in walk_scope(fn.node) if isinstance(s_, ast.Assign) and isinstance(s_.targets[0], ast.Tuple) and "SQL_LOAD_QUERY" in src(s_.value)]

    unpack = unpacking(load)
    if not unpack:
        # the row may be read by a helper whose result the load returns unchanged (`return _read_state(connection)`)
        for r in [r for r in walk_scope(load.node) if isinstance(r, ast.Return) and isinstance(r.value, ast.Call)]:
            tg = [t for t in ctx.prog.resolve_call(load, r.value) if not isinstance(t, str)]
            if len(tg) == 1 and unpacking(tg[0]):
                load = tg[0]
                unpack = unpacking(load)
                ctx.analysed(load)
                break
    ctx.floor("R2", "SELECT unpacking in the SQLite load", len(unpack), 1)
    names = [src(t) for t in unpack[0].targets[0].elts]
    ctx.check(len(names) == len(cols["select"]), "R2.sqlite-columns", "sqlite3:select-arity", "one target per selected column", f"{len(names)} targets for {len(cols['select'])} columns", load, unpack[0])
    lenv = single_assignment_env(load.node)
    rets = [r for r in walk_scope(load.node) if isinstance(r, ast.Return) and isinstance(r.value, ast.Tuple)]
    ctx.floor("R2", "returned tuple of the SQLite load", len(rets), 1)

    def root_target(e: ast.expr, depth: int = 0) -> str | None:
        r = _root_name(e)
        if r is None or depth > 4:
            return None
        if r in names:
            return r
        if r in lenv:
            return root_target(lenv[r], depth + 1)
        return None

    elts = rets[0].value.elts
    sel_state = [(c_, nm) for c_, nm in zip(cols["select"], names) if c_ not in meta_cols]
    ctx.check(len(elts) == len(sel_state), "R2.sqlite-columns", "sqlite3:return-arity", "the load returns one element per column", f"{len(elts)} returned elements for {len(sel_state)} columns", load, rets[0])
    for i, ((col, nm), e) in enumerate(zip(sel_state, elts)):
        rt = root_target(e)
        good = rt == nm
        ctx.check(good, "R2.sqlite-alignment", f"sqlite3:select:{col}", f"returned element {i} carries column {col}",
                  f"returned element {i} is `{src(e)[:50]}`, which carries the value of column {cols['select'][names.index(rt)] if rt in names else '?'} instead of {col} (positions shifted or swapped)", load, e)


# ---------------------------------------------------------------------------------------------- R3
READ_CSV_OK = {"float_precision": ("'round_trip'",), "index_col": ("0", "None", "False"), "header": ("0", "'infer'"), "sep": ("','",), "encoding": None,
               "engine": ("'c'",), "dtype": ("float", "np.float64", "None"), "low_memory": None, "memory_map": None}
READ_CSV_BAD = {"on_bad_lines", "error_bad_lines", "names", "na_filter", "converters", "decimal", "thousands", "nrows", "skiprows", "usecols", "skipfooter", "na_values", "keep_default_na",
                "true_values", "false_values", "comment", "dtype_backend", "chunksize", "iterator"}


def r3_text_path(ctx: Context, pl: Plumbing) -> None:
    prog = ctx.prog
    pl.load_sources()
    reads = [e for e in pl.load_reads if e.api == "read_csv"]
    ctx.floor("R3", "read_csv on the load path", len(reads), 1)
    for e in reads:
        c = e.node
        fp = kwarg(c, "float_precision")
        ctx.check(isinstance(fp, ast.Constant) and fp.value == "round_trip", "R3.csv-read", "load_calibrator_state:read_csv:float_precision",
                  "CSV floats are parsed with float_precision='round_trip' (exact)",
                  f"read_csv is called with float_precision={src(fp) if fp is not None else 'default'}: pandas' default parser is not exact (e.g. 0.04097352393619469 -> 0.0409735239361946)", pl.load, c)
        for k in c.keywords:
            if k.arg == "float_precision" or k.arg is None:
                continue
            if k.arg in READ_CSV_BAD:
                ctx.fail("R3.csv-read", f"load_calibrator_state:read_csv:{k.arg}", f"read_csv option {k.arg}={src(k.value)} changes how stored values are read back "
                         "(e.g. na_filter=False turns a NaN loss into a string column)", pl.load, c)
            elif k.arg in READ_CSV_OK:
                allowed = READ_CSV_OK[k.arg]
                ctx.check(allowed is None or src(k.value) in allowed, "R3.csv-read", f"load_calibrator_state:read_csv:{k.arg}", f"read_csv {k.arg}={src(k.value)} keeps values",
                          f"read_csv option {k.arg}={src(k.value)} may alter the restored values", pl.load, c)
            else:
                raise AnalysisError(f"{pl.load.loc(c)}: read_csv option `{k.arg}` is not in the rule table; cannot decide whether values are preserved")
    # the table that was read is the table that is used: no repair / filtering / rounding of the frame between read_csv and the returned arrays
    REPAIR = {"dropna", "fillna", "drop_duplicates", "round", "clip", "interpolate", "query", "head", "tail", "sample", "sort_values", "ffill", "bfill", "replace", "where", "mask", "truncate"}
    for f_ in {pl.load}:
        for c in calls_in(f_.node, scope_only=False):
            if isinstance(c.func, ast.Attribute) and c.func.attr in REPAIR:
                root = c.func.value
                while isinstance(root, (ast.Attribute, ast.Subscript, ast.Call)):
                    root = root.func.value if isinstance(root, ast.Call) and isinstance(root.func, ast.Attribute) else (root.value if not isinstance(root, ast.Call) else None)
                    if root is None:
                        break
                if isinstance(root, ast.Name) and any(isinstance(s_, (ast.Assign, ast.AnnAssign)) and s_.value is not None and any(isinstance(x, ast.Call) and (dotted(x.func) or "").endswith("read_csv") for x in ast.walk(s_.value))
                                                      and any(isinstance(t, ast.Name) and t.id == root.id for t in ([s_.target] if isinstance(s_, ast.AnnAssign) else s_.targets)) for s_ in walk_scope(f_.node)):
                    ctx.fail("R3.csv-read", f"load_calibrator_state:frame:{c.func.attr}", f"`{' '.join(src(c).split())[:70]}` alters the table read from the checkpoint (rows with a NaN loss are legitimate records): "
                             "the restored history is not the saved one", f_, c)
    writes = [e for e in pl.save_effects() if e.api == "to_csv"]
    for e in writes:
        c = e.node
        for k in c.keywords:
            if k.arg in ("float_format", "decimal", "na_rep", "columns", "chunksize", "date_format", "quoting"):
                ctx.fail("R3.csv-write", f"save_calibrator_state:to_csv:{k.arg}", f"to_csv option {k.arg}={src(k.value)} writes a lossy / altered text form of the floats", pl.save, c)
        ctx.ok("R3.csv-write", "save_calibrator_state:to_csv", "to_csv writes the shortest round-trip repr (no float_format)")
    # JSON: arrays through tolist()
    dumps = [e for e in pl.save_effects() if e.api == "json.dump"]
    for e in dumps:
        enc = kwarg(e.node, "cls")
        ok = enc is not None and src(enc) == "NumpyArrayEncoder"
        ctx.check(ok, "R3.json", "save_calibrator_state:json-encoder", "numpy arrays are JSON-encoded by NumpyArrayEncoder", f"json.dump uses cls={src(enc) if enc is not None else 'default'}", pl.save, e.node)
    enc = prog.find_class("NumpyArrayEncoder")
    d = enc.methods.get("default")
    ok = d is not None and any(isinstance(r, ast.Return) and src(r.value) in ("o.tolist()", "obj.tolist()") for r in walk_scope(d.node))
    ctx.check(ok, "R3.json", "NumpyArrayEncoder.default", "arrays are encoded as tolist() (Python floats, repr round-trips)", "NumpyArrayEncoder.default does not return tolist()", d, d.node if d else None)
    # HDF5 float64
    st = pl.save_storage().get("series_samp", [])
    for s in st:
        if s.kind == "h5":
            m = re.search(r"dtype=(.*)$", s.wrapper)
            ctx.check(m is None or m.group(1) in ("'float64'", "np.float64", "float", "'f8'", "'<f8'"), "R3.h5-dtype", "save_calibrator_state:h5-dtype", "the series dataset is float64",
                      f"the series dataset is stored as {m.group(1) if m else '?'} (precision lost)", pl.save, s.node)


# ---------------------------------------------------------------------------------------------- R4
def r4_function_of_arguments(ctx: Context, pl: Plumbing) -> None:
    effects = pl.save_effects()
    for e in effects:
        fresh = e.mode in ("w", "wb", "x", "xb")
        if e.api in ("json.dump", "pickle.dump", "to_csv"):
            ctx.check(fresh, "R4.truncating", f"save_calibrator_state:{e.file}:mode={e.mode}", f"{e.file} is rewritten from scratch (mode {e.mode})",
                      f"{e.file} is opened with mode {e.mode}: what the folder held before leaks into the new checkpoint", pl.save, e.node)
        elif e.api == "h5py.File":
            ctx.check(fresh, "R4.truncating", f"save_calibrator_state:{e.file}:mode={e.mode}", f"{e.file} is rewritten from scratch (mode {e.mode})",
                      f"{e.file} is opened with mode '{e.mode}' when it already exists ({e.cond}): only rows beyond those already on disk are written, "
                      "so a new run in an old folder restores the previous run's series", pl.save, e.node)
    # exists()-guarded skipping of a write
    g = CFG(pl.save.node)
    for t in g.live:
        if t.kind == "test" and "exists()" in src(t.ast):
            tgt = src(t.ast)
            if "checkpoint_path.exists" in tgt:
                continue  # directory creation only
            ctx.notes.setdefault("exists_guards", []).append(tgt)


def r4b_append_modes(ctx: Context, pl: Plumbing) -> None:
    """Text files of the checkpoint are rewritten whole: no writer below save_calibrator_state appends to (or updates in place) what the folder held.
    Independent of the field plumbing - it looks at every function reachable from the save."""
    prog = ctx.prog
    seen = {pl.save.qualname: pl.save}
    work = [pl.save]
    while work:
        f = work.pop()
        for c in calls_in(f.node, scope_only=False):
            for t in prog.resolve_call(f, c):
                if isinstance(t, FuncInfo) and t.qualname not in seen:
                    seen[t.qualname] = t
                    work.append(t)
    n = 0
    for f in seen.values():
        for c in calls_in(f.node, scope_only=False):
            fn = dotted(c.func) or ""
            last = fn.split(".")[-1] if fn else (c.func.attr if isinstance(c.func, ast.Attribute) else "")
            mode = None
            if last in ("to_csv", "to_json", "savetxt", "to_string"):
                mode = kwarg(c, "mode")
                n += 1
            elif last == "open":
                mode = kwarg(c, "mode", 1 if fn in ("open", "io.open") else 0)
                n += 1
            else:
                continue
            if mode is None:
                continue
            txt = mode.value if isinstance(mode, ast.Constant) and isinstance(mode.value, str) else None
            if txt is None:
                continue
            ctx.check(not ("a" in txt or "+" in txt), "R4.truncating", f"{f.name}:{last}:mode={txt}", "text files are rewritten from scratch",
                      f"`{' '.join(src(c).split())[:80]}` opens a checkpoint file with mode '{txt}': rows a previous run left in the folder stay in the file, "
                      "so the stored table is not the state that was saved", f, c)
    ctx.ok("R4.truncating", "save:text-writers", f"{n} text writer call(s) below save_calibrator_state: none appends or updates in place")


# ---------------------------------------------------------------------------------------------- R5
def attr_type_names(prog, cls: ClassInfo, _depth: int = 0) -> dict[str, list[tuple[str, FuncInfo, ast.stmt]]]:
    """attribute -> qualified type names it may hold (from annotations and constructor calls on the right-hand side)."""
    out: dict[str, list[tuple[str, FuncInfo, ast.stmt]]] = {}
    for attr, stores in prog.attr_stores(cls, inherited=False).items():
        for f, s, v in stores:
            names: list[str] = []
            if isinstance(s, ast.AnnAssign):
                for x in ast.walk(s.annotation if not isinstance(s.annotation, ast.Constant) else ast.parse(str(s.annotation.value), mode="eval").body):
                    d = dotted(x)
                    if d and not isinstance(getattr(x, "_parent", None), ast.Attribute):
                        names.append(prog.qualify(f.module, d))
            if isinstance(v, ast.Call):
                d = dotted(v.func)
                if d:
                    names.append(prog.qualify(f.module, d))
            if isinstance(v, ast.Lambda):
                names.append("<lambda>")
            if isinstance(v, (ast.GeneratorExp,)):
                names.append("collections.abc.Generator")
            if isinstance(v, ast.Name) and any(isinstance(x, (ast.FunctionDef,)) and x.name == v.id for x in ast.walk(f.node) if x is not f.node):
                names.append("<local function>")
            # value is another object's attribute: follow one step (queue aliasing)
            if isinstance(v, ast.Attribute) and _depth < 2:
                owner = prog.expr_class(f, v.value)
                if owner is not None and owner is not cls:
                    for k in prog.mro(owner):
                        for n2, f2, s2 in attr_type_names(prog, k, _depth + 1).get(mangle(k.name, v.attr), []):
                            names.append(n2)
            for nm in names:
                out.setdefault(attr, []).append((nm, f, s))
    return out


def reachable_classes(prog, roots: list[ClassInfo]) -> list[ClassInfo]:
    seen: list[ClassInfo] = []
    work = list(roots)
    while work:
        c = work.pop()
        if c in seen:
            continue
        seen.append(c)
        for k in prog.mro(c):
            if k not in seen:
                work.append(k)
        for sub in prog.subclasses(c, strict=True):
            work.append(sub)
        for attr, lst in attr_type_names(prog, c).items():
            for nm, f, s in lst:
                k = prog.classes.get(nm) or next((x for x in prog.classes.values() if x.qualname == nm), None)
                if k is None:
                    short = nm.split(".")[-1]
                    cands = [x for x in prog.classes.values() if x.name == short and nm.startswith("black_it")]
                    k = cands[0] if len(cands) == 1 else None
                if k is not None and k not in seen:
                    work.append(k)
        # parameter annotations of __init__ stored to attributes (self._agent = agent: Agent)
        init = c.methods.get("__init__")
        if init is not None:
            for p in init.bound_params:
                k = prog._ann_class(init.module, init.param_annotation(p))
                if k is not None and k not in seen and any(isinstance(v, ast.Name) and v.id == p for lst in prog.attr_stores(c, inherited=False).values() for _, _, v in lst):
                    work.append(k)
    return seen


def r5_picklable(ctx: Context) -> None:
    prog = ctx.prog
    roots = [prog.find_class("BaseScheduler"), prog.find_class("BaseLoss")]
    classes = reachable_classes(prog, roots)
    ctx.floor("R5", "classes reachable from the pickled scheduler / loss", len(classes), 15)
    n_attrs = 0
    for c in classes:
        custom = [m for m in ("__getstate__", "__reduce__", "__reduce_ex__") if any(m in k.methods for k in prog.mro(c))]
        for attr, lst in sorted(attr_type_names(prog, c).items()):
            n_attrs += 1
            for nm, f, s in lst:
                bad = UNPICKLABLE.get(nm) or ("function" if nm in ("<lambda>", "<local function>") else None)
                if bad and not custom:
                    ctx.fail("R5.picklable", f"{c.name}.{attr}:{bad}", f"{c.name}.{attr} holds a {nm} ({bad}): pickle.dump of the scheduler raises TypeError, so no checkpoint "
                             "can be written for this scheduler kind", f, s)
    ctx.ok("R5.picklable", "pickled-classes:scanned", f"{len(classes)} classes / {n_attrs} attributes reachable from the dumped scheduler and loss scanned for unpicklable types")
    ctx.tables["C04.R5.reachable_classes"] = sorted(c.name for c in classes)


# ---------------------------------------------------------------------------------------------- R7
def r7_restore_order(ctx: Context, pl: Plumbing) -> None:
    pl.restore_sinks()
    g = CFG(pl.restore.node)
    ctor_nodes = set(node_for(g, pl.restore_ctor))
    for s in pl.restore_stores:
        for sn in g.nodes_of(s):
            p = g.path_avoiding(g.entry, {sn}, ctor_nodes)
            ctx.check(p is None, "R7.order", f"restore_from_checkpoint:after-ctor:{src(s.targets[0])}", f"`{src(s.targets[0])}` is overwritten after the constructor ran",  # type: ignore[attr-defined]
                      f"`{src(s)[:70]}` runs before the constructor call (the constructor then resets it)", pl.restore, s)
    # every overwrite happens on every path that returns the calibrator: a store under a condition (e.g. only for seeded runs) restores the state sometimes
    ret_nodes = {n_ for n_ in g.live if n_.kind == "return"}
    for s in pl.restore_stores:
        sn_all = set(g.nodes_of(s))
        p = g.path_avoiding(g.entry, ret_nodes, sn_all, labels={"next", "true", "false", "loop", "exhaust"}) if ret_nodes else None
        ctx.check(p is None, "R7.unconditional", f"restore_from_checkpoint:unconditional:{src(s.targets[0])}", f"`{src(s.targets[0])}` is restored on every path",  # type: ignore[attr-defined]
                  f"`{src(s)[:80]}` is skipped on some path through restore_from_checkpoint: that part of the state is then whatever the constructor made of it, not what was saved", pl.restore, s, path_text(pl.restore, p))
    # the restored object is the one returned
    rets = [r for r in walk_scope(pl.restore.node) if isinstance(r, ast.Return)]
    tgt = None
    for s in walk_scope(pl.restore.node):
        if isinstance(s, ast.Assign) and s.value is pl.restore_ctor and isinstance(s.targets[0], ast.Name):
            tgt = s.targets[0].id
    for r in rets:
        ctx.check(tgt is not None and src(r.value) == tgt, "R7.order", "restore_from_checkpoint:return", "the constructed and overwritten object is returned", f"restore returns `{src(r.value)}`", pl.restore, r)
    for s in pl.restore_stores:
        recv = dotted(s.targets[0]).split(".")[0]  # type: ignore[union-attr]
        ctx.check(recv == tgt, "R7.order", f"restore_from_checkpoint:receiver:{src(s.targets[0])}", "overwrites go to the restored object", f"`{src(s)[:60]}` writes another object", pl.restore, s)  # type: ignore[attr-defined]


DESTRUCTIVE_CALLS = {"unlink", "rmdir", "rmtree", "remove", "removedirs", "rename", "replace", "write_text", "write_bytes", "truncate", "to_csv", "create_dataset", "dump", "touch"}


def r8_restore_is_read_only(ctx: Context, pl: Plumbing) -> None:
    """Restoring (load + constructor + everything they call in the calibrator) must not modify the checkpoint folder."""
    prog = ctx.prog
    cal = prog.find_class("Calibrator")
    reach: list[FuncInfo] = []
    work = [pl.restore, pl.load, pl.init]
    while work:
        f = work.pop()
        if f in reach:
            continue
        reach.append(f)
        for c in calls_in(f.node, scope_only=False):
            for t in prog.resolve_call(f, c):
                if isinstance(t, FuncInfo) and t not in reach and (t.cls is cal or t.module is pl.load.module or (t.cls is None and t.module is pl.restore.module)) and t.name not in ("create_checkpoint", "calibrate"):
                    work.append(t)
    n = 0
    for f in reach:
        ctx.analysed(f)
        for c in calls_in(f.node, scope_only=False):
            n += 1
            name = c.func.attr if isinstance(c.func, ast.Attribute) else (dotted(c.func) or "")
            q = prog.qualify(f.module, dotted(c.func) or "") if dotted(c.func) else ""
            bad = name in DESTRUCTIVE_CALLS and not q.startswith(("json.", "pickle.")) or q in ("os.remove", "os.unlink", "shutil.rmtree", "os.rename", "os.replace", "shutil.move")
            if name == "dump" and q in ("json.dump", "pickle.dump"):
                bad = True
            if name == "open" or q in ("h5py.File", "open"):
                mode = kwarg(c, "mode", 0 if name == "open" and isinstance(c.func, ast.Attribute) else 1)
                if isinstance(mode, ast.Constant) and isinstance(mode.value, str) and any(ch in mode.value for ch in "wax+"):
                    bad = True
            if bad:
                ctx.fail("R8.restore-read-only", f"{f.qualname.split(':')[1]}:{name}", f"`{' '.join(src(c).split())[:80]}` is reachable from restore_from_checkpoint (through {f.qualname.split(':')[1]}): restoring a checkpoint "
                         "modifies or deletes files of the folder it restores from, so the folder no longer holds the saved state", f, c)
    ctx.ok("R8.restore-read-only", "restore:reachable", f"{len(reach)} functions / {n} call sites reachable from restore_from_checkpoint scanned for file writes and deletions")


# ---------------------------------------------------------------------------------------------- R9
def r9_suffix_slices(ctx: Context, pl: Plumbing) -> None:
    """What save writes must be a function of its arguments for *every* row count: a block selected as `a[-k:]` is the last k rows
    only when k > 0 - for k == 0 (a second checkpoint with no new batch) it is the whole array."""
    from ..util import negative_count_slices
    prog = ctx.prog
    funcs = [pl.save]
    for c in calls_in(pl.save.node):
        for t in prog.resolve_call(pl.save, c):
            if isinstance(t, FuncInfo) and t.module is pl.save.module and t not in funcs:
                funcs.append(t)
    n = 0
    for f in funcs:
        for node, k, proven in negative_count_slices(f.node):
            n += 1
            ctx.check(proven, "R9.suffix-slice", f"{f.name}:[-{k}:]", f"`{src(node)}`: the count is guarded against 0",
                      f"`{src(node)}` selects the last {k} rows only when {k} > 0; when {k} == 0 (a checkpoint written again with no new batch) it selects the WHOLE array, "
                      "so rows already stored are stored a second time and the restored history differs from the saved one", f, node)
    ctx.ok("R9.suffix-slice", "save_calibrator_state:slices", f"{len(funcs)} function(s) on the save path, {n} negative-count suffix slice(s), none unguarded")


# ---------------------------------------------------------------------------------------------- R10
def r10_derived_sources_private(ctx: Context) -> None:
    """The search grid is not persisted: the restore rebuilds it from the persisted bounds and precision.  That is the saved grid only if the
    stored bounds / precision cannot change after the grid was built from them, i.e. if the constructor keeps private copies of what the caller
    handed in (np.array / .copy()), not the caller's own arrays (np.asarray / plain reference)."""
    f = ctx.func("black_it.search_space:SearchSpace.__init__")
    n = 0
    for st in walk_scope(f.node):
        if not (isinstance(st, (ast.Assign, ast.AnnAssign)) and st.value is not None):
            continue
        tg = st.targets[0] if isinstance(st, ast.Assign) else st.target
        if not (isinstance(tg, ast.Attribute) and isinstance(tg.value, ast.Name) and tg.value.id == f.self_name and tg.attr.lstrip("_") in ("parameters_bounds", "parameters_precision")):
            continue
        n += 1
        v = st.value
        env = single_assignment_env(f.node)
        for _ in range(4):
            if isinstance(v, ast.Name) and v.id in env:
                v = env[v.id]
        fn = (dotted(v.func) or "") if isinstance(v, ast.Call) else ""
        last = fn.split(".")[-1]
        copy_kw = kwarg(v, "copy") if isinstance(v, ast.Call) else None
        fresh = (last in ("array", "copy", "deepcopy", "stack", "vstack", "hstack", "column_stack", "concatenate") and not (isinstance(copy_kw, ast.Constant) and copy_kw.value in (False, None))) \
            or (isinstance(v, ast.Call) and isinstance(v.func, ast.Attribute) and v.func.attr in ("copy", "astype") and not (isinstance(copy_kw, ast.Constant) and copy_kw.value is False)) \
            or isinstance(v, (ast.BinOp, ast.List, ast.Tuple, ast.ListComp))
        from_param = any(isinstance(x, ast.Name) and x.id in f.params and x.id != f.self_name for x in ast.walk(v))
        ctx.check(fresh or not from_param, "R10.private-copy", f"SearchSpace.__init__:{tg.attr}", f"{tg.attr} is a private copy of the caller's argument",
                  f"`{src(st)[:80]}` keeps the caller's own array: a later change of it moves the persisted {tg.attr.lstrip('_')} away from the grid that was built from them, and the "
                  "restored calibrator (grid rebuilt from the persisted values) is not the saved one", f, st)
    ctx.floor("R10", "stores of bounds / precision in SearchSpace.__init__", n, 2)
